"""Run-time contract checks on the REAL flowjax code (float64).  Used for (a) replaying the
verifier's counter-models, (b) bounded stand-ins / conformance grids (L3).  Each check returns
None if the contract clause holds on the case, else a dict describing the failure.
Never counted as proof."""
from __future__ import annotations

import json
import math
import os
import subprocess
import sys

import numpy as np

import jax

jax.config.update("jax_enable_x64", True)
import jax.numpy as jnp  # noqa: E402

EPS = float(np.finfo(np.float64).eps)


def fnum(x):
    """model value (int / 'p/q' / decimal string) -> float"""
    if isinstance(x, (int, float)):
        return float(x)
    if isinstance(x, str):
        x = x.rstrip("?")
        if "/" in x:
            p, q = x.split("/")
            return float(int(p)) / float(int(q))
        return float(x)
    raise ValueError(x)


# --------------------------------------------------------------------------------------
# C10 bisection
FUNCS = {
    "linear_steep": lambda r: (lambda x: 1e3 * (x - r)),
    "linear_flat": lambda r: (lambda x: 1e-3 * (x - r)),
    "cubic": lambda r: (lambda x: (x - r) ** 3 + (x - r)),
    "sinh": lambda r: (lambda x: jnp.sinh(jnp.clip(x - r, -50, 50)) + (x - r)),
    "saturating": lambda r: (lambda x: jnp.tanh(x - r) + 1e-3 * (x - r)),
    "kinked": lambda r: (lambda x: jnp.where(x < r, 0.1 * (x - r), 5.0 * (x - r))),
}


def table_fn(table):
    """strictly increasing piecewise-linear interpolant through (x, f(x)) points, slope 1 outside"""
    pts = sorted({(fnum(a), fnum(b)) for a, b in table})
    xs, ys = [], []
    for x, y in pts:
        if xs and x == xs[-1]:
            continue
        xs.append(x)
        ys.append(y)
    for i in range(1, len(xs)):
        if not ys[i] > ys[i - 1]:
            return None
    xs_a, ys_a = jnp.array(xs), jnp.array(ys)

    def f(x):
        inner = jnp.interp(x, xs_a, ys_a)
        return jnp.where(x < xs_a[0], ys_a[0] + (x - xs_a[0]), jnp.where(x > xs_a[-1], ys_a[-1] + (x - xs_a[-1]), inner))

    return f


def _bound(case, k):
    """search bounds as the user may pass them: float arrays, or integer-typed (jnp.asarray(-10)) when int_bounds is set"""
    return jnp.asarray(int(case[k])) if case.get("int_bounds") else jnp.asarray(case[k])


def _bisect_case(case):
    """executed in a child process (so that a non-terminating loop can be detected by timeout)"""
    from flowjax import bisection_search as bs

    if case.get("fn") == "_autoregressive_bisection_search":
        case = dict(case, table=None)

    which = case.get("fn", "_bisection_search")
    if which == "AutoregressiveBisectionInverter":
        # the PUBLIC inverter on a library bijection with small own-coordinate slopes (flat maps) and non-dyadic preimages
        import flowjax.bijections as B
        rng = np.random.default_rng(case["seed"])
        dim = case["dim"]
        scale = jnp.asarray(rng.choice(case["scales"], size=dim))
        loc = jnp.asarray(rng.normal(size=dim))
        bij = B.Affine(loc, scale)
        xstar = jnp.asarray(rng.uniform(-3, 3, size=dim) + 0.1373)
        ystar = bij.transform(xstar)
        inv = bs.AutoregressiveBisectionInverter(tol=case["tol"], max_iter=case["max_iter"])
        got = inv(bij, ystar)
        err = float(jnp.max(jnp.abs(got - xstar)))
        bound = case["tol"] + 64 * EPS * max(1.0, float(jnp.max(jnp.abs(xstar))))
        return dict(ok=bool(err <= bound), observed=dict(found=np.asarray(got).tolist(), preimage=np.asarray(xstar).tolist(), scales=np.asarray(scale).tolist(), max_err=err, bound=bound),
                    required="AutoregressiveBisectionInverter returns the preimage within the requested tolerance (in x), also for flat maps")
    if which == "_autoregressive_bisection_search":
        dim, tol, mi, seed = case["dim"], case["tol"], case["max_iter"], case["seed"]
        rng = np.random.default_rng(seed)
        a = jnp.asarray(rng.uniform(0.5, 2.0, size=dim))
        Bm = jnp.asarray(np.tril(rng.normal(size=(dim, dim)) * 0.5, -1))  # coupling to EARLIER coordinates only, Lipschitz <= ~1
        xstar = jnp.asarray(rng.normal(size=dim) * case.get("spread", 3.0))

        def tri(v):
            return a * v + jnp.tanh(Bm @ v) + 0.1 * v**3

        ystar = tri(xstar)
        got = bs._autoregressive_bisection_search(lambda v: tri(v) - ystar, lower=_bound(case, "lower"), upper=_bound(case, "upper"), tol=tol, length=dim, max_iter=mi)
        err = float(jnp.max(jnp.abs(got - xstar)))
        bound = max(tol, 1e-12) * (3.0 ** dim) + 64 * EPS * max(1.0, float(jnp.max(jnp.abs(xstar))))
        return dict(ok=bool(err <= bound), observed=dict(found=np.asarray(got).tolist(), preimage=np.asarray(xstar).tolist(), max_err=err, bound=bound),
                    required="coordinate-wise search recovers the preimage of a triangular map increasing in its own coordinate (error <= tol * accumulation factor)")
    if case.get("table"):
        f = table_fn(case["table"])
        if f is None:
            return dict(skip="model of f is not strictly increasing on its points (spurious model)")
    else:
        f = FUNCS[case["func"]](case["root"])
    r, lo, hi = case["root"], case["lower"], case["upper"]
    if which == "_adapt_interval_to_include_root":
        a, b, n = bs._adapt_interval_to_include_root(f, lower=_bound(case, "lower"), upper=_bound(case, "upper"))
        a, b = float(a), float(b)
        ok = a <= b and float(f(a)) <= 0 <= float(f(b)) and a - 1e-9 * max(1, abs(r)) <= r <= b + 1e-9 * max(1, abs(r))
        return dict(ok=bool(ok), observed=dict(lower=a, upper=b, iterations=int(n), f_lower=float(f(a)), f_upper=float(f(b))), required="lower <= root <= upper, f(lower) <= 0 <= f(upper)")
    tol, mi = case["tol"], case["max_iter"]
    a, b, _ = bs._adapt_interval_to_include_root(f, lower=_bound(case, "lower"), upper=_bound(case, "upper"))
    W = float(b) - float(a)
    root, n_adapt, n_it = bs._bisection_search(f, lower=_bound(case, "lower"), upper=_bound(case, "upper"), tol=tol, max_iter=mi)
    root = float(root)
    bound = max(tol, W / 2.0 ** (mi + 1)) + 8 * EPS * max(1.0, abs(r), abs(lo), abs(hi))
    err = abs(root - r)
    return dict(ok=bool(err <= bound), observed=dict(root=root, err=err, bound=bound, iterations=int(n_it), adapt_iterations=int(n_adapt), bracket_width=W),
                required="|root - r| <= max(tol, W/2^(max_iter+1)) (+ float64 resolution at the root's magnitude)")


def rt_bisection(case, timeout=60):
    p = None
    try:
        p = subprocess.run([sys.executable, os.path.abspath(__file__), "--bisect-case", json.dumps(case)], capture_output=True, text=True, timeout=timeout,
                           env=dict(os.environ, JAX_PLATFORMS="cpu"))
    except subprocess.TimeoutExpired:
        return dict(what=f"search did not terminate within {timeout}s", case=case)
    if p.returncode != 0:
        return dict(what="real code raised: " + (p.stderr or "")[-400:], case=case, error=True)
    res = json.loads(p.stdout.strip().splitlines()[-1])
    if res.get("skip"):
        return dict(skip=res["skip"])
    if not res["ok"]:
        return dict(what=f"required {res['required']}; observed {res['observed']}", case=case, observed=res["observed"])
    return None


def rt_bisection_batch(cases):
    """many cases in ONE child process (grid mode); returns list of failures"""
    out = []
    for c in cases:
        try:
            res = _bisect_case(c)
        except Exception as ex:  # noqa: BLE001
            out.append(dict(what=f"real code raised {type(ex).__name__}: {ex}", case=c, error=True))
            continue
        if res.get("skip"):
            continue
        if not res["ok"]:
            out.append(dict(what=f"required {res['required']}; observed {res['observed']}", case=c, observed=res["observed"]))
    return out


if __name__ == "__main__":
    if len(sys.argv) == 3 and sys.argv[1] == "--bisect-case":
        print(json.dumps(_bisect_case(json.loads(sys.argv[2]))))


# --------------------------------------------------------------------------------------
# C16 training loops driven by a scripted loss and a counting optimiser
def counting_optimizer():
    import optax

    def init(params):
        return ()

    def update(grads, state, params=None):
        return jax.tree_util.tree_map(lambda g: jnp.ones_like(g), grads), state

    return optax.GradientTransformation(init, update)


def rt_variational(table, steps, return_best):
    """real fit_to_variational_target; parameters are a scalar counter = number of updates so far (their 'version');
    the loss of version v is table[v]."""
    from flowjax.train.variational_fit import fit_to_variational_target

    tab = jnp.asarray(list(table) + [max(table) + 1.0] * 2, dtype=float)

    def loss_fn(params, static, key):
        v = jnp.round(jax.lax.stop_gradient(params)).astype(int)
        return tab[v] + 0.0 * params

    out, losses = fit_to_variational_target(jax.random.PRNGKey(0), jnp.zeros(()), loss_fn, steps=steps, optimizer=counting_optimizer(), return_best=return_best, show_progress=False)
    ver = int(round(float(out)))
    exp_losses = [float(x) for x in table[:steps]]
    problems = []
    if len(losses) != steps:
        problems.append(f"recorded {len(losses)} losses for {steps} steps")
    elif [float(x) for x in losses] != exp_losses:
        problems.append(f"recorded losses {losses} != losses evaluated at versions 0..steps-1 {exp_losses}")
    if return_best and steps > 0:
        m = min(exp_losses)
        if not (0 <= ver < steps and exp_losses[ver] == m):
            problems.append(f"return_best=True returned the parameters of version {ver} (loss {tab[ver]:.6g}); the minimum recorded loss {m:.6g} was evaluated at version {exp_losses.index(m)}")
    if return_best and steps == 0 and ver != 0:
        problems.append(f"steps=0 returned version {ver}")
    if not return_best and ver != steps:
        problems.append(f"return_best=False returned version {ver} after {steps} steps")
    if problems:
        return dict(what="; ".join(problems), case=dict(losses=list(map(float, table)), steps=steps, return_best=return_best))
    return None


_FD_CACHE = {}


def rt_fit_to_data(table, max_epochs, max_patience, return_best):
    """real fit_to_data with one train and one validation batch per epoch; parameters = update counter (version);
    the validation loss of epoch e (evaluated with version e+1) is table[e] (pairwise distinct values)."""
    from flowjax.train.data_fit import fit_to_data

    tab = jnp.asarray([0.0] + list(table) + [max(table) + 1.0 + i for i in range(3)], dtype=float)
    key = ("loss",)
    if key not in _FD_CACHE:
        def loss_fn(params, static, x, condition=None, key=None):
            v = jnp.round(jax.lax.stop_gradient(params["v"])).astype(int)
            return params["tab"][v] + 0.0 * params["v"] + 0.0 * x.sum()

        _FD_CACHE[key] = loss_fn
    loss_fn = _FD_CACHE[key]
    import equinox as eqx
    from flowjax.wrappers import NonTrainable

    dist = {"v": jnp.zeros(()), "tab": NonTrainable(tab)}

    def loss2(params, static, x, condition=None, key=None):
        d = eqx.combine(params, static)
        v = jnp.round(jax.lax.stop_gradient(d["v"])).astype(int)
        return d["tab"].tree[v] + 0.0 * d["v"] + 0.0 * x.sum()

    if "loss2" not in _FD_CACHE:
        _FD_CACHE["loss2"] = loss2
    x = jnp.arange(4.0)[:, None]
    out, losses = fit_to_data(jax.random.PRNGKey(0), dist, x, loss_fn=_FD_CACHE["loss2"], max_epochs=max_epochs, max_patience=max_patience, batch_size=10, val_prop=0.5,
                              optimizer=counting_optimizer(), return_best=return_best, show_progress=False)
    ver = int(round(float(out["v"])))
    # reference from the property statement (distinct losses)
    E = 0
    for e in range(max_epochs):
        E = e + 1
        a = min(range(e + 1), key=lambda i: table[i])
        if e - a > max_patience:
            break
    exp_ver = (min(range(E), key=lambda i: table[i]) + 1 if E > 0 else 0) if return_best else E
    got_val = [float(v) for v in losses["val"]]
    problems = []
    if len(losses["val"]) != E or len(losses["train"]) != E:
        problems.append(f"ran {len(losses['val'])} epochs (train {len(losses['train'])} / val {len(losses['val'])} losses recorded); the documented rule gives {E}")
    elif got_val != [float(t) for t in table[:E]]:
        problems.append(f"validation losses {got_val} != scripted {table[:E]}")
    if ver != exp_ver:
        problems.append(f"returned the parameters after {ver} updates; expected those after {exp_ver} (return_best={return_best})")
    if problems:
        return dict(what="; ".join(problems), case=dict(val_losses=[float(t) for t in table], max_epochs=max_epochs, max_patience=max_patience, return_best=return_best))
    return None


# --------------------------------------------------------------------------------------
# elementwise leaf bijections: run-time contract at one point (float64)
def _build_leaf(cname, prm):
    import equinox as eqx
    import flowjax.bijections as B

    g = lambda k, d=None: (fnum(prm[k]) if k in prm and prm[k] is not None else d)  # noqa: E731
    if cname == "Affine":
        b = B.Affine(jnp.asarray(g("loc", 0.0)))
        return eqx.tree_at(lambda a: a.scale, b, jnp.asarray(g("scale", 1.0)))
    if cname == "Loc":
        return B.Loc(jnp.asarray(g("loc", 0.0)))
    if cname == "Scale":
        b = B.Scale(jnp.asarray(1.0))
        return eqx.tree_at(lambda a: a.scale, b, jnp.asarray(g("scale", 1.0)))
    if cname == "Exp":
        return B.Exp()
    if cname == "SoftPlus":
        return B.SoftPlus()
    if cname == "Tanh":
        return B.Tanh()
    if cname == "Identity":
        return B.Identity()
    if cname == "LeakyTanh":
        return B.LeakyTanh(g("max_val", 3.0))
    raise KeyError(cname)


def _ref_leaf(cname, prm, x):
    """independent float64 NumPy reference written from the documentation (C07)"""
    g = lambda k, d=None: (fnum(prm[k]) if k in prm and prm[k] is not None else d)  # noqa: E731
    if cname == "Affine":
        return g("scale", 1.0) * x + g("loc", 0.0)
    if cname == "Loc":
        return x + g("loc", 0.0)
    if cname == "Scale":
        return g("scale", 1.0) * x
    if cname == "Exp":
        return math.exp(x)
    if cname == "SoftPlus":
        return math.log1p(math.exp(-abs(x))) + max(x, 0.0)
    if cname == "Tanh":
        return math.tanh(x)
    if cname == "Identity":
        return x
    if cname == "LeakyTanh":
        m = g("max_val", 3.0)
        if abs(x) < m:
            return math.tanh(x)
        s = 1.0 if x > 0 else -1.0
        return s * math.tanh(m) + (1 - math.tanh(m) ** 2) * (x - s * m)
    raise KeyError(cname)


_DOM = {"default": lambda v: True}
_COD = {"Exp": lambda v: v > 0, "SoftPlus": lambda v: v > 0, "Tanh": lambda v: -1 < v < 1}


def _close(a, b, scale=1.0, tol=1e-9):
    a, b = float(a), float(b)
    if math.isnan(a) or math.isnan(b):
        return False
    if math.isinf(a) or math.isinf(b):
        return a == b
    return abs(a - b) <= tol * max(1.0, abs(a), abs(b), scale)


def rt_leaf(prop, cname, prm, x=None, y=None):
    """returns list of failure strings for the clauses of `prop` at input x (domain side) / y (codomain side)"""
    b = _build_leaf(cname, prm)
    fails = []
    cod = _COD.get(cname, lambda v: True)
    isf = lambda v: bool(jnp.all(jnp.isfinite(v)))  # noqa: E731
    if x is not None and abs(x) < 1e300:
        xa = jnp.asarray(float(x))
        t = b.transform(xa)
        t2, ld = b.transform_and_log_det(xa)
        dfwd = jax.jacfwd(b.transform)(xa)
        cond = max(1.0, abs(float(dfwd)), 1.0 / max(abs(float(dfwd)), 1e-300)) if isf(dfwd) else 1.0
        if prop == "C07" and isf(t):
            r = _ref_leaf(cname, prm, float(x))
            if not _close(t, r):
                fails.append(f"transform({x}) = {float(t)!r}, documented function gives {r!r}")
        if prop == "C01" and isf(t) and cod(float(t)):
            back = b.inverse(t)
            if not _close(back, x, cond, 1e-7):
                fails.append(f"inverse(transform({x})) = {float(back)!r}")
            if not _close(t2, t):
                fails.append(f"transform_and_log_det({x})[0] = {float(t2)!r} != transform = {float(t)!r}")
        if prop == "C02" and isf(t):
            if jnp.ndim(ld) != 0:
                fails.append(f"forward log-det has shape {jnp.shape(ld)}")
            elif isf(dfwd) and float(jnp.abs(dfwd)) > 1e-290 and not _close(ld, jnp.log(jnp.abs(dfwd)), tol=1e-7):
                fails.append(f"forward log-det at x={x} is {float(ld)!r}; log|d transform/dx| by autodiff is {float(jnp.log(jnp.abs(dfwd)))!r}")
        if prop == "C18" and isf(t) and isf(ld):
            for nm, fn in (("transform", b.transform), ("forward log-det", lambda v: b.transform_and_log_det(v)[1])):
                gval = jax.grad(lambda v: jnp.sum(fn(v)))(xa)
                if not isf(gval):
                    fails.append(f"d {nm}/dx at x={x} is {float(gval)!r} although the value is finite")
    if y is not None and abs(y) < 1e300 and cod(float(y)):
        ya = jnp.asarray(float(y))
        iv = b.inverse(ya)
        iv2, ldi = b.inverse_and_log_det(ya)
        if prop == "C01" and isf(iv):
            fw = b.transform(iv)
            dinv = jax.jacfwd(b.inverse)(ya)
            cond = max(1.0, abs(float(dinv)), 1.0 / max(abs(float(dinv)), 1e-300)) if isf(dinv) else 1.0
            if not _close(fw, y, cond, 1e-7):
                fails.append(f"transform(inverse({y})) = {float(fw)!r}")
            if not _close(iv2, iv):
                fails.append(f"inverse_and_log_det({y})[0] = {float(iv2)!r} != inverse = {float(iv)!r}")
        if prop == "C02" and isf(iv):
            _, ldf = b.transform_and_log_det(iv)
            if isf(ldf) and not _close(ldi, -ldf, tol=1e-7):
                fails.append(f"inverse log-det at y={y} is {float(ldi)!r}; minus the forward log-det at inverse(y)={float(iv)!r} is {float(-ldf)!r}")
        if prop == "C18" and isf(iv) and isf(ldi):
            for nm, fn in (("inverse", b.inverse), ("inverse log-det", lambda v: b.inverse_and_log_det(v)[1])):
                gval = jax.grad(lambda v: jnp.sum(fn(v)))(ya)
                if not isf(gval):
                    fails.append(f"d {nm}/dy at y={y} is {float(gval)!r} although the value is finite")
    return fails


def leaf_grid_points(cname, prm):
    m = fnum(prm.get("max_val", 3.0)) if cname == "LeakyTanh" else 1.0
    base = [0.0, 1.0, -1.0, 0.5, -0.5, 0.3, -2.7, 1e-8, -1e-8, 10.0, -10.0, 1e4, -1e4, m, -m, math.tanh(m), -math.tanh(m)]
    pts = set(base)
    for v in list(base):
        if v not in (1e4, -1e4):
            pts.add(float(np.nextafter(v, np.inf)))
            pts.add(float(np.nextafter(v, -np.inf)))
    if cname == "LeakyTanh":
        for v in (m * 1.2, -m * 1.2, (m + math.tanh(m)) / 2, -(m + math.tanh(m)) / 2, 0.999, -0.999, 1 + 1e-6, -1 - 1e-6):
            pts.add(v)
    return sorted(pts)


LEAF_PARAM_GRID = {
    "Affine": [dict(loc=0.3, scale=1.7), dict(loc=-2.0, scale=-0.4), dict(loc=0.0, scale=1e-3), dict(loc=5.0, scale=250.0)],
    "Loc": [dict(loc=0.3), dict(loc=-7.5)],
    "Scale": [dict(scale=1.7), dict(scale=-0.4), dict(scale=1e-3)],
    "Exp": [dict()], "SoftPlus": [dict()], "Tanh": [dict()], "Identity": [dict()],
    # 20 and 25: tanh(max_val) rounds to exactly 1.0 in float64 (the linear tails then start at |y| == 1)
    "LeakyTanh": [dict(max_val=3.0), dict(max_val=1.0), dict(max_val=0.5), dict(max_val=2.0), dict(max_val=20.0), dict(max_val=25.0)],
}


def rt_leaf_grid(prop, cname=None, first_only=False, count=None):
    fails, n = [], 0
    for cn, plist in LEAF_PARAM_GRID.items():
        if cname and cn != cname:
            continue
        for prm in plist:
            if cn == "LeakyTanh" and prm.get("max_val", 0) >= 10 and prop != "C18":
                continue  # saturating max_val: only the gradient-finiteness check (the autodiff REFERENCE of the other checks loses digits there)
            for v in leaf_grid_points(cn, prm):
                if cn in ("Exp",) and abs(v) > 700:
                    continue
                n += 1
                for f in rt_leaf(prop, cn, prm, x=v, y=v):
                    fails.append(dict(what=f"{cn}({prm}): {f}", case=dict(cls=cn, params=prm, point=v)))
                    if first_only:
                        return fails
    if count is not None:
        count.append(n)
    return fails


# --------------------------------------------------------------------------------------
# RationalQuadraticSpline
def build_spline_raw(x_pos, y_pos, derivatives, interval):
    """spline whose (unwrapped) knot arrays are given directly"""
    import equinox as eqx
    from flowjax.bijections import RationalQuadraticSpline

    b = RationalQuadraticSpline(knots=len(x_pos) - 2, interval=tuple(interval))
    b = eqx.tree_at(lambda s: (s.x_pos, s.y_pos, s.derivatives), b, (jnp.asarray(x_pos, float), jnp.asarray(y_pos, float), jnp.asarray(derivatives, float)),
                    is_leaf=lambda v: hasattr(v, "unwrap"))
    return b


def build_spline_perturbed(knots, interval, seed, scale=1.0):
    """real constructor, then the raw trainable arrays are moved (what training does)"""
    import equinox as eqx
    from flowjax.bijections import RationalQuadraticSpline

    b = RationalQuadraticSpline(knots=knots, interval=interval)
    if seed is None:
        return b
    rng = np.random.default_rng(seed)
    params, static = eqx.partition(b, eqx.is_inexact_array)
    leaves, tdef = jax.tree_util.tree_flatten(params)
    leaves = [l + scale * jnp.asarray(rng.normal(size=l.shape)) for l in leaves]
    return eqx.combine(jax.tree_util.tree_unflatten(tdef, leaves), static)


def spline_ref(xp, yp, d, interval, x):
    """independent NumPy reference written from eq. 4 of Durkan et al."""
    lo_, hi_ = interval
    if x < lo_ or x > hi_:
        return x
    k = int(np.clip(np.searchsorted(xp, x, side="right") - 1, 0, len(xp) - 2))
    w, h = xp[k + 1] - xp[k], yp[k + 1] - yp[k]
    s, xi = h / w, (x - xp[k]) / w
    return yp[k] + h * (s * xi**2 + d[k] * xi * (1 - xi)) / (s + (d[k + 1] + d[k] - 2 * s) * xi * (1 - xi))


def rt_spline(prop, b, x=None, y=None, label="spline"):
    import equinox as eqx
    from flowjax.wrappers import unwrap

    ub = unwrap(b)
    xp, yp, dd = (np.asarray(v, float) for v in (ub.x_pos, ub.y_pos, ub.derivatives))
    interval = tuple(float(v) for v in b.interval)
    fails = []
    isf = lambda v: bool(jnp.all(jnp.isfinite(v)))  # noqa: E731
    params, static = eqx.partition(b, eqx.is_inexact_array)

    def pgrad(fn_name, v):
        def f(p):
            return jnp.sum(getattr(eqx.combine(p, static), fn_name)(v)[1] if fn_name.endswith("log_det") else getattr(eqx.combine(p, static), fn_name)(v))
        g = jax.grad(f)(params)
        return all(isf(l) for l in jax.tree_util.tree_leaves(g))

    if x is not None:
        xa = jnp.asarray(float(x))
        t = b.transform(xa)
        t2, ld = b.transform_and_log_det(xa)
        if prop == "C07":
            r = spline_ref(xp, yp, dd, interval, float(x))
            if not _close(t, r, tol=1e-8):
                fails.append(f"transform({x!r}) = {float(t)!r}; eq. 4 / identity-outside reference gives {r!r}")
        if prop == "C01":
            back = b.inverse(t)
            dloc = float(ub.derivative(xa))
            cond = max(1.0, 1.0 / max(dloc, 1e-12))
            if not _close(back, x, cond, 1e-7):
                fails.append(f"inverse(transform({x!r})) = {float(back)!r}")
            if not _close(t2, t):
                fails.append(f"transform_and_log_det({x!r})[0] = {float(t2)!r} != transform = {float(t)!r}")
        if prop == "C02":
            inside = interval[0] < float(x) < interval[1] and not np.any(np.isclose(xp, float(x), atol=1e-12))
            if inside:
                dfwd = jax.jacfwd(b.transform)(xa)
                if isf(dfwd) and not _close(ld, jnp.log(jnp.abs(dfwd)), tol=1e-7):
                    fails.append(f"forward log-det at x={x!r} is {float(ld)!r}; autodiff gives {float(jnp.log(jnp.abs(dfwd)))!r}")
        if prop == "C18" and isf(t):
            for nm in ("transform", "transform_and_log_det"):
                g = jax.grad(lambda v: jnp.sum(getattr(b, nm)(v)[1] if nm.endswith("log_det") else getattr(b, nm)(v)))(xa)
                if not isf(g):
                    fails.append(f"d {nm}/dx at x={x!r} is {float(g)!r}")
                if not pgrad(nm, xa):
                    fails.append(f"parameter gradient of {nm} at x={x!r} is not finite")
    if y is not None:
        ya = jnp.asarray(float(y))
        iv = b.inverse(ya)
        iv2, ldi = b.inverse_and_log_det(ya)
        if prop == "C01" and isf(iv):
            fw = b.transform(iv)
            cond = max(1.0, float(ub.derivative(iv)))
            if not _close(fw, y, cond, 1e-7):
                fails.append(f"transform(inverse({y!r})) = {float(fw)!r} (inverse = {float(iv)!r})")
            if not _close(iv2, iv):
                fails.append(f"inverse_and_log_det({y!r})[0] = {float(iv2)!r} != inverse = {float(iv)!r}")
        if prop == "C02" and isf(iv):
            _, ldf = b.transform_and_log_det(iv)
            if not _close(ldi, -ldf, tol=1e-7):
                fails.append(f"inverse log-det at y={y!r} is {float(ldi)!r}; minus forward log-det at the inverse image is {float(-ldf)!r}")
        if prop == "C18" and isf(iv):
            for nm in ("inverse", "inverse_and_log_det"):
                g = jax.grad(lambda v: jnp.sum(getattr(b, nm)(v)[1] if nm.endswith("log_det") else getattr(b, nm)(v)))(ya)
                if not isf(g):
                    fails.append(f"d {nm}/dy at y={y!r} is {float(g)!r}")
                if not pgrad(nm, ya):
                    fails.append(f"parameter gradient of {nm} at y={y!r} is not finite")
    return [f"{label}: {f}" for f in fails]


SPLINE_CONFIGS = [(4, (-2.0, 3.0), 3), (4, (-2.0, 3.0), None), (3, (1.0, 3.0), 5), (5, (-1.0, 1.0), 7), (2, (-4.0, -1.0), 11)]


def rt_spline_grid(prop, first_only=False, count=None):
    from flowjax.wrappers import unwrap

    fails, n = [], 0
    for knots, interval, seed in SPLINE_CONFIGS:
        b = build_spline_perturbed(knots, interval, seed)
        ub = unwrap(b)
        pts = set()
        for arr in (np.asarray(ub.x_pos, float), np.asarray(ub.y_pos, float)):
            for v in arr:
                pts.update([float(v), float(np.nextafter(v, np.inf)), float(np.nextafter(v, -np.inf))])
            pts.update(float(v) for v in (arr[:-1] + arr[1:]) / 2)
        lo_, hi_ = interval
        pts.update([0.0, lo_ - 1.0, hi_ + 1.0, lo_ - 1e-9, hi_ + 1e-9, 1e4, -1e4, 0.5])
        label = f"RationalQuadraticSpline(knots={knots}, interval={interval}, raw params perturbed with seed {seed})"
        for v in sorted(pts):
            n += 1
            for f in rt_spline(prop, b, x=v, y=v, label=label):
                fails.append(dict(what=f, case=dict(knots=knots, interval=interval, seed=seed, point=v)))
                if first_only:
                    return fails
    if count is not None:
        count.append(n)
    return fails


# --------------------------------------------------------------------------------------
# C03: change of variables on the three evaluation paths of real Transformed distributions
def _perturb(tree, seed, scale=0.3):
    import equinox as eqx
    from flowjax.wrappers import NonTrainable

    rng = np.random.default_rng(seed)
    params, static = eqx.partition(tree, eqx.is_inexact_array, is_leaf=lambda l: isinstance(l, NonTrainable))
    leaves, tdef = jax.tree_util.tree_flatten(params)
    leaves = [l + scale * jnp.asarray(rng.normal(size=l.shape), l.dtype) for l in leaves]
    return eqx.combine(jax.tree_util.tree_unflatten(tdef, leaves), static)


def c03_configs(tier):
    import flowjax.bijections as B
    import flowjax.distributions as Dm
    import flowjax.flows as Fl
    import jax.random as jr

    k = jr.PRNGKey(0)
    aff = lambda: B.Affine(jnp.array([0.3, -1.0]), jnp.array([1.7, 0.5]))  # noqa: E731
    cfg = []
    cfg.append(("Transformed(StandardNormal, Affine)", Dm.Transformed(Dm.StandardNormal((2,)), aff()), None))
    cfg.append(("Transformed(Normal, Chain[Affine, Tanh])", Dm.Transformed(Dm.Normal(jnp.array([0.2, -0.4]), jnp.array([0.7, 1.3])), B.Chain([aff(), B.Tanh((2,))])), None))
    addc = B.AdditiveCondition(lambda c: jnp.array([1.0, -2.0]) * c.sum(), (2,), (3,))
    cfg.append(("Transformed(StandardNormal, AdditiveCondition) [conditional bijection]", Dm.Transformed(Dm.StandardNormal((2,)), addc), 3))
    cond_base = Dm.Transformed(Dm.StandardNormal((2,)), addc)
    cfg.append(("Transformed(conditional base, Affine) [conditional base, unconditional bijection]", Dm.Transformed(cond_base, aff()), 3))
    cfg.append(("Transformed(conditional base, conditional bijection)", Dm.Transformed(cond_base, B.Chain([aff(), addc])), 3))
    # scalar (rank-0) conditioning variable: cond_shape == ()
    adds = B.AdditiveCondition(lambda c: jnp.array([1.0, -2.0]) * c, (2,), ())
    sbase = Dm.Transformed(Dm.StandardNormal((2,)), adds)
    cfg.append(("Transformed(StandardNormal, AdditiveCondition) [scalar condition]", sbase, ()))
    cfg.append(("Transformed(scalar-conditional base, Affine)", Dm.Transformed(sbase, aff()), ()))
    cfg.append(("Transformed(scalar-conditional base, scalar-conditional Chain)", Dm.Transformed(sbase, B.Chain([aff(), adds])), ()))
    for name, fac, kw in (("coupling_flow", Fl.coupling_flow, {}), ("masked_autoregressive_flow", Fl.masked_autoregressive_flow, {}), ("planar_flow", Fl.planar_flow, dict(negative_slope=0.1))):
        for invert in (True, False):
            for cd in (None, 3):
                try:
                    d = fac(k, base_dist=Dm.StandardNormal((2,)) if name != "masked_autoregressive_flow" else Dm.Normal(jnp.zeros(2), jnp.ones(2)), cond_dim=cd, flow_layers=2, invert=invert, **kw)
                    cfg.append((f"{name}(invert={invert}, cond_dim={cd}) perturbed", _perturb(d, 5), cd))
                except Exception as ex:  # noqa: BLE001
                    cfg.append((f"{name}(invert={invert}, cond_dim={cd})", ex, cd))
    return cfg


def rt_c03(tier="quick", first_only=False, count=None):
    import jax.random as jr
    from flowjax.wrappers import unwrap

    fails, n = [], 0
    for name, dist, cd in c03_configs(tier):
        if isinstance(dist, Exception):
            continue
        ud = unwrap(dist)
        for seed in (1, 2):
            key = jr.PRNGKey(seed)
            cshape = None if cd is None else (cd if isinstance(cd, tuple) else (cd,))
            cond = None if cd is None else jnp.asarray(np.random.default_rng(seed).normal(size=cshape))
            n += 1
            problems = []
            if (dist.cond_shape is None) != (cshape is None) or (cshape is not None and tuple(dist.cond_shape) != cshape):
                problems.append(f"declares cond_shape {dist.cond_shape} but its conditional children take a condition of shape {cshape}")
            if cshape is not None and seed == 1:
                # a batch of conditions: element i of the batched result is the unbatched call with condition i
                conds = jnp.asarray(np.random.default_rng(7).normal(size=(3,) + cshape))
                xq = jnp.asarray([0.3, -0.2])
                try:
                    lpb = dist.log_prob(xq, conds)
                    ref_b = jnp.stack([dist.log_prob(xq, conds[i]) for i in range(3)])
                    if jnp.shape(lpb) != (3,) or not bool(jnp.allclose(lpb, ref_b, rtol=1e-9, atol=1e-9)):
                        problems.append(f"log_prob with a batch of 3 conditions = {np.asarray(lpb).tolist()} but condition by condition {np.asarray(ref_b).tolist()}")
                    sb_ = dist.sample(key, condition=conds)
                    if jnp.shape(sb_) != (3, 2):
                        problems.append(f"sample with a batch of 3 conditions has shape {jnp.shape(sb_)}")
                except Exception as ex:  # noqa: BLE001
                    problems.append(f"a batch of conditions of shape {(3,) + cshape} is rejected: {type(ex).__name__}: {str(ex)[:120]}")
            s = dist.sample(key, condition=cond)
            base_cond = cond if ud.base_dist.cond_shape is not None else None
            bij_cond = cond if ud.bijection.cond_shape is not None else None
            zs = ud.base_dist.sample(key, condition=base_cond)  # public API: same key derivation as dist.sample
            push = ud.bijection.transform(zs, bij_cond)
            if not bool(jnp.allclose(s, push, rtol=1e-9, atol=1e-9)):
                problems.append(f"sample(key) = {np.asarray(s)} but bijection.transform(base sample for that key) = {np.asarray(push)}")
            x = np.asarray(s) + 0.1
            lp = dist.log_prob(x, cond)
            z, ild = ud.bijection.inverse_and_log_det(jnp.asarray(x), bij_cond)
            ref = ud.base_dist._log_prob(z, base_cond) + ild
            if bool(jnp.isfinite(ref)) and not _close(lp, ref, tol=1e-8):
                problems.append(f"log_prob(x) = {float(lp)!r}; base log-density at inverse(x) + inverse log-det = {float(ref)!r}")
            s2, lp2 = dist.sample_and_log_prob(key, condition=cond)
            lp_at = dist.log_prob(s2, cond)
            if not bool(jnp.allclose(s2, s, rtol=1e-9, atol=1e-9)):
                problems.append("sample_and_log_prob(key)[0] differs from sample(key)")
            if not _close(lp2, lp_at, tol=1e-6):
                problems.append(f"sample_and_log_prob(key)[1] = {float(lp2)!r} but log_prob at that sample = {float(lp_at)!r}")
            for pr in problems:
                fails.append(dict(what=f"{name}: {pr}", case=dict(config=name, seed=seed)))
                if first_only:
                    return fails
    # merge_transforms on nested Transformed with non-commuting bijections
    import flowjax.bijections as B
    import flowjax.distributions as Dm

    bl = [B.Affine(jnp.array([0.3, -1.0]), jnp.array([1.7, 0.5])), B.Tanh((2,)), B.Affine(jnp.array([0.1, 0.2]), jnp.array([0.8, 0.9])), B.Chain([B.Affine(jnp.array([1.0, 2.0])), B.Exp((2,))])]
    for depth in (2, 3, 4):
        d = Dm.StandardNormal((2,))
        for j in range(depth):
            d = Dm.Transformed(d, bl[j])
        m = d.merge_transforms()
        n += 1
        key = jr.PRNGKey(depth)
        s_n, s_m = d.sample(key), m.sample(key)
        x = np.asarray(s_n)
        if not bool(jnp.allclose(s_n, s_m, rtol=1e-9, atol=1e-9)) or not _close(d.log_prob(x), m.log_prob(x), tol=1e-8) or isinstance(unwrap(m).base_dist, Dm.AbstractTransformed):
            fails.append(dict(what=f"merge_transforms of {depth} nested Transformed changes the distribution: sample {np.asarray(s_n)} vs {np.asarray(s_m)}, log_prob {float(d.log_prob(x))!r} vs {float(m.log_prob(x))!r}", case=dict(depth=depth)))
            if first_only:
                return fails
    if count is not None:
        count.append(n)
    return fails


# --------------------------------------------------------------------------------------
# C08 / C13: declared shapes of the combinators vs what their methods accept and return (real objects)
def _ident(shape, cond_shape=None):
    import flowjax.bijections as B

    if cond_shape is None:
        return B.Affine(jnp.full(shape, 0.5), jnp.full(shape, 2.0))
    return B.AdditiveCondition(lambda c: jnp.sum(c), tuple(shape), tuple(cond_shape))


def _accepts(b, cond_shape_expected=None):
    """call all four methods with inputs of the DECLARED shapes; returns problem string or None"""
    x = jnp.arange(float(np.prod(b.shape, dtype=int))).reshape(b.shape) / 7.0 + 0.1
    cond = None if b.cond_shape is None else jnp.ones(b.cond_shape)
    try:
        y = b.transform(x, cond)
        y2, ld = b.transform_and_log_det(x, cond)
        xb = b.inverse(y, cond)
        xb2, ldi = b.inverse_and_log_det(y, cond)
    except Exception as ex:  # noqa: BLE001
        return f"the methods reject inputs of the declared shape {b.shape} / cond_shape {b.cond_shape}: {type(ex).__name__}: {str(ex)[:160]}"
    if y.shape != tuple(b.shape) or xb.shape != tuple(b.shape) or jnp.shape(ld) != () or jnp.shape(ldi) != ():
        return f"declared shape {b.shape} but transform returned {y.shape}, inverse {xb.shape}, log-dets {jnp.shape(ld)}/{jnp.shape(ldi)}"
    if not bool(jnp.allclose(xb, x, atol=1e-9)):
        return "inverse(transform(x)) != x"
    return None


def rt_shapes_case(cls, **kw):
    import flowjax.bijections as B

    try:
        if cls == "Stack":
            s, axis, k = tuple(kw["s0"]), kw["axis"], kw.get("k", 2)
            b = B.Stack([_ident(s) for _ in range(k)], axis=axis)
            want = jnp.stack([jnp.zeros(s)] * k, axis).shape
            if tuple(b.shape) != tuple(want):
                return f"Stack of {k} bijections of shape {s} along axis {axis} declares shape {tuple(b.shape)}; jnp.stack gives {tuple(want)}"
            return _accepts(b)
        if cls == "Concatenate":
            s0, s1, axis = tuple(kw["s0"]), tuple(kw["s1"]), kw["axis"]
            b = B.Concatenate([_ident(s0), _ident(s1)], axis=axis)
            want = jnp.concatenate([jnp.zeros(s0), jnp.zeros(s1)], axis).shape
            if tuple(b.shape) != tuple(want):
                return f"Concatenate of shapes {s0},{s1} along axis {axis} declares {tuple(b.shape)}; jnp.concatenate gives {tuple(want)}"
            return _accepts(b)
        if cls == "Vmap":
            s, cs, ax, size = tuple(kw["inner_shape"]), tuple(kw["inner_cond_shape"]), kw["in_axes_condition"], kw["axis_size"]
            b = B.Vmap(_ident(s, cs), axis_size=size, in_axes_condition=ax)
            r = len(cs) + 1
            a = ax % r
            want = cs[:a] + (size,) + cs[a:]
            if tuple(b.cond_shape) != tuple(want):
                return f"Vmap(axis_size={size}, in_axes_condition={ax}) of a child with cond_shape {cs} declares cond_shape {tuple(b.cond_shape)}; mapping axis {ax} of the batched condition means {want}"
            if tuple(b.shape) != (size,) + s:
                return f"Vmap declares shape {tuple(b.shape)}, expected {(size,) + s}"
            return _accepts(b)
        if cls == "Reshape":
            inner, target, icond, tcond = tuple(kw["inner"]), kw["target"], kw.get("icond"), kw.get("tcond")
            b = B.Reshape(_ident(inner, icond), None if target is None else tuple(target), None if tcond is None else tuple(tcond))
            want = inner if target is None else tuple(target)
            wantc = icond if tcond is None else tuple(tcond)
            if tuple(b.shape) != tuple(want) or (b.cond_shape is None) != (wantc is None) or (wantc is not None and tuple(b.cond_shape) != tuple(wantc)):
                return f"Reshape({inner} -> {target}, cond {icond} -> {tcond}) declares shape {b.shape} / cond_shape {b.cond_shape}; requested {want} / {wantc}"
            return _accepts(b)
    except Exception as ex:  # noqa: BLE001
        return f"constructor raised {type(ex).__name__}: {str(ex)[:200]} for a valid configuration {cls} {kw}"
    return None


def rt_shapes_grid(first_only=False, count=None, only=None):
    import itertools as _it

    fails, n = [], 0
    shapes = [(), (2,), (2, 3), (2, 3, 4)]
    cases = []
    for s in shapes:
        for axis in range(-(len(s) + 1), len(s) + 1):
            cases.append(("Stack", dict(s0=s, axis=axis)))
        for axis in range(-len(s), len(s)):
            s1 = list(s)
            s1[axis] = s1[axis] + 1
            cases.append(("Concatenate", dict(s0=s, s1=tuple(s1), axis=axis)))
        for cs in shapes[:3]:
            for ax in range(-(len(cs) + 1), len(cs) + 1):
                cases.append(("Vmap", dict(inner_shape=s[:2], inner_cond_shape=cs, in_axes_condition=ax, axis_size=5)))
    for inner, target in (((1,), ()), ((4,), (2, 2)), ((2, 3), (6,)), ((2, 3), None), ((1, 1), ())):
        for icond, tcond in ((None, None), ((1,), ()), ((4,), (2, 2)), ((3,), None)):
            cases.append(("Reshape", dict(inner=inner, target=target, icond=icond, tcond=tcond)))
    # incompatible children must be REJECTED by the constructor (oracle: numpy's own concatenate / stack on zero arrays)
    import flowjax.bijections as B
    rej_shapes = [(2,), (3,), (2, 3), (2, 4), (3, 3), (2, 1), (1, 2), (2, 3, 2), (2, 3, 4), (2,) * 0]
    for s0, s1 in _it.product(rej_shapes, rej_shapes):
        for cls_name in ("Concatenate", "Stack", "Chain"):
            if only and cls_name != only:
                continue
            axes = range(-max(len(s0), 1), max(len(s0), 1)) if cls_name == "Concatenate" else (range(-(len(s0) + 1), len(s0) + 1) if cls_name == "Stack" else [None])
            for axis in axes:
                try:
                    if cls_name == "Concatenate":
                        np.concatenate([np.zeros(s0), np.zeros(s1)], axis)
                        compatible = True
                    elif cls_name == "Stack":
                        np.stack([np.zeros(s0), np.zeros(s1)], axis)
                        compatible = True
                    else:
                        compatible = s0 == s1
                except Exception:  # noqa: BLE001
                    compatible = False
                if compatible:
                    continue
                n += 1
                try:
                    if cls_name == "Chain":
                        B.Chain([_ident(s0), _ident(s1)])
                    else:
                        getattr(B, cls_name)([_ident(s0), _ident(s1)], axis=axis)
                    fails.append(dict(what=f"{cls_name} of children with shapes {s0} and {s1}" + (f" along axis {axis}" if axis is not None else "") + " was accepted; the shapes are incompatible and the constructor documents a rejection", case=dict(cls=cls_name, s0=list(s0), s1=list(s1), axis=axis)))
                    if first_only:
                        return fails
                except Exception:  # noqa: BLE001
                    pass
    # Vmap built from in_axes (axis size inferred from the mapped parameters): declared shape and acceptance
    if not only or only == "Vmap":
        import equinox as eqx
        for size, inner in ((5, (2,)), (1, (3,)), (4, ())):
            n += 1
            try:
                locs = jnp.arange(float(size * max(1, int(np.prod(inner, dtype=int))))).reshape((size,) + inner) / 7.0
                stacked = eqx.filter_vmap(lambda l: B.Affine(l, jnp.ones(inner) * 1.5))(locs)
                b = B.Vmap(stacked, in_axes=eqx.if_array(0))
                r = (f"declares shape {tuple(b.shape)}, expected {(size,) + inner}" if tuple(b.shape) != (size,) + inner else _accepts(b))
            except Exception as ex:  # noqa: BLE001
                r = f"raised {type(ex).__name__}: {str(ex)[:150]}"
            if r:
                fails.append(dict(what=f"Vmap(in_axes=if_array(0)) over {size} stacked Affine{inner}: {r}", case=dict(cls="Vmap", size=size, inner=list(inner))))
                if first_only:
                    return fails
    # three and four children (split points must be cumulative), every axis
    if not only or only in ("Concatenate", "Stack"):
        for s in ((3,), (2, 3), (2, 3, 2)):
            for axis in range(-len(s), len(s)):
                for k in (3, 4):
                    if only in (None, "Concatenate"):
                        n += 1
                        kid_shapes = []
                        for j in range(k):
                            sj = list(s)
                            sj[axis] = s[axis] + j  # unequal sizes along the axis
                            kid_shapes.append(tuple(sj))
                        try:
                            b = B.Concatenate([_ident(t) for t in kid_shapes], axis=axis)
                            want = jnp.concatenate([jnp.zeros(t) for t in kid_shapes], axis).shape
                            r = (f"declares shape {tuple(b.shape)}, jnp.concatenate gives {tuple(want)}" if tuple(b.shape) != tuple(want) else _accepts(b))
                        except Exception as ex:  # noqa: BLE001
                            r = f"constructor raised {type(ex).__name__}: {str(ex)[:120]}"
                        if r:
                            fails.append(dict(what=f"Concatenate of {k} children {kid_shapes} along axis {axis}: {r}", case=dict(cls="Concatenate", shapes=[list(t) for t in kid_shapes], axis=axis)))
                            if first_only:
                                return fails
            for axis in range(-(len(s) + 1), len(s) + 1):
                if only in (None, "Stack"):
                    n += 1
                    try:
                        b = B.Stack([_ident(s) for _ in range(3)], axis=axis)
                        want = jnp.stack([jnp.zeros(s)] * 3, axis).shape
                        r = (f"declares shape {tuple(b.shape)}, jnp.stack gives {tuple(want)}" if tuple(b.shape) != tuple(want) else _accepts(b))
                    except Exception as ex:  # noqa: BLE001
                        r = f"constructor raised {type(ex).__name__}: {str(ex)[:120]}"
                    if r:
                        fails.append(dict(what=f"Stack of 3 children of shape {s} along axis {axis}: {r}", case=dict(cls="Stack", shape=list(s), axis=axis)))
                        if first_only:
                            return fails
    # Reshape must reject a change of the element count, also for rank-0 targets
    if not only or only == "Reshape":
        for inner, target in (((4,), ()), ((2,), ()), ((4,), (3,)), ((2, 3), (5,)), ((2, 3), (2, 2)), ((), (2,))):
            n += 1
            try:
                B.Reshape(_ident(inner), tuple(target))
                fails.append(dict(what=f"Reshape of a bijection of shape {inner} to {target} (different element count) was accepted", case=dict(cls="Reshape", inner=list(inner), target=list(target))))
            except Exception:  # noqa: BLE001
                pass
        for icond, tcond in (((3,), ()), ((4,), (3,)), ((2, 2), (5,))):
            n += 1
            try:
                B.Reshape(_ident((2,), icond), (2,), tuple(tcond))
                fails.append(dict(what=f"Reshape of a condition of shape {icond} to {tcond} (different element count) was accepted", case=dict(cls="Reshape", icond=list(icond), tcond=list(tcond))))
            except Exception:  # noqa: BLE001
                pass
        if first_only and fails:
            return fails
    # Partial: an index set that does not fit the shape (out of range in either direction, repeated positions) must be rejected --
    # jax indexing clamps / merges such indices silently, the accepted object then reports a log-determinant for entries it never changes
    if not only or only == "Partial":
        bad_idx = [("integer 5 for shape (3,)", 5, (), (3,)), ("integer -4 for shape (3,)", -4, (), (3,)), ("int array [1, 7] for shape (3,)", jnp.array([1, 7]), (2,), (3,)),
                   ("int array [1, 1] (repeated) for shape (3,)", jnp.array([1, 1]), (2,), (3,)), ("int array [0, -3] (same element twice) for shape (3,)", jnp.array([0, -3]), (2,), (3,)),
                   ("tuple (0, 4) for shape (2, 3)", (0, 4), (), (2, 3)), ("bool mask of length 4 for shape (3,)", jnp.array([True, False, True, True]), (3,), (3,))]
        for label, idx, sub, shp in bad_idx:
            n += 1
            try:
                pb = B.Partial(B.Exp(sub), idx, shp)
            except Exception:  # noqa: BLE001
                continue
            xx = jnp.asarray(np.random.default_rng(2).normal(size=shp))
            try:
                yy, ld = pb.transform_and_log_det(xx)
                J = np.asarray(jax.jacobian(lambda v: pb.transform(v).ravel())(xx)).reshape(xx.size, xx.size)
                true_ld = float(np.linalg.slogdet(J)[1])
                detail = f"; the accepted object reports log-det {float(ld):.6g} where autodiff gives {true_ld:.6g}"
            except Exception as ex:  # noqa: BLE001
                detail = f"; calling it then raises {type(ex).__name__}"
            fails.append(dict(what=f"Partial with an index that does not fit ({label}) was accepted{detail}", case=dict(cls="Partial", idx=label)))
        good_idx = [("integer -3 for shape (3,)", -3, (), (3,)), ("int array [2, 0]", jnp.array([2, 0]), (2,), (3,)), ("tuple (1, slice)", (1, slice(0, 2)), (2,), (2, 3)), ("0-d int array", jnp.array(2), (), (3,)),
                    ("bool mask", jnp.array([True, False, True]), (2,), (3,)), ("empty slice", slice(0, 0), (0,), (3,))]
        for label, idx, sub, shp in good_idx:
            n += 1
            try:
                B.Partial(B.Exp(sub), idx, shp)
            except Exception as ex:  # noqa: BLE001
                fails.append(dict(what=f"Partial with a fitting index ({label}) was rejected: {type(ex).__name__}: {str(ex)[:100]}", case=dict(cls="Partial", idx=label)))
        if first_only and fails:
            return fails
    # Chain: three children (the LAST one incompatible), and declared cond_shape with conditional children in any position
    if not only or only == "Chain":
        for s0, s2 in (((2,), (3,)), ((2, 3), (2, 4)), ((2,), (2, 1)), ((), (1,))):
            n += 1
            try:
                B.Chain([_ident(s0), _ident(s0), _ident(s2)])
                fails.append(dict(what=f"Chain of children with shapes {s0}, {s0}, {s2} was accepted", case=dict(cls="Chain", shapes=[list(s0), list(s0), list(s2)])))
            except Exception:  # noqa: BLE001
                pass
        for pattern in ((None, (3,)), ((3,), None), (None, (3,), None), ((), None), (None, ()), ((2, 2), (2, 2))):
            n += 1
            kids = [_ident((2,), cs_) for cs_ in pattern]
            try:
                ch = B.Chain(kids)
            except Exception as ex:  # noqa: BLE001
                fails.append(dict(what=f"Chain of children with cond_shapes {pattern} raised {type(ex).__name__}", case=dict(cls="Chain", cond_shapes=str(pattern))))
                continue
            want = next(c_ for c_ in pattern if c_ is not None)
            if ch.cond_shape is None or tuple(ch.cond_shape) != tuple(want):
                fails.append(dict(what=f"Chain of children with cond_shapes {pattern} declares cond_shape {ch.cond_shape}, expected {want}", case=dict(cls="Chain", cond_shapes=str(pattern))))
            else:
                r = _accepts(ch)
                if r:
                    fails.append(dict(what=f"Chain with cond_shapes {pattern}: {r}", case=dict(cls="Chain", cond_shapes=str(pattern))))
        for mism in (((3,), (2,)), ((), (1,))):
            n += 1
            try:
                B.Chain([_ident((2,), mism[0]), _ident((2,), mism[1])])
                fails.append(dict(what=f"Chain of children with different cond_shapes {mism} was accepted", case=dict(cls="Chain", cond_shapes=str(mism))))
            except Exception:  # noqa: BLE001
                pass
        if first_only and fails:
            return fails
    for cls, kw in cases:
        if only and cls != only:
            continue
        n += 1
        r = rt_shapes_case(cls, **kw)
        if r is not None:
            fails.append(dict(what=r, case=dict(cls=cls, **{k: (list(v) if isinstance(v, tuple) else v) for k, v in kw.items()})))
            if first_only:
                return fails
    if count is not None:
        count.append(n)
    return fails


# --------------------------------------------------------------------------------------
# C13: wrong shapes are rejected by every method of real bijections
def rt_argcheck_grid(first_only=False, count=None):
    import flowjax.bijections as B

    objs = [("Affine(3)", B.Affine(jnp.zeros(3))), ("Exp(())", B.Exp()), ("Tanh((2,3))", B.Tanh((2, 3))),
            ("AdditiveCondition(shape (), cond ())", B.AdditiveCondition(lambda c: c, (), ())),
            ("AdditiveCondition(shape (2,), cond (3,))", B.AdditiveCondition(lambda c: c.sum(), (2,), (3,))),
            ("Chain[Affine(2), AdditiveCondition(cond ())]", B.Chain([B.Affine(jnp.zeros(2)), B.AdditiveCondition(lambda c: c, (2,), ())])),
            ("Invert(AdditiveCondition(cond ()))", B.Invert(B.AdditiveCondition(lambda c: c, (), ()))),
            ("Vmap(AdditiveCondition(cond (2,)), in_axes_condition=0)", B.Vmap(B.AdditiveCondition(lambda c: c.sum(), (), (2,)), axis_size=3, in_axes_condition=0)),
            ("Reshape(Affine(4) -> (2,2))", B.Reshape(B.Affine(jnp.zeros(4)), (2, 2)))]
    fails, n = [], 0

    def wrongs(shape):
        out = [(1,) + tuple(shape), tuple(shape) + (1,)]
        if len(shape) >= 1:
            out += [tuple(shape[1:]), tuple(shape[:-1]) + (shape[-1] + 1,), ()] if shape != () else []
        if len(shape) == 2 and shape[0] != shape[1]:
            out.append((shape[1], shape[0]))
        return [w for w in dict.fromkeys(out) if w != tuple(shape)]

    for name, b in objs:
        good_c = None if b.cond_shape is None else jnp.ones(b.cond_shape)
        good_x = jnp.full(b.shape, 0.3)
        for meth in ("transform", "inverse", "transform_and_log_det", "inverse_and_log_det"):
            f = getattr(b, meth)
            n += 1
            try:
                out = f(good_x, good_c)
                pt = out[0] if isinstance(out, tuple) else out
                if pt.shape != tuple(b.shape) or (isinstance(out, tuple) and jnp.shape(out[1]) != ()):
                    fails.append(dict(what=f"{name}.{meth}: returned shape {pt.shape} for declared {b.shape}", case=dict(obj=name, method=meth)))
            except Exception as ex:  # noqa: BLE001
                fails.append(dict(what=f"{name}.{meth} rejects inputs of its declared shapes: {type(ex).__name__}: {str(ex)[:120]}", case=dict(obj=name, method=meth)))
            cases = [(jnp.full(w, 0.3), good_c, f"x.shape={w}") for w in wrongs(tuple(b.shape))]
            if b.cond_shape is not None:
                cases += [(good_x, jnp.ones(w), f"condition.shape={w}") for w in wrongs(tuple(b.cond_shape))] + [(good_x, None, "condition missing")]
            for xx, cc, label in cases:
                n += 1
                try:
                    f(xx, cc)
                    fails.append(dict(what=f"{name}.{meth} accepted {label} (declared shape {b.shape}, cond_shape {b.cond_shape}) instead of raising", case=dict(obj=name, method=meth, bad=label)))
                except Exception:  # noqa: BLE001
                    pass
            if first_only and fails:
                return fails
    if count is not None:
        count.append(n)
    return fails


# --------------------------------------------------------------------------------------
# C15: rows are tagged with their index; the exact rows seen by every loss call are recorded
def rt_split(n, val_prop, seed=0):
    from flowjax.train.train_utils import train_val_split

    x = jnp.arange(n, dtype=float)[:, None] * jnp.ones((1, 2))
    c = jnp.arange(n, dtype=float)[:, None] + 0.0
    (tx, tc), (vx, vc) = train_val_split(jax.random.PRNGKey(seed), [x, c], val_prop=val_prop)
    tr, va = [int(v) for v in tx[:, 0]], [int(v) for v in vx[:, 0]]
    probs = []
    if sorted(tr + va) != list(range(n)):
        dup = sorted(set(tr) & set(va))
        lost = sorted(set(range(n)) - set(tr) - set(va))
        probs.append(f"train ({len(tr)} rows) and validation ({len(va)} rows) do not partition the {n} rows: in both {dup}, in neither {lost}")
    if len(va) != round(val_prop * n):
        probs.append(f"{len(va)} validation rows for val_prop={val_prop}, n={n} (expected round(val_prop*n) = {round(val_prop * n)})")
    if [int(v) for v in tc[:, 0]] != tr or [int(v) for v in vc[:, 0]] != va:
        probs.append("x rows and condition rows are permuted differently")
    return [f"train_val_split(n={n}, val_prop={val_prop}): {p}" for p in probs]


def rt_batches(n, bs):
    from flowjax.train.train_utils import get_batches

    x = jnp.arange(n, dtype=float)[:, None] * jnp.ones((1, 2))
    c = jnp.arange(n, dtype=float)
    bx, bc = get_batches([x, c], bs)
    rows = [int(v) for v in np.asarray(bx)[:, :, 0].ravel()]
    ebs = min(bs, n)
    probs = []
    if rows != list(range((n // ebs) * ebs)):
        probs.append(f"batches use rows {rows}; expected the leading {(n // ebs) * ebs} rows in order (only a trailing remainder < batch size skipped)")
    if [int(v) for v in np.asarray(bc).ravel()] != rows:
        probs.append("x and condition batches are not aligned")
    if bx.shape[:2] != (n // ebs, ebs):
        probs.append(f"batch array shape {bx.shape}")
    return [f"get_batches(n={n}, batch_size={bs}): {p}" for p in probs]


def rt_fit_rows(n, bs, val_prop, with_cond, epochs, seed=0):
    import flowjax.train.data_fit as df

    log, state = [], dict(in_step=False)

    def record(xr, cr, key, in_step):
        log.append(([int(v) for v in np.asarray(xr).ravel()], None if cr is None else [int(v) for v in np.asarray(cr).ravel()], tuple(int(v) for v in np.asarray(key).ravel()), bool(in_step)))

    def loss_fn(params, static, x, condition=None, key=None):
        flag = jnp.asarray(state["in_step"])
        kd = jax.random.key_data(key) if hasattr(jax.random, "key_data") and jnp.issubdtype(key.dtype, jax.dtypes.prng_key) else key
        if condition is None:
            jax.debug.callback(lambda a, k, f: record(a, None, k, f), x[:, 0], kd, flag, ordered=True)
        else:
            jax.debug.callback(lambda a, b, k, f: record(a, b, k, f), x[:, 0], condition[:, 0], kd, flag, ordered=True)
        return 0.0 * params["v"] + jnp.sum(x) * 0.0

    orig = df.step

    def step_wrapper(*a, **k):
        state["in_step"] = True
        try:
            out = orig(*a, **k)
            jax.block_until_ready(out)
            return out
        finally:
            state["in_step"] = False

    x = jnp.arange(n, dtype=float)[:, None] * jnp.ones((1, 2))
    cond = jnp.arange(n, dtype=float)[:, None] if with_cond else None
    df.step = step_wrapper
    try:
        with jax.disable_jit():
            df.fit_to_data(jax.random.PRNGKey(seed), {"v": jnp.zeros(())}, x, condition=cond, loss_fn=loss_fn, max_epochs=epochs, max_patience=epochs + 1, batch_size=bs,
                           val_prop=val_prop, optimizer=counting_optimizer(), show_progress=False)
    finally:
        df.step = orig
    probs = []
    n_val = round(val_prop * n)
    n_tr = n - n_val
    train_seen, val_seen, keys = set(), set(), []
    for rows, crow, key, in_step in log:
        keys.append(key)
        if crow is not None and crow != rows:
            probs.append(f"a loss call paired x rows {rows} with condition rows {crow}")
        (train_seen if in_step else val_seen).update(rows)
    if train_seen & val_seen:
        probs.append(f"rows {sorted(train_seen & val_seen)} were used both in gradient steps and for validation")
    if len(set(keys)) != len(keys):
        probs.append("two loss calls received the same PRNG key")
    ebs_t, ebs_v = min(bs, n_tr), min(bs, n_val)
    per_epoch_t, per_epoch_v = (n_tr // ebs_t), (n_val // ebs_v)
    calls_t = [r for r, _c, _k, s in log if s]
    if len(calls_t) != per_epoch_t * epochs:
        probs.append(f"{len(calls_t)} gradient steps; expected {per_epoch_t} per epoch x {epochs}")
    for e in range(epochs):
        rows_e = [v for r in calls_t[e * per_epoch_t:(e + 1) * per_epoch_t] for v in r]
        if len(set(rows_e)) != len(rows_e):
            probs.append(f"epoch {e}: a training row was used more than once {rows_e}")
        if n_tr - len(rows_e) >= ebs_t or len(rows_e) > n_tr:
            probs.append(f"epoch {e}: used {len(rows_e)} of {n_tr} training rows with batch size {ebs_t}")
    if len(train_seen | val_seen) > n or (train_seen | val_seen) - set(range(n)):
        probs.append("rows outside the dataset")
    if len(train_seen) > n_tr or len(val_seen) > n_val:
        probs.append(f"{len(train_seen)} distinct rows took part in gradient steps but the training part has {n_tr} rows (validation part {n_val}, seen {len(val_seen)})")
    return [f"fit_to_data(n={n}, batch_size={bs}, val_prop={val_prop}, condition={with_cond}, epochs={epochs}): {p}" for p in probs], log


def rt_c15_grid(tier="quick", first_only=False, count=None):
    fails, n_ev = [], 0
    ns = range(2, 61) if tier == "thorough" else list(range(2, 26)) + [31, 40, 47, 60]
    props = [0.05, 0.1, 0.2, 0.25, 0.3, 0.5, 0.7, 0.9] if tier == "thorough" else [0.1, 0.25, 0.3, 0.5, 0.9]
    for n in ns:
        for p in props:
            if round(p * n) in (0, n):
                continue
            n_ev += 1
            for f in rt_split(n, p):
                fails.append(dict(what=f, case=dict(n=n, val_prop=p)))
        for bs in sorted({1, 2, 3, n - 1, n, n + 5}):
            if bs >= 1:
                n_ev += 1
                for f in rt_batches(n, bs):
                    fails.append(dict(what=f, case=dict(n=n, batch_size=bs)))
        if first_only and fails:
            return fails
    fit_cases = [(5, 2, 0.4, True, 2), (9, 3, 0.3, False, 2), (15, 4, 0.1, True, 1), (12, 20, 0.5, True, 2), (7, 1, 0.3, True, 1), (25, 6, 0.1, True, 2)]
    if tier == "thorough":
        fit_cases += [(n, bs, p, c, 2) for n in (6, 10, 17, 30) for bs in (1, 3, 7) for p in (0.2, 0.5) for c in (True, False)]
    for n, bs, p, c, ep in fit_cases:
        n_ev += 1
        f1, log1 = rt_fit_rows(n, bs, p, c, ep)
        _f2, log2 = rt_fit_rows(n, bs, p, c, ep)
        if log1 != log2:
            f1.append(f"fit_to_data(n={n}, ...): the same key did not reproduce the same run")
        for f in f1:
            fails.append(dict(what=f, case=dict(n=n, batch_size=bs, val_prop=p, condition=c, epochs=ep)))
        if first_only and fails:
            return fails
    if count is not None:
        count.append(n_ev)
    return fails


# --------------------------------------------------------------------------------------
# C17 losses against NumPy re-evaluation through the public distribution API
def rt_c17(tier="quick", first_only=False, count=None):
    import equinox as eqx
    import flowjax.distributions as Dm
    import flowjax.flows as Fl
    import flowjax.train.losses as L
    import jax.random as jr
    from scipy.special import logsumexp as np_lse

    fails, n = [], 0

    def part(d):
        return eqx.partition(d, eqx.is_inexact_array)

    def add(msg, case):
        fails.append(dict(what=msg, case=case))

    k = jr.PRNGKey(3)
    dists = [("Normal([.3,-1],[1.7,.5])", Dm.Normal(jnp.array([0.3, -1.0]), jnp.array([1.7, 0.5])), None),
             ("coupling_flow(cond_dim=2) perturbed", _perturb(Fl.coupling_flow(k, base_dist=Dm.Normal(jnp.zeros(2), jnp.ones(2)), cond_dim=2, flow_layers=2), 4), 2)]
    # ---- maximum likelihood
    for name, d, cd in dists:
        for B in (1, 4):
            n += 1
            rng = np.random.default_rng(B)
            x = jnp.asarray(rng.normal(size=(B, 2)))
            c = None if cd is None else jnp.asarray(rng.normal(size=(B, cd)))
            p, s = part(d)
            got = float(L.MaximumLikelihoodLoss()(p, s, x, c))
            ref = -float(np.mean(np.asarray(d.log_prob(x, c))))
            if not _close(got, ref, tol=1e-9):
                add(f"MaximumLikelihoodLoss on {name}, batch {B}: {got!r} but -mean(log_prob) = {ref!r}", dict(loss="mle", dist=name, batch=B))
    # ---- ELBO
    q = Dm.Normal(jnp.array([0.4, -0.2]), jnp.array([0.8, 1.3]))
    target = lambda x: -0.5 * jnp.sum((x - 1.0) ** 2)  # noqa: E731
    p, s = part(q)
    for ns in (1, 5, 50):
        n += 1
        key = jr.PRNGKey(ns)
        v0 = float(L.ElboLoss(target, ns)(p, s, key))
        v1 = float(L.ElboLoss(target, ns, stick_the_landing=True)(p, s, key))
        smp = q.sample(key, (ns,))
        ref = float(np.mean(np.asarray(q.log_prob(smp)) - np.asarray(jax.vmap(target)(smp))))
        if not _close(v0, ref, tol=1e-8):
            add(f"ElboLoss(num_samples={ns}) = {v0!r}; mean over samples drawn with the key of log q - target = {ref!r}", dict(loss="elbo", n=ns))
        if not _close(v0, v1, tol=1e-8):
            add(f"ElboLoss(num_samples={ns}): value {v0!r} without and {v1!r} with stick_the_landing", dict(loss="elbo", n=ns))
    # multi-layer flows in both orientations (the and-log-det paths of the layer stack): same ELBO with and without STL
    for fname, fl in (("masked_autoregressive_flow(layers=3, invert=False)", _perturb(Fl.masked_autoregressive_flow(k, base_dist=Dm.Normal(jnp.zeros(2), jnp.ones(2)), flow_layers=3, nn_width=6, invert=False), 8, 0.5)),
                      ("coupling_flow(layers=3, invert=True)", _perturb(Fl.coupling_flow(k, base_dist=Dm.Normal(jnp.zeros(2), jnp.ones(2)), flow_layers=3, nn_width=6, invert=True), 9, 0.5))):
        pf, sf = part(fl)
        for ns in (3, 16):
            n += 1
            key = jr.PRNGKey(100 + ns)
            v0 = float(L.ElboLoss(target, ns)(pf, sf, key))
            v1 = float(L.ElboLoss(target, ns, stick_the_landing=True)(pf, sf, key))
            smp = fl.sample(key, (ns,))
            ref = float(np.mean(np.asarray(fl.log_prob(smp)) - np.asarray(jax.vmap(target)(smp))))
            if not _close(v0, v1, tol=1e-7):
                add(f"ElboLoss on {fname}, num_samples={ns}: value {v0!r} without and {v1!r} with stick_the_landing", dict(loss="elbo", dist=fname, n=ns))
            if not _close(v1, ref, tol=1e-7):
                add(f"ElboLoss(stl) on {fname}, num_samples={ns} = {v1!r}; mean over samples drawn with the key of log q - target = {ref!r}", dict(loss="elbo", dist=fname, n=ns))
    # STL gradient omits the score-function term: analytic for a diagonal Normal
    n += 1
    key = jr.PRNGKey(11)
    ns = 7
    g = jax.grad(lambda pp: L.ElboLoss(target, ns, stick_the_landing=True)(pp, s, key))(p)
    loc, scale = np.asarray(q.loc), np.asarray(q.scale)
    xs = np.asarray(q.sample(key, (ns,)))
    eps = (xs - loc) / scale
    # d/dloc [ log q_{stopped}(x(loc)) - target(x(loc)) ] = -(x-loc)/scale^2 + (x - 1)
    ref_loc = np.mean(-eps / scale + (xs - 1.0), axis=0)
    got_loc = np.asarray(g.bijection.loc)
    if not np.allclose(got_loc, ref_loc, rtol=1e-7, atol=1e-9):
        add(f"stick-the-landing gradient w.r.t. loc is {got_loc}; the path-derivative-only estimator gives {ref_loc} (score-function term must be omitted)", dict(loss="elbo-stl-grad"))
    # ---- contrastive
    name, d, cd = dists[1]
    prior = Dm.Normal(jnp.array([0.1, 0.3]), jnp.array([1.5, 0.7]))
    for B, nc in ((3, 1), (5, 2), (5, 4), (8, 3)):
        for seed in (0, 1, 2):
            n += 1
            rng = np.random.default_rng(B * 10 + nc)
            # seed 2: widely spread data (a badly fitting model): logits differ by hundreds of nats, the loss must stay the
            # finite log-sum-exp value (a softmax that underflows would give inf)
            spread = 60.0 if seed == 2 else 1.0
            x = jnp.asarray(rng.normal(size=(B, 2)) * spread)
            c = jnp.asarray(rng.normal(size=(B, cd)))
            key = jr.PRNGKey(seed)
            p_, s_ = part(d)
            got = float(L.ContrastiveLoss(prior, nc)(p_, s_, x, c, key))
            idxs = np.asarray(L._get_contrastive_idxs(key, B, nc))
            case = dict(loss="contrastive", batch=B, n_contrastive=nc, seed=seed)
            for i in range(B):
                row = list(idxs[i])
                if len(row) != nc or len(set(row)) != nc or i in row or min(row) < 0 or max(row) >= B:
                    add(f"contrastive indices of row {i} (batch {B}, n_contrastive {nc}): {row} are not {nc} distinct other rows", case)
            lq = lambda xx, cc: np.asarray(d.log_prob(xx, cc)) - np.asarray(prior.log_prob(xx))  # noqa: E731
            rows = []
            for i in range(B):
                pos = float(lq(x[i], c[i]))
                con = [float(lq(x[j], c[i])) for j in idxs[i]]
                rows.append(-(pos - float(np_lse(con + [pos]))))
            ref = float(np.mean(rows))
            if not (np.isfinite(got) and _close(got, ref, tol=1e-8)):
                add(f"ContrastiveLoss(batch {B}, n_contrastive {nc}, data scale {spread:g}) = {got!r}; softmax cross-entropy over the same index sets = {ref!r}", case)
            if got < -1e-12:
                add(f"ContrastiveLoss is negative: {got!r}", case)
        if first_only and fails:
            return fails
    if count is not None:
        count.append(n)
    return fails


# --------------------------------------------------------------------------------------
# C05: named families against scipy.stats (float64)
def rt_c05(tier="quick", first_only=False, count=None):
    import equinox as eqx
    import scipy.stats as st
    import flowjax.distributions as Dm

    fails, n = [], 0
    loc = np.array([[0.3, -1.2, 2.0]])
    scale = np.array([[1.7], [0.4]])  # broadcasts to (2, 3)
    df = np.array([2.5, 7.0, 30.0])
    bloc, bscale = np.broadcast_arrays(loc, scale)
    pts_real = [np.zeros((2, 3)), bloc + 0.7 * bscale, bloc - 3.1 * bscale, np.full((2, 3), 1e3), np.full((2, 3), -47.5)]
    fams = [
        ("Normal", lambda: Dm.Normal(loc, scale), lambda x: st.norm(loc, scale).logpdf(x), pts_real, dict(loc=bloc, scale=bscale)),
        ("Cauchy", lambda: Dm.Cauchy(loc, scale), lambda x: st.cauchy(loc, scale).logpdf(x), pts_real, dict(loc=bloc, scale=bscale)),
        ("Laplace", lambda: Dm.Laplace(loc, scale), lambda x: -np.abs((x - loc) / scale) - np.log(2 * scale), pts_real, dict(loc=bloc, scale=bscale)),
        ("Logistic", lambda: Dm.Logistic(loc, scale), lambda x: st.logistic(loc, scale).logpdf(x), pts_real[:3], dict(loc=bloc, scale=bscale)),
        ("Gumbel", lambda: Dm.Gumbel(loc, scale), lambda x: st.gumbel_r(loc, scale).logpdf(x), pts_real[:3], dict(loc=bloc, scale=bscale)),
        ("StudentT", lambda: Dm.StudentT(df, loc, scale), lambda x: st.t(df, loc, scale).logpdf(x), pts_real, dict(loc=bloc, scale=bscale, df=np.broadcast_to(df, (2, 3)))),
        ("LogNormal", lambda: Dm.LogNormal(loc, scale), lambda x: st.lognorm(s=bscale, scale=np.exp(bloc)).logpdf(x), [np.full((2, 3), 0.5), np.exp(bloc), np.full((2, 3), 40.0), np.full((2, 3), -1.0), np.zeros((2, 3))], {}),
        ("Uniform", lambda: Dm.Uniform(loc, loc + scale), lambda x: st.uniform(bloc, bscale).logpdf(x), [bloc + 0.5 * bscale, bloc + 1e-9, bloc - 0.25, bloc + bscale + 3.0, np.full((2, 3), 10.0)], dict(minval=bloc, maxval=bloc + bscale)),
        ("Exponential", lambda: Dm.Exponential(np.array([0.5, 2.0, 10.0])), lambda x: st.expon(scale=1 / np.array([0.5, 2.0, 10.0])).logpdf(x), [np.array([0.3, 0.3, 0.3]), np.array([5.0, 1e-6, 2.0]), np.array([-1.0, 1.0, 1.0]), np.array([-0.5, -2.0, -1e-3])], dict(rate=np.array([0.5, 2.0, 10.0]))),
    ]
    for name, mk, ref, pts, acc in fams:
        d = mk()
        for k_, want in acc.items():
            n += 1
            got = np.asarray(getattr(d, k_))
            if got.shape != np.shape(want) or not np.allclose(got, want, rtol=1e-9, atol=1e-12):
                fails.append(dict(what=f"{name}.{k_} accessor returns {got.tolist()} for constructor value {np.asarray(want).tolist()}", case=dict(family=name, accessor=k_)))
        for x in pts:
            n += 1
            got = np.asarray(d.log_prob(x))
            want_el = ref(x)
            want = np.sum(want_el, axis=tuple(range(want_el.ndim - len(d.shape), want_el.ndim))) if len(d.shape) else want_el
            bad = None
            if np.any(np.isnan(got)):
                bad = "returns NaN"
            else:
                for g, w in zip(np.ravel(got), np.ravel(want)):
                    if np.isneginf(w):
                        if not np.isneginf(g):
                            bad = f"outside the support the log-density must be -inf, got {g!r}"
                    elif not _close(g, w, tol=1e-9):
                        bad = f"log_prob = {g!r}, scipy.stats gives {w!r} (summed over the event shape {d.shape})"
            if bad:
                fails.append(dict(what=f"{name}(params broadcast to {d.shape}).log_prob at x[0]={np.ravel(x)[:3].tolist()}: {bad}", case=dict(family=name)))
                if first_only:
                    return fails
    # deep tails (|z| up to 1000 through a small scale): the textbook log-density is finite there for every full-support family and must
    # not overflow to -inf / NaN (seed U6: exp(-z) in a hand-written logistic log-density). Reference: closed forms in stable float64
    # arithmetic (scipy.stats underflows for some families in the tail, so it is not used here).
    t_loc, t_scale = 5.0, 1e-3
    tail_ref = {
        "Normal": lambda z: -0.5 * z * z - 0.5 * np.log(2 * np.pi),
        "Cauchy": lambda z: -np.log(np.pi) - np.log1p(z * z),
        "Laplace": lambda z: -abs(z) - np.log(2.0),
        "Logistic": lambda z: -abs(z) - 2.0 * np.log1p(np.exp(-abs(z))),
        "Gumbel": lambda z: -(z + np.exp(-z)) if z > -700 else -np.inf,
    }
    for name, ref_ in tail_ref.items():
        ctor = getattr(Dm, name, None)
        if ctor is None:
            continue
        for xx in (4.0, 6.0, 4.2, 5.75, 5.0 - 0.0895, 5.0 + 0.0895):
            n += 1
            z = (xx - t_loc) / t_scale
            want = ref_(z) - np.log(t_scale)
            got = float(ctor(t_loc, t_scale).log_prob(xx))
            okv = (np.isneginf(want) and np.isneginf(got)) or (np.isfinite(want) and np.isfinite(got) and abs(got - want) <= 1e-9 * max(1.0, abs(want)))
            if not okv:
                fails.append(dict(what=f"{name}({t_loc}, {t_scale}).log_prob({xx}) = {got!r}; the textbook log-density there (z = {z:.6g}) is {want!r}", case=dict(family=name, point="deep tail")))
                if first_only:
                    return fails
    # multivariate normal + mixture
    n += 1
    cov = np.array([[2.0, 0.3, 0.0], [0.3, 1.0, -0.2], [0.0, -0.2, 0.5]])
    mu = np.array([0.1, -0.5, 2.0])
    mvn = Dm.MultivariateNormal(mu, cov)
    x = np.array([0.4, 0.2, 1.0])
    if not _close(mvn.log_prob(x), st.multivariate_normal(mu, cov).logpdf(x), tol=1e-9) or not np.allclose(np.asarray(mvn.covariance), cov, atol=1e-9) or not np.allclose(np.asarray(mvn.loc), mu):
        fails.append(dict(what=f"MultivariateNormal: log_prob {float(mvn.log_prob(x))!r} vs scipy {st.multivariate_normal(mu, cov).logpdf(x)!r} or accessors wrong", case=dict(family="MultivariateNormal")))
    for w in (np.array([1.0, 3.0]), np.array([10.0, 30.0])):
        n += 1
        comp = eqx.filter_vmap(Dm.Normal)(jnp.array([-1.0, 2.0]), jnp.array([0.5, 1.5]))
        mix = Dm.VmapMixture(comp, w)
        for xx in (0.3, -4.0, 7.0):
            want = np.log(0.25 * st.norm(-1, 0.5).pdf(xx) + 0.75 * st.norm(2, 1.5).pdf(xx))
            if not _close(mix.log_prob(xx), want, tol=1e-9):
                fails.append(dict(what=f"VmapMixture(weights {w.tolist()}).log_prob({xx}) = {float(mix.log_prob(xx))!r}; weight-normalised sum of component densities gives {want!r}", case=dict(family="VmapMixture")))
    # a TRAINED mixture (every trainable leaf moved): still the weight-normalised sum of its component densities
    from flowjax.wrappers import unwrap as _unwrap
    for seed in (1, 2):
        n += 1
        mix = _perturb(Dm.VmapMixture(eqx.filter_vmap(Dm.Normal)(jnp.array([-1.0, 2.0, 0.5]), jnp.array([0.5, 1.5, 1.0])), jnp.array([1.0, 3.0, 2.0])), seed, scale=0.7)
        um = _unwrap(mix)
        locs, scales = np.asarray(um.dist.loc), np.asarray(um.dist.scale)
        lw = np.asarray(um.log_normalized_weights, float)
        wn = np.exp(lw - np.max(lw))
        wn = wn / wn.sum()
        for xx in (0.3, -2.0, 4.0):
            want = np.log(sum(wn[i] * st.norm(locs[i], scales[i]).pdf(xx) for i in range(3)))
            if not _close(mix.log_prob(xx), want, tol=1e-9):
                fails.append(dict(what=f"VmapMixture after an update of every trainable leaf: log_prob({xx}) = {float(mix.log_prob(xx))!r}; weight-normalised sum of its component densities gives {want!r} (weights sum to {float(np.exp(lw).sum())!r})", case=dict(family="VmapMixture(trained)", seed=seed)))
                if first_only:
                    return fails
    # the mixture SAMPLER draws from the mixture law: Kolmogorov-Smirnov distance of 20000 fixed-seed draws to the mixture CDF, and
    # the fraction of draws per component region (a key shared by the component choice and the draw correlates the two)
    import jax.random as _jr
    for fam, mk, cdf in (("Normal", lambda l, s_: Dm.Normal(l, s_), lambda l, s_: st.norm(l, s_).cdf), ("Laplace", lambda l, s_: Dm.Laplace(l, s_), lambda l, s_: st.laplace(l, s_).cdf),
                         ("Gumbel", lambda l, s_: Dm.Gumbel(l, s_), lambda l, s_: st.gumbel_r(l, s_).cdf)):
        n += 1
        locs_, scs_, w_ = np.array([-1.0, 1.0, 2.0]), np.array([0.4, 0.6, 0.5]), np.array([1.0, 2.0, 1.0])
        mixs = Dm.VmapMixture(eqx.filter_vmap(mk)(jnp.asarray(locs_), jnp.asarray(scs_)), w_)
        xs = np.sort(np.asarray(mixs.sample(_jr.PRNGKey(11), (20000,)), float))
        F_ = sum(w_[i] / w_.sum() * cdf(locs_[i], scs_[i])(xs) for i in range(3))
        emp_hi, emp_lo = np.arange(1, len(xs) + 1) / len(xs), np.arange(0, len(xs)) / len(xs)
        D = float(max(np.max(emp_hi - F_), np.max(F_ - emp_lo)))
        if D > 0.02:  # the 1e-6 quantile of the KS statistic at n = 20000 is 0.0186
            fails.append(dict(what=f"VmapMixture of {fam} components (locs {locs_.tolist()}, weights {w_.tolist()}): Kolmogorov-Smirnov distance of 20000 draws (PRNGKey(11)) to the mixture CDF is {D:.4f} (> 0.02): the sampler does not draw from the mixture", case=dict(family=f"VmapMixture({fam}) sampler")))
            if first_only:
                return fails
    # every named family's SAMPLER draws from its own density: Kolmogorov-Smirnov distance of 20000 fixed-seed draws per coordinate to
    # the textbook CDF, at non-default parameters (df != 1, non-zero loc, vector parameters)
    ks_cases = [("Normal(0.3, 1.7)", Dm.Normal(0.3, 1.7), [st.norm(0.3, 1.7)]), ("LogNormal(0.2, 0.6)", Dm.LogNormal(0.2, 0.6), [st.lognorm(s=0.6, scale=np.exp(0.2))]),
                ("Exponential(2.5)", Dm.Exponential(2.5), [st.expon(scale=1 / 2.5)]), ("Uniform(-1, 2.5)", Dm.Uniform(-1.0, 2.5), [st.uniform(-1.0, 3.5)]), ("Gumbel(0.2, 1.5)", Dm.Gumbel(0.2, 1.5), [st.gumbel_r(0.2, 1.5)]),
                ("Cauchy(-0.5, 2)", Dm.Cauchy(-0.5, 2.0), [st.cauchy(-0.5, 2.0)]), ("Laplace(1, 0.7)", Dm.Laplace(1.0, 0.7), [st.laplace(1.0, 0.7)]), ("Logistic(-1, 1.3)", Dm.Logistic(-1.0, 1.3), [st.logistic(-1.0, 1.3)]),
                ("StudentT(df=5, 0.5, 2)", Dm.StudentT(5.0, 0.5, 2.0), [st.t(5.0, 0.5, 2.0)]), ("StudentT(df=0.5)", Dm.StudentT(0.5), [st.t(0.5)]),
                ("StudentT(df=[1, 2.5, 30])", Dm.StudentT(jnp.array([1.0, 2.5, 30.0])), [st.t(1.0), st.t(2.5), st.t(30.0)]),
                ("MultivariateNormal (marginals)", Dm.MultivariateNormal(jnp.array([0.1, -0.5]), jnp.array([[2.0, 0.3], [0.3, 1.0]])), [st.norm(0.1, np.sqrt(2.0)), st.norm(-0.5, 1.0)])]
    for label, dist_, refs in ks_cases:
        n += 1
        try:
            smp = np.asarray(dist_.sample(_jr.PRNGKey(23), (20000,)), float).reshape(20000, -1)
        except Exception as ex:  # noqa: BLE001
            fails.append(dict(what=f"{label}.sample raised {type(ex).__name__}: {str(ex)[:100]}", case=dict(family=label)))
            continue
        for j_, ref_ in enumerate(refs):
            xs_ = np.sort(smp[:, j_])
            F_ = ref_.cdf(xs_)
            D_ = float(max(np.max(np.arange(1, 20001) / 20000 - F_), np.max(F_ - np.arange(0, 20000) / 20000)))
            if D_ > 0.02:
                fails.append(dict(what=f"{label}: Kolmogorov-Smirnov distance of 20000 draws (PRNGKey(23)) of coordinate {j_} to the family's CDF is {D_:.4f} (> 0.02; the 1e-6 quantile at n = 20000 is 0.0186): the sampler does not draw from the density", case=dict(family=label + " sampler")))
                break
        if first_only and fails:
            return fails
    umix = Dm.VmapMixture(eqx.filter_vmap(Dm.Uniform)(jnp.array([0.0, 2.0]), jnp.array([1.0, 3.0])), np.array([1.0, 1.0]))
    n += 1
    v = float(umix.log_prob(5.0))
    if not np.isneginf(v):
        fails.append(dict(what=f"mixture of Uniforms outside every component's support: log_prob = {v!r}, must be -inf", case=dict(family="VmapMixture(Uniform)")))
    if count is not None:
        count.append(n)
    return fails


# --------------------------------------------------------------------------------------
# C06: batched calls equal elementwise unbatched calls; independent randomness; determinism; ufunc signature
def rt_c06(tier="quick", first_only=False, count=None):
    import itertools as _it
    import flowjax.bijections as B
    import flowjax.distributions as Dm
    import jax.random as jr
    from flowjax.utils import _get_ufunc_signature

    fails, n = [], 0
    # signature builder: exhaustive over shape tuples of rank <= 3 with one- and two-digit dims, vs an independent formatter
    dims = [1, 2, 3, 10, 11]
    shapes = [()] + [(a,) for a in dims] + [(a, b) for a in dims for b in dims] + ([(a, b, c) for a in dims for b in dims for c in dims] if tier == "thorough" else [(2, 10, 3), (11, 1, 10)])
    fmt = lambda s: "(" + ",".join(str(d) for d in s) + ")"  # noqa: E731
    for ins in _it.chain([[s] for s in shapes], [[s, t] for s in shapes[:12] for t in shapes[:12]]):
        for outs in ([()], [ins[0]], [ins[0], ()]):
            n += 1
            got = _get_ufunc_signature(ins, outs)
            want = ",".join(fmt(s) for s in ins) + "->" + ",".join(fmt(s) for s in outs)
            if got != want:
                fails.append(dict(what=f"_get_ufunc_signature({ins}, {outs}) = {got!r}, expected {want!r}", case=dict(ins=[list(s) for s in ins])))
                if first_only:
                    return fails
    # bijection._vectorize (what BijectionReparam and Transformed apply to batches): batched == elementwise unbatched, on the zoo
    zrng = np.random.default_rng(3)
    try:
        zoo_ = bijection_zoo()
    except Exception as ex:  # noqa: BLE001  (raised inside the library while constructing ordinary bijections)
        import traceback as _tb
        where = [ln for ln in _tb.format_exc().splitlines() if "flowjax/" in ln][-1:] or [""]
        fails.append(dict(what=f"constructing the standard bijections (Affine, Scale, ... with valid arguments) raised {type(ex).__name__}: {str(ex)[:120]} {where[0].strip()[:120]}", case=dict(check="zoo construction")))
        return fails
    for zname, zb, zcd in zoo_:
        if tier == "quick" and any(t in zname for t in ("trained", "BlockAutoregressive", "Planar")):
            continue
        for xb, cb in (((3,), ()), ((2, 2), (2,))) if zcd is not None else (((3,), None), ((2, 1), None)):
            n += 1
            X = jnp.asarray(zrng.normal(size=xb + tuple(zb.shape)) * 0.8)
            Cn = None if zcd is None else jnp.asarray(zrng.normal(size=cb + (zcd,)))
            case = dict(bijection=zname, x_batch=list(xb))
            try:
                Y, LDs = zb._vectorize.transform_and_log_det(X, Cn)
                Yt = zb._vectorize.transform(X, Cn)
            except NotImplementedError:
                continue
            except Exception as ex:  # noqa: BLE001
                fails.append(dict(what=f"{zname}._vectorize.transform_and_log_det of a batch {xb} raised {type(ex).__name__}: {str(ex)[:160]}", case=case))
                continue
            if tuple(np.shape(Y)) != xb + tuple(zb.shape) or tuple(np.shape(LDs)) != xb:
                fails.append(dict(what=f"{zname}._vectorize.transform_and_log_det of a batch {xb}: output shapes {np.shape(Y)}, {np.shape(LDs)}; expected {xb + tuple(zb.shape)}, {xb}", case=case))
                continue
            for idx in np.ndindex(*xb):
                ci = None if Cn is None else (Cn if cb == () else Cn[idx[-len(cb):]] if len(cb) else Cn)
                y1, l1 = zb.transform_and_log_det(X[idx], ci)
                if not (np.allclose(np.asarray(Y[idx]), np.asarray(y1), rtol=1e-9, atol=1e-12) and np.allclose(np.asarray(Yt[idx]), np.asarray(y1), rtol=1e-9, atol=1e-12) and _close(LDs[idx], l1, tol=1e-9)):
                    fails.append(dict(what=f"{zname}._vectorize: element {idx} of a batched transform_and_log_det differs from the unbatched call on that slice", case=case))
                    break
            if first_only and fails:
                return fails
    # real distributions whose value depends on x and on the condition
    def cond_dist(event, cshape):
        return Dm.Transformed(Dm.Normal(jnp.zeros(event), jnp.ones(event)), B.AdditiveCondition(lambda c: 0.7 * jnp.sum(c) + jnp.zeros(event), event, cshape))

    cfgs = [("uncond scalar", Dm.Normal(0.3, 1.7), None), ("uncond (3,)", Dm.Normal(jnp.arange(3.0), 1.5), None), ("cond event (2,), cond (3,)", cond_dist((2,), (3,)), (3,)),
            ("cond event (), cond ()", cond_dist((), ()), ()), ("cond event (2,2), cond (2,1)", cond_dist((2, 2), (2, 1)), (2, 1))]
    rng = np.random.default_rng(0)
    for name, d, cs in cfgs:
        ev = tuple(d.shape)
        for xb, cb in (((), ()), ((4,), ()), ((1,), (3,)), ((2, 3), (3,)), ((3,), (3,)), ((2, 1), (1, 3))):
            if cs is None and cb != ():
                continue
            n += 1
            x = rng.normal(size=xb + ev)
            c = None if cs is None else rng.normal(size=cb + cs)
            try:
                lp = np.asarray(d.log_prob(x, c))
            except Exception as ex:  # noqa: BLE001
                fails.append(dict(what=f"{name}: log_prob of x batch {xb} with condition batch {cb} raised {type(ex).__name__}: {str(ex)[:160]}", case=dict(dist=name, x_batch=xb, cond_batch=cb)))
                continue
            bshape = np.broadcast_shapes(xb, cb)
            if lp.shape != bshape:
                fails.append(dict(what=f"{name}: log_prob batch shape {lp.shape}, expected {bshape}", case=dict(dist=name)))
                continue
            xb_ = np.broadcast_to(x, bshape + ev)
            cb_ = None if c is None else np.broadcast_to(c, bshape + cs)
            for idx in np.ndindex(*bshape):
                one = float(d.log_prob(xb_[idx], None if c is None else cb_[idx]))
                if not _close(lp[idx], one, tol=1e-9):
                    fails.append(dict(what=f"{name}: log_prob element {idx} of a batched call = {float(lp[idx])!r} but the unbatched call on that slice gives {one!r}", case=dict(dist=name, x_batch=xb, cond_batch=cb)))
                    break
        for ss, cb in (((), ()), ((5,), ()), ((2, 3), ()), ((), (4,)), ((5,), (4,)), ((2, 3), (1,)), ((5,), (3, 4))):
            if cs is None and cb != ():
                continue
            n += 1
            key = jr.PRNGKey(7)
            c = None if cs is None else rng.normal(size=cb + cs)
            try:
                s1 = np.asarray(d.sample(key, ss, c))
                s2 = np.asarray(d.sample(key, ss, c))
            except Exception as ex:  # noqa: BLE001
                fails.append(dict(what=f"{name}: sample(sample_shape={ss}) with condition batch {cb} raised {type(ex).__name__}: {str(ex)[:160]}", case=dict(dist=name, sample_shape=ss, cond_batch=cb)))
                continue
            want_shape = ss + cb + ev
            case = dict(dist=name, sample_shape=ss, cond_batch=cb)
            if s1.shape != want_shape:
                fails.append(dict(what=f"{name}: sample shape {s1.shape}, expected sample_shape + condition batch + event = {want_shape}", case=case))
                continue
            if not np.array_equal(s1, s2):
                fails.append(dict(what=f"{name}: the same key gave different samples", case=case))
            flat = s1.reshape((-1,) + ev).reshape(int(np.prod(ss + cb, dtype=int)), -1)
            # remove the deterministic condition shift before comparing draws
            if c is not None:
                shift = 0.7 * np.sum(np.broadcast_to(c, ss + cb + cs).reshape(flat.shape[0], -1), axis=1, keepdims=True)
                flat = flat - shift
            if len({tuple(np.round(r, 12)) for r in flat}) != flat.shape[0]:
                fails.append(dict(what=f"{name}: repeated draws inside one batched sample (sample_shape={ss}, condition batch={cb}): elements share randomness", case=case))
            s3, lp3 = d.sample_and_log_prob(key, ss, c)
            if not np.allclose(np.asarray(s3), s1, atol=1e-12) or not np.allclose(np.asarray(lp3), np.asarray(d.log_prob(s1, c)), atol=1e-8):
                fails.append(dict(what=f"{name}: sample_and_log_prob disagrees with sample / log_prob for the same key", case=case))
        if first_only and fails:
            return fails
    if count is not None:
        count.append(n)
    return fails


# --------------------------------------------------------------------------------------
# C11: constructors reproduce / reject; constraints hold for every raw parameter value (float32 and float64)
def rt_c11(tier="quick", first_only=False, count=None):
    import equinox as eqx
    import flowjax.bijections as B
    import flowjax.distributions as Dm
    from flowjax.wrappers import unwrap, WeightNormalization

    fails, n = [], 0

    def add(msg, **case):
        fails.append(dict(what=msg, case=case))

    mags = [1e-6, 1e-3, 0.5, 1.0, 37.0, 100.0, 1e3, 1e6]
    for dt in (jnp.float32, jnp.float64):
        tol = 1e-5 if dt == jnp.float32 else 1e-12
        for m in mags:
            v = jnp.asarray([m, 2 * m], dt)
            for name, mk, get in (("Affine.scale", lambda: B.Affine(jnp.zeros(2, dt), v), lambda o: unwrap(o.scale)), ("Scale.scale", lambda: B.Scale(v), lambda o: unwrap(o.scale)),
                                  ("Normal.scale", lambda: Dm.Normal(jnp.zeros(2, dt), v), lambda o: o.scale), ("StudentT.df", lambda: Dm.StudentT(v), lambda o: o.df),
                                  ("Exponential.rate", lambda: Dm.Exponential(v), lambda o: o.rate), ("Uniform.maxval", lambda: Dm.Uniform(jnp.zeros(2, dt), v), lambda o: o.maxval)):
                n += 1
                try:
                    got = np.asarray(get(mk()), float)
                except Exception as ex:  # noqa: BLE001
                    add(f"{name} = {m:g} ({np.dtype(dt).name}): constructor raised {type(ex).__name__} for a valid argument", what=name, magnitude=m, dtype=np.dtype(dt).name)
                    continue
                if not (np.all(np.isfinite(got)) and np.all(got > 0) and np.allclose(got, np.asarray(v, float), rtol=max(tol, 1e-6))):
                    add(f"{name} = {m:g} ({np.dtype(dt).name}): read back {got.tolist()}", what=name, magnitude=m, dtype=np.dtype(dt).name)
        if first_only and fails:
            return fails
    # rejection at the edge of validity
    for name, mk in (("Affine(scale=0)", lambda: B.Affine(0.0, jnp.array([1.0, 0.0]))), ("Scale(scale<0)", lambda: B.Scale(jnp.array([-1.0]))), ("StudentT(df=0)", lambda: Dm.StudentT(jnp.array(0.0))),
                     ("Uniform(maxval==minval)", lambda: Dm.Uniform(jnp.array(1.0), jnp.array(1.0))), ("VmapMixture(weight 0)", lambda: Dm.VmapMixture(eqx.filter_vmap(Dm.Normal)(jnp.zeros(2), jnp.ones(2)), jnp.array([1.0, 0.0]))),
                     ("Permute(non-permutation)", lambda: B.Permute(jnp.array([0, 0, 2])))):
        n += 1
        try:
            o = mk()
            jax.block_until_ready(jax.tree_util.tree_leaves(o))
            add(f"{name} was accepted", what=name)
        except Exception:  # noqa: BLE001
            pass
    # constraints for moved raw parameters
    rng = np.random.default_rng(1)
    raws = [-50.0, -20.0, -3.0, 0.0, 3.0, 20.0, 50.0]
    for dt in (jnp.float32, jnp.float64):
        for r in raws:
            n += 1
            a = B.Affine(jnp.zeros(2, dt), jnp.ones(2, dt))
            a = eqx.tree_at(lambda t: t.scale.arr, a, jnp.full(2, r, dt))
            s = np.asarray(unwrap(a.scale), float)
            if not np.all(s > 0):
                add(f"Affine scale for raw={r} ({np.dtype(dt).name}) is {s.tolist()} (must stay strictly positive)", raw=r, dtype=np.dtype(dt).name)
            t = Dm.StudentT(jnp.ones(2, dt))
            t = eqx.tree_at(lambda d: d.base_dist.df.arr, t, jnp.full(2, r, dt))
            if not np.all(np.asarray(t.df, float) > 0):
                add(f"StudentT df for raw={r} is not positive", raw=r)
    # default transformer of coupling / masked autoregressive flows: every TRAINABLE leaf (not under NonTrainable) moved
    import itertools
    import flowjax.flows as Fl
    from flowjax.wrappers import NonTrainable
    mk_default = getattr(Fl, "_affine_with_min_scale", None)
    if mk_default is not None:
        for ms in (1e-2, 0.3):
            tr0 = mk_default(ms)
            prm, static = eqx.partition(tr0, eqx.is_inexact_array, is_leaf=lambda l: isinstance(l, NonTrainable))
            leaves, tdef = jax.tree_util.tree_flatten(prm)
            for vals in itertools.product(raws, repeat=len(leaves)):
                n += 1
                moved = jax.tree_util.tree_unflatten(tdef, [jnp.full(jnp.shape(l), v, jnp.result_type(l)) for l, v in zip(leaves, vals)])
                sc = np.asarray(unwrap(eqx.combine(moved, static)).scale, float)
                if not np.all(sc > 0):
                    add(f"default flow transformer (_affine_with_min_scale({ms})) with its {len(leaves)} trainable leaves set to {list(vals)} has scale {sc.tolist()} (must stay strictly positive)", what="min_scale", raw=list(vals))
                    break
            n += 1
            s0 = np.asarray(unwrap(tr0).scale, float)
            if not np.allclose(s0, 1.0, rtol=1e-6):
                add(f"default flow transformer (_affine_with_min_scale({ms})) starts with scale {s0.tolist()}, not the 1 given to its reparameterisation", what="min_scale")
    # non-default min_derivative given to the constructor: identity at construction, and the floor is the constructor's value for
    # every raw value (seed V3: a parameterisation that falls back to the default floor of 1e-3)
    from flowjax.bijections import RationalQuadraticSpline as _RQS
    for md in (1e-3, 1e-2, 0.2):
        for iv in (3.0, (-1.0, 2.0)):
            sp0 = _RQS(knots=4, interval=iv, min_derivative=md)
            n += 1
            d0 = np.asarray(unwrap(sp0).derivatives, float)
            if not np.allclose(d0, 1.0, rtol=1e-9, atol=1e-9):
                add(f"RationalQuadraticSpline(knots=4, interval={iv}, min_derivative={md}) starts with knot derivatives {d0.tolist()}, not 1 (not the identity at construction)", what="min_derivative", md=md)
            for r in (-50.0, -8.0, -5.0, 0.0, 7.0):
                n += 1
                moved = eqx.tree_at(lambda b: b.derivatives.args[0], sp0, jnp.full(jnp.shape(sp0.derivatives.args[0]), r, jnp.result_type(sp0.derivatives.args[0])))
                dd_ = np.asarray(unwrap(moved).derivatives, float)
                if not np.all(dd_ >= md):
                    add(f"RationalQuadraticSpline(min_derivative={md}) with raw derivative parameters {r}: knot derivatives {dd_.min()!r} below the floor given to the constructor", what="min_derivative", md=md, raw=r)
    for seed in range(6 if tier == "quick" else 30):
        n += 1
        scale = [1.0, 10.0, 50.0][seed % 3]
        sp = build_spline_perturbed(5, (-2.0, 3.0), seed, scale=scale)
        u = unwrap(sp)
        xp, yp, dd = (np.asarray(v, float) for v in (u.x_pos, u.y_pos, u.derivatives))
        for nm, arr in (("x_pos", xp), ("y_pos", yp)):
            if not (np.all(np.diff(arr) > 0) and arr[0] == -2.0 and arr[-1] == 3.0):
                add(f"spline {nm} for raw parameters ~N(0,{scale}^2) (seed {seed}) is not strictly increasing from -2 to 3: {arr.tolist()}", seed=seed)
        if not np.all(dd >= sp.min_derivative):
            add(f"spline derivatives below min_derivative for seed {seed}: {dd.tolist()}", seed=seed)
        # mixture weights stay normalised, weight-norm rows keep their norm parameter
        mix = Dm.VmapMixture(eqx.filter_vmap(Dm.Normal)(jnp.zeros(3), jnp.ones(3)), jnp.array([1.0, 2.0, 3.0]))
        mix = eqx.tree_at(lambda d: d.log_normalized_weights.args[0], mix, jnp.asarray(rng.normal(size=3) * scale))
        lw = np.asarray(unwrap(mix.log_normalized_weights), float)
        if not np.isclose(np.sum(np.exp(lw)), 1.0, atol=1e-9):
            add(f"mixture weights sum to {np.sum(np.exp(lw))!r} after moving the raw weights", seed=seed)
        wn = WeightNormalization(jnp.asarray(rng.normal(size=(3, 4))))
        wn = eqx.tree_at(lambda w: (w.weight, w.scale.arr), wn, (jnp.asarray(rng.normal(size=(3, 4)) * scale), jnp.asarray(rng.normal(size=(3, 1)) * min(scale, 20.0))))
        W = np.asarray(unwrap(wn), float)
        target = np.asarray(jax.nn.softplus(wn.scale.arr), float)[:, 0]
        if not np.allclose(np.linalg.norm(W, axis=1), target, rtol=1e-9):
            add(f"weight-normalised rows have norms {np.linalg.norm(W, axis=1).tolist()}, norm parameter {target.tolist()}", seed=seed)
        # planar layers stay invertible (leaky relu: analytic inverse must undo transform)
        for slope in (0.1, 0.5, 1.0):
            dim = 3
            # keep |w.u| inside the range where softplus(w.u) does not underflow (the property's box is chosen for that)
            prm = jnp.asarray(np.clip(rng.normal(size=2 * dim + 1) * min(scale, 10.0) / 5, -4.0, 4.0))
            pl = B.Planar(jax.random.PRNGKey(seed), dim=dim, negative_slope=slope)
            pl = eqx.tree_at(lambda p_: p_.params, pl, prm)
            x = jnp.asarray(rng.normal(size=dim) * 3)
            y = pl.transform(x)
            xb = pl.inverse(y)
            if not np.allclose(np.asarray(xb), np.asarray(x), rtol=1e-5, atol=1e-7):
                add(f"Planar(negative_slope={slope}) with moved parameters (seed {seed}) is not invertible: inverse(transform(x)) = {np.asarray(xb).tolist()} for x = {np.asarray(x).tolist()}", seed=seed, slope=slope)
        if first_only and fails:
            return fails
    if count is not None:
        count.append(n)
    return fails


def rt_planar(slope, w, u, b):
    """real _UnconditionalPlanar: inverse must undo transform along the direction of w"""
    from flowjax.bijections.planar import _UnconditionalPlanar

    pl = _UnconditionalPlanar(jnp.asarray(w, float), jnp.asarray(u, float), jnp.asarray(float(b)), float(slope))
    wn = np.asarray(w, float) / np.linalg.norm(w)
    wu_hat = float(jnp.asarray(w, float) @ pl.get_act_scale())
    for t in np.linspace(-6, 6, 49):
        x = jnp.asarray(t * wn + np.array([0.0] * (len(w) - 1) + [0.5]))
        y = pl.transform(x)
        xb = pl.inverse(y)
        if not np.allclose(np.asarray(xb), np.asarray(x), rtol=1e-7, atol=1e-9):
            return (f"_UnconditionalPlanar(weight={list(map(float, w))}, act_scale={list(map(float, u))}, bias={float(b)}, negative_slope={float(slope)}): w.u_hat = {wu_hat:.6g}, "
                    f"1 + slope*w.u_hat = {1 + slope * wu_hat:.6g}; x = {np.asarray(x).tolist()} -> y = {np.asarray(y).tolist()} but inverse(y) = {np.asarray(xb).tolist()}")
    return None


# --------------------------------------------------------------------------------------
# C12: real unwrap / frozen leaves through real training loops with several optimisers
def rt_c12(tier="quick", first_only=False, count=None):
    import equinox as eqx
    import optax
    import flowjax.bijections as B
    import flowjax.distributions as Dm
    import flowjax.flows as Fl
    from flowjax.train import fit_to_data, fit_to_variational_target
    from flowjax.train.losses import ElboLoss
    from flowjax.wrappers import BijectionReparam, Lambda, NonTrainable, Where, non_trainable, unwrap
    import jax.random as jr

    fails, n = [], 0

    def add(msg, **case):
        fails.append(dict(what=msg, case=case))

    def leaves_equal(a, b):
        la, lb = jax.tree_util.tree_leaves(a), jax.tree_util.tree_leaves(b)
        return len(la) == len(lb) and all(np.array_equal(np.asarray(x), np.asarray(y)) for x, y in zip(la, lb))

    # nested wrappers: value, idempotence, wrapper-free
    n += 1
    mask = jnp.array([True, False, True])
    inner = BijectionReparam(jnp.array([0.5, 1.5, 2.5]), B.SoftPlus())
    nested = Where(mask, inner, Where(~mask, jnp.full(3, -1.0), 7.0))
    tree = {"m": B.Affine(jnp.zeros(3), jnp.array([0.5, 1.5, 2.5])), "w": [nested, 3, "s"], "l": (Lambda(lambda v, k=0.0: 2 * v + k, inner, k=NonTrainable(jnp.ones(3))),)}
    u = unwrap(tree)
    uu = unwrap(u)
    if any(isinstance(x, eqx.Module) and hasattr(x, "unwrap") for x in jax.tree_util.tree_leaves(u, is_leaf=lambda x: hasattr(x, "unwrap"))):
        add("unwrap left a wrapper node in the tree")
    if not leaves_equal(u, uu):
        add("unwrap is not idempotent")
    want_w = np.where(np.asarray(mask), [0.5, 1.5, 2.5], -1.0)
    if not np.allclose(np.asarray(u["w"][0]), want_w) or not np.allclose(np.asarray(u["l"][0]), 2 * np.array([0.5, 1.5, 2.5]) + 1.0):
        add(f"nested wrappers unwrap to {np.asarray(u['w'][0]).tolist()} / {np.asarray(u['l'][0]).tolist()}")
    # wrappers created under 0-2 levels of vmapped construction: unwrap of the batched wrapper == stack of the unwraps of the
    # individually built wrappers (WeightNormalization under vmap cannot be built in this sandbox: baseline failure of the suite)
    vrng = np.random.default_rng(8)
    msk3 = jnp.array([True, False, True])
    makers = {"BijectionReparam(SoftPlus)": (lambda a: BijectionReparam(jnp.abs(a) + 0.1, B.SoftPlus()), (3,)), "BijectionReparam(Exp)": (lambda a: BijectionReparam(jnp.abs(a) + 0.1, B.Exp()), (3,)),
              "Lambda(cumsum, kwarg)": (lambda a: Lambda(lambda v, k=1.0: jnp.cumsum(v) * k, a, k=2.0), (3,)), "Lambda(matrix)": (lambda a: Lambda(lambda m_: jnp.tril(m_) + jnp.diag(jnp.exp(jnp.diag(m_))), a), (3, 3)),
              "Where(fixed mask)": (lambda a: Where(msk3, a, 0.0), (3,)), "Where(mask from the argument)": (lambda a: Where(a > 0, a, -1.0), (3,)), "NonTrainable": (lambda a: NonTrainable(a), (3,)),
              "BijectionReparam(Where(...))": (lambda a: BijectionReparam(Where(msk3, jnp.abs(a) + 0.1, 1.0), B.SoftPlus(), invert_on_init=False), (3,)),
              "Lambda(BijectionReparam)": (lambda a: Lambda(lambda v: 2 * v, BijectionReparam(jnp.abs(a) + 0.1, B.SoftPlus())), (3,))}
    for wname, (mkw, shp) in makers.items():
        for batch in ((), (2,), (2, 3)):
            n += 1
            a_ = jnp.asarray(vrng.normal(size=batch + shp))
            f_ = mkw
            for _lvl in batch:
                f_ = eqx.filter_vmap(f_)
            try:
                got = np.asarray(unwrap(f_(a_)))
                one = [np.asarray(unwrap(mkw(a_[idx]))) for idx in np.ndindex(*batch)]
                ref = np.stack(one).reshape(batch + one[0].shape)
            except Exception as ex:  # noqa: BLE001
                add(f"{wname} built under {len(batch)} level(s) of filter_vmap: unwrap raised {type(ex).__name__}: {str(ex).splitlines()[0][:120]}", wrapper=wname, levels=len(batch))
                continue
            if got.shape != ref.shape or not np.allclose(got, ref, rtol=1e-12, atol=1e-12):
                add(f"{wname} built under {len(batch)} level(s) of filter_vmap unwraps to shape {got.shape} / values different from the stack of the individually built wrappers", wrapper=wname, levels=len(batch))
        if first_only and fails:
            return fails
    # a frozen SUBTREE (a whole sub-bijection / base distribution wrapped in NonTrainable, as the library's own test does): every
    # method gives the same result as on the un-frozen model, eagerly AND under jit, and both training loops run and leave the
    # frozen subtree bit-identical
    n += 1
    if (u["w"][1], u["w"][2]) != (3, "s") or type(u["w"][1]) is not int:
        add(f"unwrap changed a static Python leaf of a container: {u['w'][1:]!r}")
    plain = Dm.Transformed(Dm.Normal(jnp.zeros(2), jnp.ones(2)), B.Chain([B.Affine(jnp.array([0.3, -0.2]), jnp.array([1.5, 0.7])), B.Tanh((2,))]))
    xs = plain.sample(jr.PRNGKey(3), (24,))
    for fname, where in (("first sub-bijection of the chain", lambda t: t.bijection.bijections[0]), ("base distribution", lambda t: t.base_dist), ("whole bijection", lambda t: t.bijection)):
        n += 1
        frozen = eqx.tree_at(where, plain, replace_fn=NonTrainable)
        ref = np.asarray(plain.log_prob(xs[0]))
        for mode, call in (("eager", lambda d_: d_.log_prob(xs[0])), ("jit", lambda d_: eqx.filter_jit(lambda dd, v: dd.log_prob(v))(d_, xs[0]))):
            try:
                got = np.asarray(call(frozen))
            except Exception as ex:  # noqa: BLE001
                add(f"model with a frozen subtree ({fname} wrapped in NonTrainable): log_prob ({mode}) raised {type(ex).__name__}: {str(ex)[:140]}", frozen=fname, mode=mode)
                continue
            if not np.allclose(got, ref, rtol=1e-6, atol=1e-7):
                add(f"model with a frozen subtree ({fname}): log_prob ({mode}) = {got.tolist()} but the un-frozen model gives {ref.tolist()}", frozen=fname, mode=mode)
        try:
            fitted, _l = fit_to_data(jr.PRNGKey(4), frozen, xs, max_epochs=2, batch_size=8, show_progress=False, optimizer=optax.adamw(1e-2, weight_decay=0.1))
            before, after = where(frozen), where(fitted)
            if not leaves_equal(before, after):
                add(f"fit_to_data moved leaves of the frozen subtree ({fname})", frozen=fname)
        except Exception as ex:  # noqa: BLE001
            add(f"fit_to_data on a model with a frozen subtree ({fname} wrapped in NonTrainable) raised {type(ex).__name__}: {str(ex)[:140]}", frozen=fname, mode="fit_to_data")
        if first_only and fails:
            return fails
    # leaves marked non-trainable are not parameterised by coupling / autoregressive conditioners
    kk = jr.PRNGKey(2)
    for lname, mk in (("Coupling", lambda tr: B.Coupling(kk, transformer=tr, untransformed_dim=1, dim=3, nn_width=4, nn_depth=1)), ("Coupling(cond)", lambda tr: B.Coupling(kk, transformer=tr, untransformed_dim=1, dim=3, cond_dim=2, nn_width=4, nn_depth=1)),
                      ("MaskedAutoregressive", lambda tr: B.MaskedAutoregressive(kk, transformer=tr, dim=3, nn_width=4, nn_depth=1))):
        for tname, tr, n_train, frozen in (("Affine(loc frozen)", eqx.tree_at(lambda a: a.loc, B.Affine(), replace=NonTrainable(jnp.array(3.25))), 1, "loc"),
                                         ("Affine(scale frozen)", eqx.tree_at(lambda a: a.scale, B.Affine(0.0, 2.0), replace_fn=NonTrainable), 1, "scale"),
                                         ("Affine(all frozen)", non_trainable(B.Affine(0.5, 2.0)), 0, "all"), ("Affine", B.Affine(), 2, None)):
            n += 1
            try:
                layer = _perturb(mk(tr), 4, scale=0.5)
            except Exception as ex:  # noqa: BLE001
                add(f"{lname} with transformer {tname}: constructor raised {type(ex).__name__}: {str(ex)[:120]}", layer=lname, transformer=tname)
                continue
            net = layer.conditioner if lname.startswith("Coupling") else layer.masked_autoregressive_mlp
            dims = 2 if lname.startswith("Coupling") else 3
            out = int(np.asarray(unwrap(net).layers[-1].weight).shape[0])
            if out != n_train * dims:
                add(f"{lname} with transformer {tname}: the conditioner produces {out} outputs = {out / dims:g} parameters per transformed dimension, but the transformer has {n_train} trainable parameter(s): frozen leaves are being parameterised", layer=lname, transformer=tname)
                continue
            if frozen == "loc":
                c = None if layer.cond_shape is None else jnp.array([0.3, -0.2])
                for x0 in (jnp.array([0.7, 0.0, 0.0]), jnp.array([-1.3, 0.0, 0.0])):
                    y = np.asarray(layer.transform(x0, c))
                    tail = y[1:]  # coordinates whose input is 0 (coordinate 0 carries the conditioning value)
                    if not np.allclose(tail, 3.25, atol=1e-9):
                        add(f"{lname} with a frozen loc=3.25: transform({np.asarray(x0).tolist()}) = {y.tolist()}; the transformed coordinates at x=0 must equal the frozen loc whatever the conditioning input", layer=lname, transformer=tname)
                        break
        if first_only and fails:
            return fails
    # constructors keep the wrappers of the children they store (a frozen leaf inside a vmapped / chained / stacked child stays frozen)
    def frozen_affine():
        return eqx.tree_at(lambda a: a.loc, B.Affine(jnp.array([0.5, -1.0]), jnp.array([1.0, 2.0])), replace_fn=NonTrainable)

    stacked = eqx.filter_vmap(lambda l: eqx.tree_at(lambda a: a.loc, B.Affine(l, jnp.array(1.5)), replace_fn=NonTrainable))(jnp.array([0.5, -1.0, 2.0]))
    for cname, build in (("Vmap(in_axes=if_array(0))", lambda: B.Vmap(stacked, in_axes=eqx.if_array(0))), ("Vmap(axis_size=3)", lambda: B.Vmap(eqx.tree_at(lambda a: a.loc, B.Affine(0.5, 1.5), replace_fn=NonTrainable), axis_size=3)),
                         ("Chain", lambda: B.Chain([frozen_affine(), B.Tanh((2,))])), ("Invert", lambda: B.Invert(frozen_affine())), ("Concatenate", lambda: B.Concatenate([frozen_affine(), B.Exp((1,))])),
                         ("Stack", lambda: B.Stack([frozen_affine(), B.Tanh((2,))])), ("Reshape", lambda: B.Reshape(frozen_affine(), (2, 1))), ("Partial", lambda: B.Partial(frozen_affine(), jnp.array([0, 2]), (3,)))):
        n += 1
        try:
            comb = build()
        except Exception as ex:  # noqa: BLE001
            add(f"{cname} of a child with a frozen leaf raised {type(ex).__name__}: {str(ex)[:120]}", combinator=cname)
            continue
        n_frozen = sum(1 for l in jax.tree_util.tree_leaves(comb, is_leaf=lambda l: isinstance(l, NonTrainable)) if isinstance(l, NonTrainable))
        if n_frozen < 1:
            add(f"{cname}: the NonTrainable wrapper of the child's frozen leaf is gone after construction (the leaf would be trained)", combinator=cname)
            continue
        params, static = eqx.partition(comb, eqx.is_inexact_array, is_leaf=lambda l: isinstance(l, NonTrainable))
        xin = jnp.ones(comb.shape) * 0.3
        g = jax.grad(lambda pp: jnp.sum(unwrap(eqx.combine(pp, static)).transform(xin)))(params)
        if n_frozen and any(isinstance(l, NonTrainable) for l in jax.tree_util.tree_leaves(g, is_leaf=lambda l: isinstance(l, NonTrainable))):
            add(f"{cname}: a frozen leaf is handed to the optimiser as a trainable parameter", combinator=cname)
    if first_only and fails:
        return fails
    # methods give the same result on pre-unwrapped objects
    key = jr.PRNGKey(0)
    flow = _perturb(Fl.masked_autoregressive_flow(key, base_dist=Dm.Normal(jnp.zeros(2), jnp.ones(2)), flow_layers=2, nn_width=8), 3)
    x = jnp.array([[0.3, -0.7], [1.2, 0.1]])
    n += 1
    uf = unwrap(flow)
    if not np.allclose(np.asarray(flow.log_prob(x)), np.asarray(uf.log_prob(x)), rtol=1e-12) or not np.allclose(np.asarray(flow.sample(key, (3,))), np.asarray(uf.sample(key, (3,)))) or \
            not np.allclose(np.asarray(flow.bijection.inverse(x[0])), np.asarray(uf.bijection.inverse(x[0]))):
        add("methods differ between the wrapped model and the pre-unwrapped model")
    # frozen leaves: zero gradient + bit-identical after training with parameter-dependent optimisers
    opts = [("adam", optax.adam(1e-2)), ("adamw", optax.adamw(1e-2, weight_decay=0.1)), ("sgd+decay", optax.chain(optax.add_decayed_weights(0.1), optax.sgd(1e-2)))]
    data = jr.normal(key, (24, 2))

    def freeze_variants(d):
        out = [("whole base frozen", eqx.tree_at(lambda t: t.base_dist, d, replace_fn=non_trainable), lambda t: t.base_dist)]
        out.append(("first layer params frozen via non_trainable(bijection)", eqx.tree_at(lambda t: t.bijection, d, replace_fn=non_trainable), lambda t: t.bijection))
        return out

    for vname, model, pick in freeze_variants(flow):
        frozen_before = jax.tree_util.tree_leaves(pick(model))
        nonfloat_before = [l for l in jax.tree_util.tree_leaves(model) if not eqx.is_inexact_array(l)]
        n += 1
        g = eqx.filter_grad(lambda m: jnp.mean(m.log_prob(data)))(model)
        gl = [l for l in jax.tree_util.tree_leaves(pick(g)) if l is not None]
        if any(np.any(np.asarray(l) != 0) for l in gl):
            add(f"{vname}: frozen leaves received a non-zero gradient", variant=vname)
        for oname, opt in opts:
            for loop in ("fit_to_data", "fit_to_variational_target"):
                n += 1
                if loop == "fit_to_data":
                    out, _ = fit_to_data(key, model, data, max_epochs=2, batch_size=8, optimizer=opt, show_progress=False)
                else:
                    out, _ = fit_to_variational_target(key, model, ElboLoss(lambda z: -0.5 * jnp.sum(z**2), 8), steps=3, optimizer=opt, show_progress=False)
                fa = jax.tree_util.tree_leaves(pick(out))
                if len(fa) != len(frozen_before) or any(not np.array_equal(np.asarray(p), np.asarray(q)) for p, q in zip(fa, frozen_before)):
                    add(f"{loop} with {oname}: leaves frozen with NonTrainable ({vname}) changed during training", variant=vname, optimizer=oname, loop=loop)
                nf = [l for l in jax.tree_util.tree_leaves(out) if not eqx.is_inexact_array(l)]
                if len(nf) != len(nonfloat_before) or any(not np.array_equal(np.asarray(p), np.asarray(q)) for p, q in zip(nf, nonfloat_before)):
                    add(f"{loop} with {oname}: non-floating leaves changed during training", optimizer=oname, loop=loop)
                if first_only and fails:
                    return fails
    if count is not None:
        count.append(n)
    return fails


# --------------------------------------------------------------------------------------
# C14: eager == jit == vmap(loop); flatten/unflatten and leaf serialisation round trips (real objects)
def _zoo_half_sum(c):
    return 0.5 * jnp.sum(c)


def _zoo_sum(c):
    return c.sum()


def _zoo_first_doubled(c):
    return c[:1] * 2


def bijection_zoo(seed=0):
    import equinox as eqx
    import flowjax.bijections as B
    import jax.random as jr

    k = jr.PRNGKey(seed)
    sd = 1.0 + 0.17 * seed  # constructor constants differ between seeds too (a model loaded into a seed-1 object must take ALL its arrays from the file)
    aff = lambda n_: B.Affine(jnp.arange(n_) * 0.3 * sd, jnp.arange(1, n_ + 1) * 0.7 * sd)  # noqa: E731
    zoo = [
        ("Affine", aff(3), None), ("Loc", B.Loc(jnp.array([0.5, -1.0]) * sd), None), ("Scale", B.Scale(jnp.array([0.5, 2.0]) * sd), None), ("Exp", B.Exp((2,)), None), ("SoftPlus", B.SoftPlus((2,)), None),
        ("Tanh", B.Tanh((2,)), None), ("LeakyTanh", B.LeakyTanh(1.5, (3,)), None), ("Identity", B.Identity((2,)), None), ("Flip", B.Flip((3,)), None), ("Permute", B.Permute(jnp.array([2, 0, 1])), None),
        ("TriangularAffine", B.TriangularAffine(jnp.array([0.1, 0.2, 0.3]) * sd, jnp.array([[1.0, 5.0, 5.0], [0.3, 2.0, 5.0], [-0.4, 0.2, 0.5]]) * sd), None),
        ("TriangularAffine(trained)", _perturb(B.TriangularAffine(jnp.array([0.1, 0.2, 0.3]) * sd, jnp.array([[1.0, 5.0, 5.0], [0.3, 2.0, 5.0], [-0.4, 0.2, 0.5]]) * sd), 4, scale=1.0), None),
        ("TriangularAffine(upper, trained)", _perturb(B.TriangularAffine(jnp.array([0.1, -0.2]) * sd, jnp.array([[1.5, -0.7], [3.0, 0.4]]) * sd, lower=False), 5, scale=1.0), None),
        ("RationalQuadraticSpline", build_spline_perturbed(4, (-2.0, 3.0), 3), None),
        ("Planar(leaky)", _perturb(B.Planar(k, dim=3, negative_slope=0.2), 1), None), ("Planar(tanh)", _perturb(B.Planar(k, dim=3), 1), None), ("Planar(cond, leaky)", B.Planar(k, dim=2, cond_dim=2, negative_slope=0.5, width_size=4, depth=1), 2),
        ("AdditiveCondition", B.AdditiveCondition(_zoo_half_sum, (2,), (3,)), 3),
        ("Chain", B.Chain([aff(3), B.Tanh((3,)), B.Permute(jnp.array([1, 2, 0]))]), None), ("Invert(Affine)", B.Invert(aff(2)), None),
        ("Scan(Affine)", B.Scan(eqx.filter_vmap(B.Affine)(jnp.array([[0.1, 0.2], [0.3, -0.4]]) * sd, jnp.array([[1.0, 2.0], [0.5, 1.5]]) * sd)), None),
        ("Vmap(spline)", B.Vmap(eqx.filter_vmap(lambda: build_spline_perturbed(3, (-1.0, 1.0), None), axis_size=3)(), in_axes=eqx.if_array(0)), None),
        ("Concatenate", B.Concatenate([aff(2), B.Exp((3,))]), None), ("Stack", B.Stack([aff(2), B.Tanh((2,))], axis=-1), None), ("Partial", B.Partial(B.Exp((2,)), jnp.array([0, 2]), (4,)), None),
        ("Reshape", B.Reshape(aff(4), (2, 2)), None), ("EmbedCondition", B.EmbedCondition(B.AdditiveCondition(_zoo_sum, (2,), (1,)), _zoo_first_doubled, (3,)), 3),
        ("EmbedCondition(Linear net)", B.EmbedCondition(B.AdditiveCondition(eqx.nn.Linear(2, 2, key=jr.fold_in(k, 7)), (2,), (2,)), eqx.nn.Linear(3, 2, key=jr.fold_in(k, 8)), (3,)), 3),
        ("Coupling", _perturb(B.Coupling(k, transformer=B.Affine(), untransformed_dim=1, dim=3, nn_width=4, nn_depth=1), 2), None),
        ("Coupling(spline transformer)", _perturb(B.Coupling(k, transformer=B.RationalQuadraticSpline(knots=3, interval=2.0), untransformed_dim=1, dim=3, nn_width=4, nn_depth=1), 7, scale=0.6), None),
        ("Coupling(cond)", _perturb(B.Coupling(k, transformer=B.Affine(), untransformed_dim=2, dim=3, cond_dim=2, nn_width=4, nn_depth=1), 3), 2),
        ("MaskedAutoregressive(uncond, spline)", _perturb(B.MaskedAutoregressive(k, transformer=B.RationalQuadraticSpline(knots=3, interval=2.0), dim=3, nn_width=5, nn_depth=1), 6), None),
        ("MaskedAutoregressive", _perturb(B.MaskedAutoregressive(k, transformer=B.Affine(), dim=3, cond_dim=2, nn_width=4, nn_depth=1), 2), 2),
    ]
    from flowjax.wrappers import NonTrainable as _NT
    zoo += [
        # loc and scale broadcast against each other: the log-determinant counts every element the scale acts on
        ("Affine(vector loc, scalar scale)", B.Affine(jnp.arange(3.0) * 0.4, 2.0), None), ("Affine(loc (1,4), scale (3,1))", B.Affine(jnp.ones((1, 4)) * 0.3, jnp.array([[1.5], [0.5], [2.0]])), None),
        ("Scale(scalar)", B.Scale(jnp.array(1.7)), None),
        # a Scan whose layers have POINT-DEPENDENT log-determinants (the inverse log-det must be evaluated at the reconstructed point)
        ("Scan(Chain[Affine, Tanh])", B.Scan(eqx.filter_vmap(lambda l_, s_: B.Chain([B.Affine(l_, s_), B.Tanh((2,))]))(jnp.array([[0.1, 0.2], [0.3, -0.4], [-0.2, 0.1]]) * sd, jnp.array([[1.0, 0.7], [0.5, 1.5], [0.9, 1.1]]) * sd)), None),
        # a whole sub-bijection frozen (wrapped in NonTrainable after construction, as the library's own test does)
        ("Chain(frozen sub-bijection)", eqx.tree_at(lambda c_: c_.bijections[0], B.Chain([aff(3), B.Tanh((3,))]), replace_fn=_NT), None),
    ]
    try:
        zoo.append(("BlockAutoregressiveNetwork", B.BlockAutoregressiveNetwork(k, dim=2, depth=1, block_dim=2), None))
    except Exception:  # noqa: BLE001
        pass
    return zoo


def _domain_point(name, shape, rng):
    x = rng.normal(size=shape)
    return jnp.asarray(x)


def rt_c14(tier="quick", first_only=False, count=None, only=None):
    import equinox as eqx
    import io
    import flowjax.distributions as Dm
    import jax.random as jr

    fails, n = [], 0
    rng = np.random.default_rng(0)
    zoo = bijection_zoo()
    # call-history independence: in a fresh process the FIRST use of every method is under jit, the eager call comes second
    # (a value memoised during a trace would leak a tracer into the eager call)
    rng0 = np.random.default_rng(3)
    for name, b, cd in zoo:
        if only and only not in name:
            continue
        x0 = jnp.asarray(rng0.normal(size=b.shape)) * 0.3
        c0 = None if cd is None else jnp.asarray(rng0.normal(size=(cd,)))
        for meth in ("transform_and_log_det", "transform", "inverse_and_log_det", "inverse"):
            if meth.startswith("inverse") and (name in ("BlockAutoregressiveNetwork",) and tier == "quick"):
                continue
            f = getattr(b, meth)
            n += 1
            try:
                first = eqx.filter_jit(f)(x0, c0)
            except NotImplementedError:
                continue
            except Exception as ex:  # noqa: BLE001
                fails.append(dict(what=f"{name}.{meth}: first call under jit failed: {type(ex).__name__}: {str(ex)[:150]}", case=dict(obj=name, method=meth, order="jit-first")))
                continue
            try:
                second = f(x0, c0)
                third = jax.vmap(lambda v: f(v, c0))(jnp.stack([x0, x0]))
            except Exception as ex:  # noqa: BLE001
                fails.append(dict(what=f"{name}.{meth}: a call AFTER a jitted first call failed ({type(ex).__name__}: {str(ex)[:150]}): the result depends on call history", case=dict(obj=name, method=meth, order="jit-first")))
                continue
            if any(not np.allclose(np.asarray(p), np.asarray(q), rtol=1e-9, atol=1e-12, equal_nan=True) for p, q in zip(jax.tree_util.tree_leaves(first), jax.tree_util.tree_leaves(second))):
                fails.append(dict(what=f"{name}.{meth}: eager call after a jitted first call returns different values", case=dict(obj=name, method=meth, order="jit-first")))
        if first_only and fails:
            return fails
    for name, b, cd in zoo:
        if only and only not in name:
            continue
        x = _domain_point(name, b.shape, rng)
        c = None if cd is None else jnp.asarray(rng.normal(size=(cd,)))
        for meth in ("transform", "transform_and_log_det", "inverse", "inverse_and_log_det"):
            if meth.startswith("inverse") and ("tanh)" in name or name in ("Tanh", "BlockAutoregressiveNetwork") and tier == "quick"):
                continue
            f = getattr(b, meth)
            arg = x
            if meth.startswith("inverse"):
                try:
                    arg = b.transform(x, c)
                except Exception:  # noqa: BLE001
                    continue
            n += 1
            try:
                eager = f(arg, c)
            except NotImplementedError:
                continue
            try:
                jitted = eqx.filter_jit(f)(arg, c)
                again = f(arg, c)
            except Exception as ex:  # noqa: BLE001
                fails.append(dict(what=f"{name}.{meth} cannot be traced under jit: {type(ex).__name__}: {str(ex)[:150]}", case=dict(obj=name, method=meth)))
                continue
            le, lj, la = (jax.tree_util.tree_leaves(v) for v in (eager, jitted, again))
            if any(not np.allclose(np.asarray(p), np.asarray(q), rtol=1e-9, atol=1e-12, equal_nan=True) for p, q in zip(le, lj)):
                fails.append(dict(what=f"{name}.{meth}: jit result differs from eager", case=dict(obj=name, method=meth)))
            if any(not np.array_equal(np.asarray(p), np.asarray(q), equal_nan=True) for p, q in zip(le, la)):
                fails.append(dict(what=f"{name}.{meth}: repeated call with the same arguments differs", case=dict(obj=name, method=meth)))
            # vmap over a batch of inputs vs a Python loop
            xs = jnp.stack([arg, arg * 0.5 + 0.1, arg * -0.7])
            if name in ("Exp", "SoftPlus") and meth.startswith("inverse"):
                xs = jnp.abs(xs) + 0.1
            try:
                vm = jax.vmap(lambda v: f(v, c))(xs)
                loop = [f(v, c) for v in xs]
                lv = jax.tree_util.tree_leaves(vm)
                ll = [jnp.stack(z) for z in zip(*[jax.tree_util.tree_leaves(o) for o in loop])]
                if any(not np.allclose(np.asarray(p), np.asarray(q), rtol=1e-8, atol=1e-10, equal_nan=True) for p, q in zip(lv, ll)):
                    fails.append(dict(what=f"{name}.{meth}: vmap over inputs differs from a Python loop", case=dict(obj=name, method=meth)))
            except Exception as ex:  # noqa: BLE001
                fails.append(dict(what=f"{name}.{meth} cannot be vmapped: {type(ex).__name__}: {str(ex)[:150]}", case=dict(obj=name, method=meth)))
        # pytree and serialisation round trips
        n += 1
        leaves, tdef = jax.tree_util.tree_flatten(b)
        b2 = jax.tree_util.tree_unflatten(tdef, leaves)
        buf = io.BytesIO()
        try:
            eqx.tree_serialise_leaves(buf, b)
            buf.seek(0)
            like = jax.tree_util.tree_map(lambda l: jnp.zeros_like(l) if eqx.is_array(l) else l, b)
            b3 = eqx.tree_deserialise_leaves(buf, like)
            for bb, lab in ((b2, "flatten/unflatten"), (b3, "leaf serialisation")):
                if not np.array_equal(np.asarray(bb.transform(x, c)), np.asarray(b.transform(x, c)), equal_nan=True):
                    fails.append(dict(what=f"{name}: behaviour changes after {lab}", case=dict(obj=name)))
        except Exception as ex:  # noqa: BLE001
            fails.append(dict(what=f"{name}: serialisation failed: {type(ex).__name__}: {str(ex)[:150]}", case=dict(obj=name)))
        # loading into an INDEPENDENTLY constructed model of the same architecture (different PRNG key) must reproduce the saved
        # model: every array that determines the behaviour has to be a pytree leaf (none hidden in static fields)
        try:
            other = dict((nm, ob) for nm, ob, _c in bijection_zoo(seed=1)).get(name)
            if other is not None:
                if jax.tree_util.tree_structure(other) != jax.tree_util.tree_structure(b):
                    fails.append(dict(what=f"{name}: two models of the same architecture built with different PRNG keys have different pytree STRUCTURES: some key-dependent array is stored in a static field, so it is neither saved with the leaves nor trained", case=dict(obj=name, check="treedef")))
                else:
                    buf2 = io.BytesIO()
                    eqx.tree_serialise_leaves(buf2, b)
                    buf2.seek(0)
                    loaded = eqx.tree_deserialise_leaves(buf2, other)
                    if not np.allclose(np.asarray(loaded.transform(x, c)), np.asarray(b.transform(x, c)), rtol=1e-12, atol=1e-12, equal_nan=True):
                        fails.append(dict(what=f"{name}: saved leaves loaded into a freshly constructed model of the same architecture do not reproduce the saved model (an array that determines the behaviour is not a pytree leaf)", case=dict(obj=name, check="serialise->fresh")))
        except Exception as ex:  # noqa: BLE001
            fails.append(dict(what=f"{name}: loading into a fresh model failed: {type(ex).__name__}: {str(ex)[:150]}", case=dict(obj=name)))
        if first_only and fails:
            return fails
    # distributions
    dists = [("Normal", Dm.Normal(jnp.array([0.3, -1.0]), jnp.array([1.7, 0.5])), None), ("StudentT", Dm.StudentT(jnp.array([3.0, 5.0])), None), ("Uniform", Dm.Uniform(jnp.zeros(2), jnp.ones(2) * 2), None)]
    for name, d, cd in dists:
        if only and only not in name:
            continue
        n += 1
        key = jr.PRNGKey(1)
        x = d.sample(key, (3,))
        for label, fe, fj in (("log_prob", lambda: d.log_prob(x), lambda: eqx.filter_jit(d.log_prob)(x)), ("sample", lambda: d.sample(key, (4,)), lambda: eqx.filter_jit(lambda kk: d.sample(kk, (4,)))(key)),
                              ("sample_and_log_prob", lambda: d.sample_and_log_prob(key, (2,)), lambda: eqx.filter_jit(lambda kk: d.sample_and_log_prob(kk, (2,)))(key))):
            try:
                e_, j_ = fe(), fj()
                if any(not np.allclose(np.asarray(p), np.asarray(q), rtol=1e-9, atol=1e-12) for p, q in zip(jax.tree_util.tree_leaves(e_), jax.tree_util.tree_leaves(j_))):
                    fails.append(dict(what=f"{name}.{label}: jit result differs from eager", case=dict(obj=name, method=label)))
            except Exception as ex:  # noqa: BLE001
                fails.append(dict(what=f"{name}.{label} cannot be traced under jit: {type(ex).__name__}: {str(ex)[:150]}", case=dict(obj=name, method=label)))
    # the bisection inverter: bounds given as Python floats (defaults), ints or jax arrays; eager == jit == vmap(loop), second call with
    # another input, flatten / unflatten
    if not only or "Bisection" in only or "bisection" in only:
        import flowjax.bijections as B
        from flowjax.bisection_search import AutoregressiveBisectionInverter as _Inv
        tri = B.TriangularAffine(jnp.array([0.2, -0.1, 0.4]), jnp.array([[1.5, 0.0, 0.0], [0.4, 0.8, 0.0], [-0.3, 0.6, 1.2]]))
        ys = jnp.asarray(np.random.default_rng(12).normal(size=(3, 3)))
        for blabel, kw_ in (("default bounds", {}), ("float bounds", dict(lower=-3.0, upper=4.0)), ("int bounds", dict(lower=-3, upper=4)), ("jax array bounds", dict(lower=jnp.array(-3.0), upper=jnp.array(4.0)))):
            n += 1
            case = dict(obj="AutoregressiveBisectionInverter", bounds=blabel)
            try:
                inv_ = _Inv(tol=1e-9, **kw_)
                e0 = np.asarray(inv_(tri, ys[0]))
                want = np.asarray(tri.inverse(ys[0]))
                if not np.allclose(e0, want, atol=1e-6):
                    fails.append(dict(what=f"AutoregressiveBisectionInverter ({blabel}): eager result {e0.tolist()} is not the preimage {want.tolist()}", case=case))
                j0 = np.asarray(eqx.filter_jit(lambda iv, b_, y_: iv(b_, y_))(inv_, tri, ys[0]))
                j1 = np.asarray(eqx.filter_jit(lambda iv, b_, y_: iv(b_, y_))(inv_, tri, ys[1]))
                e1 = np.asarray(inv_(tri, ys[1]))
                vm = np.asarray(jax.vmap(lambda y_: inv_(tri, y_))(ys))
                lp = np.stack([np.asarray(inv_(tri, y_)) for y_ in ys])
                fl, td = jax.tree_util.tree_flatten(inv_)
                r0 = np.asarray(jax.tree_util.tree_unflatten(td, fl)(tri, ys[0]))
                if not (np.allclose(j0, e0, atol=1e-12) and np.allclose(j1, e1, atol=1e-12) and np.allclose(vm, lp, atol=1e-12) and np.allclose(r0, e0, atol=1e-12)):
                    fails.append(dict(what=f"AutoregressiveBisectionInverter ({blabel}): eager / jit / vmap / flatten-unflatten results differ", case=case))
            except Exception as ex:  # noqa: BLE001
                fails.append(dict(what=f"AutoregressiveBisectionInverter ({blabel}) cannot be called / traced: {type(ex).__name__}: {str(ex).splitlines()[0][:140]}", case=case))
            if first_only and fails:
                return fails
    if count is not None:
        count.append(n)
    return fails


# --------------------------------------------------------------------------------------
# C09: dependency structure from autodiff Jacobians after replacing every float leaf (arbitrary trained weights)
def _set_float_leaves(tree, mode, seed):
    import equinox as eqx

    rng = np.random.default_rng(seed)
    params, static = eqx.partition(tree, eqx.is_inexact_array)
    leaves, tdef = jax.tree_util.tree_flatten(params)
    if mode == "positive":
        leaves = [jnp.asarray(rng.uniform(0.5, 1.5, size=l.shape), l.dtype) for l in leaves]
    else:
        leaves = [jnp.asarray(rng.normal(size=l.shape) * 3.0, l.dtype) for l in leaves]
    return eqx.combine(jax.tree_util.tree_unflatten(tdef, leaves), static)


def rt_c09(tier="quick", first_only=False, count=None):
    import itertools as _it
    import flowjax.bijections as B
    import flowjax.masks as M
    import jax.random as jr

    fails, n = [], 0
    key = jr.PRNGKey(0)
    # mask helpers: documented patterns for every size in a small grid
    for b0, b1, nb, k in _it.product((1, 2, 3), (1, 2), (1, 2, 3), (0, 1, -1)):
        n += 1
        m = np.asarray(M.block_tril_mask((b0, b1), nb, k))
        want = np.array([[(r // b0) >= (c // b1) - k for c in range(b1 * nb)] for r in range(b0 * nb)])
        if m.shape != want.shape or not np.array_equal(m, want):
            fails.append(dict(what=f"block_tril_mask(({b0},{b1}), {nb}, k={k}) differs from the documented pattern", case=dict(b0=b0, b1=b1, n=nb, k=k)))
        d = np.asarray(M.block_diag_mask((b0, b1), nb))
        wd = np.array([[(r // b0) == (c // b1) for c in range(b1 * nb)] for r in range(b0 * nb)])
        if not np.array_equal(d, wd):
            fails.append(dict(what=f"block_diag_mask(({b0},{b1}), {nb}) differs from the documented pattern", case=dict(b0=b0, b1=b1, n=nb)))
    for eq in (False, True):
        n += 1
        ir, orr = jnp.array([0, 1, 1, -1]), jnp.array([0, 1, 2])
        m = np.asarray(M.rank_based_mask(ir, orr, eq=eq))
        want = np.array([[(o >= i) if eq else (o > i) for i in np.asarray(ir)] for o in np.asarray(orr)])
        if not np.array_equal(m, want):
            fails.append(dict(what=f"rank_based_mask(eq={eq}) differs from the documented pattern", case=dict(eq=eq)))
    dims = (1, 2, 3) if tier == "quick" else (1, 2, 3, 4)
    for dim, cd, width, depth, mode in _it.product(dims, (None, 2), (1, 2, 5), (0, 1, 2), ("random", "positive")):
        if tier == "quick" and depth == 2 and width == 1:
            continue
        n += 1
        maf = B.MaskedAutoregressive(key, transformer=B.Affine(), dim=dim, cond_dim=cd, nn_width=width, nn_depth=depth)
        maf = _set_float_leaves(maf, mode, dim * 7 + width)
        x = jnp.asarray(np.random.default_rng(1).normal(size=dim))
        c = None if cd is None else jnp.asarray(np.random.default_rng(2).normal(size=cd))
        J = np.asarray(jax.jacobian(lambda v: maf.transform(v, c))(x))
        case = dict(layer="MaskedAutoregressive", dim=dim, cond_dim=cd, width=width, depth=depth, weights=mode)
        if np.any(np.abs(np.triu(J, 1)) > 0):
            fails.append(dict(what=f"MaskedAutoregressive(dim={dim}, cond_dim={cd}, width={width}, depth={depth}, {mode} weights): output i depends on an input after i, J={J.tolist()}", case=case))
        # transformer parameters of coordinate i depend only on inputs before i: with an affine transformer dy_i/dx_i is the scale
        # parameter itself, so it must not change with x_k for any k >= i
        H = np.asarray(jax.jacobian(lambda v: jnp.diag(jax.jacobian(lambda u: maf.transform(u, c))(v)))(x))
        if np.any(np.abs(np.triu(H, 0)) > 0):
            fails.append(dict(what=f"MaskedAutoregressive(dim={dim}, cond_dim={cd}, width={width}, depth={depth}, {mode} weights): the transformer parameters of coordinate i depend on x_k with k >= i (d(dy_i/dx_i)/dx_k = {H.tolist()})", case=case))
        if mode == "positive" and width >= dim and depth >= 1 and dim >= 2:
            Jl = np.tril(J, -1)
            if np.any((np.abs(Jl) == 0) & (np.tril(np.ones_like(J), -1) > 0)):
                fails.append(dict(what=f"MaskedAutoregressive(dim={dim}, width={width}, depth={depth}) with all-positive weights misses a permitted dependency: J={J.tolist()}", case=case))
        if cd is not None and mode == "positive" and depth >= 1:
            Jc = np.asarray(jax.jacobian(lambda cc: maf.transform(x, cc))(c))
            if np.any(Jc == 0):
                fails.append(dict(what=f"MaskedAutoregressive(dim={dim}, cond_dim={cd}, width={width}, depth={depth}): an output does not depend on the condition", case=case))
        if first_only and fails:
            return fails
    for dim, ut, cd, mode in _it.product((2, 3, 4), (1, 2), (None, 2), ("random", "positive")):
        if ut >= dim:
            continue
        n += 1
        cp = _set_float_leaves(B.Coupling(key, transformer=B.Affine(), untransformed_dim=ut, dim=dim, cond_dim=cd, nn_width=4, nn_depth=1), mode, dim + ut)
        x = jnp.asarray(np.random.default_rng(3).normal(size=dim))
        c = None if cd is None else jnp.asarray(np.random.default_rng(4).normal(size=cd))
        y = np.asarray(cp.transform(x, c))
        J = np.asarray(jax.jacobian(lambda v: cp.transform(v, c))(x))
        if not np.array_equal(y[:ut], np.asarray(x)[:ut]) or np.any(J[:ut, ut:] != 0) or np.any(J[ut:, ut:] - np.diag(np.diag(J[ut:, ut:])) != 0):
            fails.append(dict(what=f"Coupling(dim={dim}, untransformed_dim={ut}, cond_dim={cd}, {mode} weights): first block changed or a transformed coordinate depends on another transformed coordinate", case=dict(layer="Coupling", dim=dim, ut=ut)))
    for dim, cd, depth, bd, mode in _it.product((1, 2, 3), (None, 2), (0, 1, 2), (1, 3), ("random", "positive")):
        n += 1
        try:
            bn = B.BlockAutoregressiveNetwork(key, dim=dim, cond_dim=cd, depth=depth, block_dim=bd)
        except Exception:  # noqa: BLE001
            continue
        bn = _set_float_leaves(bn, mode, dim * 3 + depth)
        x = jnp.asarray(np.random.default_rng(5).normal(size=dim))
        c = None if cd is None else jnp.asarray(np.random.default_rng(6).normal(size=cd))
        J = np.asarray(jax.jacobian(lambda v: bn.transform(v, c))(x))
        if np.any(np.triu(J, 1) != 0) or np.any(np.diag(J) <= 0):
            fails.append(dict(what=f"BlockAutoregressiveNetwork(dim={dim}, cond_dim={cd}, depth={depth}, block_dim={bd}, weights={mode}): Jacobian is not lower triangular with positive diagonal, J={J.tolist()}", case=dict(layer="BNAF", dim=dim, depth=depth, block_dim=bd, weights=mode)))
        if first_only and fails:
            return fails
    if count is not None:
        count.append(n)
    return fails


# --------------------------------------------------------------------------------------
# C04 (bounded stand-in): deterministic quadrature of exp(log_prob) and a fixed-seed KS statistic
def c04_configs(tier):
    import flowjax.bijections as B
    import flowjax.distributions as Dm
    import flowjax.flows as Fl
    import jax.random as jr

    k = jr.PRNGKey(0)
    n1, n2 = Dm.Normal(jnp.zeros(1), jnp.ones(1)), Dm.Normal(jnp.zeros(2), jnp.ones(2))
    cfg = [("planar_flow(dim=1, tanh)", _perturb(Fl.planar_flow(k, base_dist=n1, flow_layers=2), 1, 0.7), None),
           ("planar_flow(dim=1, leaky 0.3, invert=False)", _perturb(Fl.planar_flow(k, base_dist=n1, flow_layers=2, negative_slope=0.3, invert=False), 2, 0.7), None),
           ("masked_autoregressive_flow(dim=1)", _perturb(Fl.masked_autoregressive_flow(k, base_dist=n1, flow_layers=2, nn_width=4), 3, 0.5), None),
           ("Transformed(Normal, LeakyTanh o spline o LeakyTanh^-1) dim=1", Dm.Transformed(n1, B.Chain([B.LeakyTanh(1.0, (1,)), B.Vmap(build_spline_perturbed(4, (-1.0, 1.0), 5), axis_size=1), B.Invert(B.LeakyTanh(1.0, (1,)))])), None),
           ("planar_flow(dim=2, leaky 2.0)", _perturb(Fl.planar_flow(k, base_dist=n2, flow_layers=2, negative_slope=2.0), 6, 1.0), None)]
    if tier == "thorough":
        cfg += [("coupling_flow(dim=2)", _perturb(Fl.coupling_flow(k, base_dist=n2, flow_layers=2, nn_width=4), 4, 0.2), None),
                ("masked_autoregressive_flow(dim=2, cond)", _perturb(Fl.masked_autoregressive_flow(k, base_dist=n2, cond_dim=1, flow_layers=2, nn_width=4), 7, 0.5), 1),
                ("coupling_flow(dim=2, invert=False, spline transformer)", _perturb(Fl.coupling_flow(k, base_dist=n2, transformer=B.RationalQuadraticSpline(knots=4, interval=3), flow_layers=2, nn_width=4, invert=False), 8, 0.5), None),
                ("planar_flow(dim=2, tanh, cond)", _perturb(Fl.planar_flow(k, base_dist=n2, cond_dim=1, flow_layers=2, width_size=4, depth=1), 9, 0.5), 1)]
        try:
            cfg.append(("Transformed(Normal, Invert(BlockAutoregressiveNetwork)) dim=2", Dm.Transformed(n2, B.Invert(_perturb(B.BlockAutoregressiveNetwork(k, dim=2, depth=1, block_dim=2), 10, 0.3))), None))
        except Exception:  # noqa: BLE001
            pass
    return cfg


def rt_c04(tier="quick", first_only=False, count=None):
    import jax.random as jr

    fails, n = [], 0
    for name, d, cd in c04_configs(tier):
        dim = d.shape[0]
        for cval in ([None] if cd is None else [jnp.array([0.5]), jnp.array([-1.3])]):
            n += 1
            lp = jax.jit(lambda pts, cval=cval: d.log_prob(pts, cval))
            key = jr.PRNGKey(11)
            try:
                smp = np.asarray(d.sample(key, (20000,), cval))
            except NotImplementedError:
                smp = None  # e.g. planar(tanh) has no analytic inverse: only the density side can be evaluated
            case = dict(config=name, condition=None if cval is None else float(cval[0]))
            if dim == 1:
                g = np.linspace(-60, 60, 120001)
                p = np.exp(np.asarray(lp(jnp.asarray(g)[:, None])))
                total = np.trapezoid(p, g)
                cdf = np.concatenate([[0.0], np.cumsum((p[1:] + p[:-1]) / 2 * np.diff(g))])
                margs = [(g, cdf, smp[:, 0])] if smp is not None else []
            else:
                def quad2(g):
                    X, Y = np.meshgrid(g, g, indexing="ij")
                    pts = jnp.asarray(np.stack([X.ravel(), Y.ravel()], 1))
                    p = np.exp(np.asarray(lp(pts))).reshape(X.shape)
                    tot = np.trapezoid(np.trapezoid(p, g, axis=1), g)
                    mg = []
                    for ax in (0, 1):
                        m = np.trapezoid(p, g, axis=1 - ax)
                        cdf = np.concatenate([[0.0], np.cumsum((m[1:] + m[:-1]) / 2 * np.diff(g))])
                        if smp is not None:
                            mg.append((g, cdf, smp[:, ax]))
                    return tot, mg

                total, margs = quad2(np.linspace(-30, 30, 1201))
                if not abs(total - 1.0) < 5e-3:
                    # mass outside the window is not a defect (layers with nearly flat linear tails spread the density over a
                    # huge range): repeat on a sinh-spaced grid covering +-1.6e4 with fine resolution near the origin
                    total, margs = quad2(np.sinh(np.linspace(-10.4, 10.4, 2401)))
            if not abs(total - 1.0) < 5e-3:
                fails.append(dict(what=f"{name}: exp(log_prob) integrates to {total:.5f} (deterministic quadrature), not 1", case=case))
            for ax, (gg, cdf, s) in enumerate(margs):
                s = np.sort(s)
                F = np.interp(s, gg, cdf / max(cdf[-1], 1e-300))
                emp_hi, emp_lo = np.arange(1, len(s) + 1) / len(s), np.arange(0, len(s)) / len(s)
                D = max(np.max(np.abs(emp_hi - F)), np.max(np.abs(emp_lo - F)))
                if D > 0.035:  # n = 20000: P(D > 0.0232) < 1e-9 under the null; slack for the quadrature of the CDF
                    fails.append(dict(what=f"{name}: samples disagree with the density (KS statistic {D:.4f} on coordinate {ax}, n=20000, threshold 0.035)", case=case))
            if first_only and fails:
                return fails
    if count is not None:
        count.append(n)
    return fails


def rt_c18_flows(tier="quick", first_only=False, count=None):
    """finite log_prob => finite gradients w.r.t. the input and every parameter, for whole flows at magnitudes up to 1e4
    (float64 and float32), with initial and scaled-up weights"""
    import equinox as eqx
    import flowjax.bijections as B
    import flowjax.distributions as Dm
    import flowjax.flows as Fl
    import jax.random as jr

    fails, n = [], 0
    k = jr.PRNGKey(4)
    for dt in (jnp.float64, jnp.float32):
        base = Dm.Normal(jnp.zeros(2, dt), jnp.ones(2, dt))
        cfgs = [("planar_flow(tanh)", lambda: Fl.planar_flow(k, base_dist=base, flow_layers=2), None), ("planar_flow(leaky 0.2)", lambda: Fl.planar_flow(k, base_dist=base, flow_layers=2, negative_slope=0.2), None),
                ("planar_flow(tanh, cond)", lambda: Fl.planar_flow(k, base_dist=base, cond_dim=2, flow_layers=2, width_size=4, depth=1), 2),
                ("masked_autoregressive_flow", lambda: Fl.masked_autoregressive_flow(k, base_dist=base, flow_layers=2, nn_width=4), None),
                ("coupling_flow(spline)", lambda: Fl.coupling_flow(k, base_dist=base, transformer=B.RationalQuadraticSpline(knots=4, interval=2), flow_layers=2, nn_width=4), None)]
        for name, mk, cd in cfgs:
            d0 = mk()
            for wscale in (1.0, 10.0) + ((100.0,) if tier == "thorough" else ()):
                params, static = eqx.partition(d0, eqx.is_inexact_array)
                params = jax.tree_util.tree_map(lambda l: (l * wscale).astype(l.dtype), params)
                for mag in (1.0, 1e2, 1e3, 1e4):
                    n += 1
                    x = jnp.asarray([mag, -0.7 * mag], dt)
                    c = None if cd is None else jnp.asarray([mag, -mag], dt)

                    def lp(p_, x_):
                        return eqx.combine(p_, static).log_prob(x_, c)

                    try:
                        v = lp(params, x)
                        if not bool(jnp.isfinite(v)):
                            continue
                        gp, gx = jax.grad(lp, argnums=(0, 1))(params, x)
                    except Exception as ex:  # noqa: BLE001
                        fails.append(dict(what=f"{name} ({np.dtype(dt).name}, weights x{wscale:g}) at |x| = {mag:g}: gradient raised {type(ex).__name__}: {str(ex)[:100]}", case=dict(flow=name, dtype=np.dtype(dt).name, wscale=wscale, mag=mag)))
                        continue
                    bad = [l for l in jax.tree_util.tree_leaves(gp) + [gx] if not bool(jnp.all(jnp.isfinite(l)))]
                    if bad:
                        fails.append(dict(what=f"{name} ({np.dtype(dt).name}, weights x{wscale:g}): log_prob({np.asarray(x).tolist()}) = {float(v):.6g} is finite but {len(bad)} gradient leaf/leaves (input / parameters) are not", case=dict(flow=name, dtype=np.dtype(dt).name, wscale=wscale, mag=mag)))
                        if first_only:
                            return fails
    if count is not None:
        count.append(n)
    return fails


def rt_simple_fwd(tier="quick", first_only=False, count=None, only=None):
    """documented forward functions of Flip / Permute / AdditiveCondition against independent numpy references, ranks 0-3"""
    import flowjax.bijections as B

    fails, n = [], 0
    rng = np.random.default_rng(33)
    for shape in ((), (3,), (1, 4), (2, 3), (3, 3), (2, 3, 4)):
        if only in (None, "Flip"):
            n += 1
            x = rng.normal(size=shape)
            want = np.flip(x)
            try:
                b = B.Flip(shape)
                got = [np.asarray(b.transform(jnp.asarray(x))), np.asarray(b.transform_and_log_det(jnp.asarray(x))[0])]
                back = np.asarray(b.inverse(jnp.asarray(want)))
                if not all(np.array_equal(g, want) for g in got) or not np.array_equal(back, x):
                    fails.append(dict(what=f"Flip({shape}).transform(x) = {got[0].tolist()} but reversing every axis of x = {x.tolist()} gives {want.tolist()}", case=dict(cls="Flip", shape=list(shape))))
            except Exception as ex:  # noqa: BLE001
                fails.append(dict(what=f"Flip({shape}) raised {type(ex).__name__}: {str(ex)[:120]}", case=dict(cls="Flip", shape=list(shape))))
        if only in (None, "Permute") and int(np.prod(shape, dtype=int)) >= 1 and shape != ():
            n += 1
            size = int(np.prod(shape, dtype=int))
            perm = rng.permutation(size).reshape(shape)
            x = rng.normal(size=shape)
            want = x.ravel()[perm.ravel()].reshape(shape)
            try:
                b = B.Permute(jnp.asarray(perm))
                got = np.asarray(b.transform(jnp.asarray(x)))
                back = np.asarray(b.inverse(jnp.asarray(want)))
                if not np.array_equal(got, want) or not np.array_equal(back, x):
                    fails.append(dict(what=f"Permute(perm of shape {shape}).transform(x) = {got.tolist()}; flattened x gathered at perm gives {want.tolist()}", case=dict(cls="Permute", shape=list(shape))))
            except Exception as ex:  # noqa: BLE001
                fails.append(dict(what=f"Permute(shape {shape}) raised {type(ex).__name__}: {str(ex)[:120]}", case=dict(cls="Permute", shape=list(shape))))
        if first_only and fails:
            return fails
    if count is not None:
        count.append(n)
    return fails


def rt_triangular(tier="quick", first_only=False, count=None):
    """TriangularAffine after arbitrary updates of every inexact leaf: triangular with positive diagonal, constructor reproduces
    the triangle of arr, round trips, same point, log-dets vs autodiff"""
    import flowjax.bijections as B
    from flowjax.wrappers import unwrap

    fails, n = [], 0
    rng = np.random.default_rng(21)
    for lower in (True, False):
        for dim in (1, 2, 3, 4):
            for seed in range(2 if tier == "quick" else 8):
                arr = rng.normal(size=(dim, dim)) * 2
                arr[np.diag_indices(dim)] = np.abs(np.diag(arr)) + 0.05
                loc = rng.normal(size=(dim,))
                b0 = B.TriangularAffine(jnp.asarray(loc), jnp.asarray(arr), lower=lower)
                T0 = np.asarray(unwrap(b0).triangular)
                want = np.tril(arr) if lower else np.triu(arr)
                n += 1
                case = dict(lower=lower, dim=dim, seed=seed)
                if not np.allclose(T0, want, rtol=1e-9, atol=1e-9):
                    fails.append(dict(what=f"TriangularAffine(lower={lower}, dim={dim}): constructed matrix {T0.tolist()} does not reproduce the triangle of arr {want.tolist()}", case=case))
                b = _perturb(b0, 100 + seed, scale=1.5)
                T = np.asarray(unwrap(b).triangular)
                other = np.triu(T, 1) if lower else np.tril(T, -1)
                if np.any(other != 0):
                    fails.append(dict(what=f"TriangularAffine(lower={lower}, dim={dim}) after an update of every trainable leaf: unwrapped matrix is not triangular: {T.tolist()}", case=case))
                if np.any(np.diag(T) <= 0):
                    fails.append(dict(what=f"TriangularAffine(lower={lower}, dim={dim}) after an update: diagonal {np.diag(T).tolist()} not strictly positive", case=case))
                x = jnp.asarray(rng.normal(size=(dim,)))
                y = b.transform(x)
                y2, ld = b.transform_and_log_det(x)
                xb = b.inverse(y)
                xb2, ldi = b.inverse_and_log_det(y)
                J = np.asarray(jax.jacobian(b.transform)(x), float)
                cond = max(1.0, float(np.linalg.cond(J)))
                if not np.allclose(np.asarray(xb), np.asarray(x), rtol=1e-9 * cond, atol=1e-9 * cond):
                    fails.append(dict(what=f"TriangularAffine(lower={lower}, dim={dim}) after an update: inverse(transform(x)) = {np.asarray(xb).tolist()} for x = {np.asarray(x).tolist()}", case=case))
                if not np.allclose(np.asarray(y2), np.asarray(y)) or not np.allclose(np.asarray(xb2), np.asarray(xb)):
                    fails.append(dict(what=f"TriangularAffine(lower={lower}, dim={dim}): '..._and_log_det' variant returns a different point", case=case))
                la = np.linalg.slogdet(J)[1]
                if not _close(ld, la, tol=1e-7):
                    fails.append(dict(what=f"TriangularAffine(lower={lower}, dim={dim}) after an update: forward log-det {float(ld)!r} but autodiff log|det J| = {float(la)!r}", case=case))
                if not _close(ldi, -la, tol=1e-7):
                    fails.append(dict(what=f"TriangularAffine(lower={lower}, dim={dim}) after an update: inverse log-det {float(ldi)!r} but minus the forward value is {float(-la)!r}", case=case))
                if first_only and fails:
                    return fails
    if count is not None:
        count.append(n)
    return fails


# --------------------------------------------------------------------------------------
# contract B at run time for EVERY buildable class (zoo): round trips, same point, log-det vs autodiff, inverse log-det
def rt_zoo_B(prop, first_only=False, count=None, only=None):
    fails, n = [], 0
    rng = np.random.default_rng(5)
    for name, b, cd in bijection_zoo():
        if only and only not in name:
            continue
        c = None if cd is None else jnp.asarray(rng.normal(size=(cd,)))
        pts = [rng.normal(size=b.shape), rng.normal(size=b.shape) * 2.5, np.zeros(b.shape) + 0.25]
        for x in pts:
            n += 1
            x = jnp.asarray(x)
            case = dict(obj=name)
            try:
                y = b.transform(x, c)
                y2, ld = b.transform_and_log_det(x, c)
            except NotImplementedError:
                continue
            except Exception as ex:  # noqa: BLE001
                fails.append(dict(what=f"{name}: transform of a point of the declared shape raised {type(ex).__name__}: {str(ex)[:200]}", case=case))
                if first_only:
                    return fails
                continue
            has_inv = True
            try:
                xb = b.inverse(y, c)
                xb2, ldi = b.inverse_and_log_det(y, c)
            except NotImplementedError:
                has_inv = False
            except Exception as ex:  # noqa: BLE001
                fails.append(dict(what=f"{name}: inverse of the forward image of x = {np.asarray(x).ravel()[:4].tolist()} raised {type(ex).__name__}: {str(ex)[:200]}", case=case))
                if first_only:
                    return fails
                continue
            J = jax.jacobian(lambda v: b.transform(v, c).ravel())(x).reshape(int(np.prod(b.shape, dtype=int)), -1) if b.shape != () else jnp.reshape(jax.jacobian(lambda v: b.transform(v, c))(x), (1, 1))
            sign, logabs = np.linalg.slogdet(np.asarray(J, float))
            tol = 1e-5 if name == "BlockAutoregressiveNetwork" else 1e-7
            if prop == "C01":
                if not np.allclose(np.asarray(y2), np.asarray(y), rtol=1e-12, atol=1e-12):
                    fails.append(dict(what=f"{name}: transform_and_log_det returns a different point than transform", case=case))
                if has_inv:
                    cond = max(1.0, float(np.linalg.cond(np.asarray(J, float)))) if np.all(np.isfinite(np.asarray(J))) else 1.0
                    if not np.allclose(np.asarray(xb), np.asarray(x), rtol=tol * cond, atol=tol * cond):
                        fails.append(dict(what=f"{name}: inverse(transform(x)) = {np.asarray(xb).ravel()[:4].tolist()} for x = {np.asarray(x).ravel()[:4].tolist()}", case=case))
                    if not np.allclose(np.asarray(xb2), np.asarray(xb), rtol=1e-12, atol=1e-12):
                        fails.append(dict(what=f"{name}: inverse_and_log_det returns a different point than inverse", case=case))
                    fw = b.transform(xb, c)
                    if not np.allclose(np.asarray(fw), np.asarray(y), rtol=tol * 10, atol=tol * 10):
                        fails.append(dict(what=f"{name}: transform(inverse(y)) != y", case=case))
            if prop == "C02":
                if jnp.shape(ld) != ():
                    fails.append(dict(what=f"{name}: forward log-det has shape {jnp.shape(ld)}", case=case))
                elif np.isfinite(logabs) and not _close(ld, logabs, tol=1e-6):
                    fails.append(dict(what=f"{name}: forward log-det {float(ld)!r} but log|det J| of transform by autodiff is {float(logabs)!r}", case=case))
                if has_inv:
                    _, ldf = b.transform_and_log_det(xb, c)
                    if jnp.shape(ldi) != () or not _close(ldi, -ldf, tol=1e-6):
                        fails.append(dict(what=f"{name}: inverse log-det {np.asarray(ldi).tolist()!r} but minus the forward log-det at the inverse image is {float(-ldf)!r}", case=case))
            if first_only and fails:
                return fails
    if count is not None:
        count.append(n)
    return fails


def rt_c08_definitions(first_only=False, count=None):
    """combinators against a reference interpreter that implements their definitions over the children's own methods"""
    import equinox as eqx
    import flowjax.bijections as B

    fails, n = [], 0
    rng = np.random.default_rng(9)
    a1 = B.Affine(jnp.array([0.3, -1.0, 0.5]), jnp.array([1.7, 0.5, 2.0]))
    a2 = B.Chain([B.Tanh((3,)), B.Affine(jnp.array([0.1, 0.2, 0.3]), jnp.array([0.8, 0.9, 1.1]))])
    perm = B.Permute(jnp.array([2, 0, 1]))
    addc = B.AdditiveCondition(lambda c: 0.5 * jnp.sum(c) * jnp.arange(1.0, 4.0), (3,), (2,))
    x = jnp.asarray(rng.normal(size=3))
    c = jnp.asarray(rng.normal(size=2))

    def chk(name, got, want):
        nonlocal n
        n += 1
        lg, lw = jax.tree_util.tree_leaves(got), jax.tree_util.tree_leaves(want)
        if len(lg) != len(lw) or any(np.shape(p) != np.shape(q) or not np.allclose(np.asarray(p), np.asarray(q), rtol=1e-9, atol=1e-12, equal_nan=True) for p, q in zip(lg, lw)):
            fails.append(dict(what=f"{name}: {[np.asarray(v).tolist() for v in lg]} but the definition over the children gives {[np.asarray(v).tolist() for v in lw]}", case=dict(check=name)))

    ch = B.Chain([a1, addc, a2, perm])
    ref = x
    ld = 0.0
    for b in (a1, addc, a2, perm):
        ref, l = b.transform_and_log_det(ref, c if b.cond_shape is not None else None)
        ld = ld + l
    chk("Chain.transform_and_log_det == fold of children in order", ch.transform_and_log_det(x, c), (ref, ld))
    yb = ref
    for b in (perm, a2, addc, a1):
        yb = b.inverse(yb, c if b.cond_shape is not None else None)
    chk("Chain.inverse == children undone in reverse order", ch.inverse(ref, c), yb)
    chk("Chain[1:3] keeps the function of the slice", ch[1:3].transform(x, c), a2.transform(addc.transform(x, c)))
    chk("Chain[0] is the first child", ch[0].transform(x), a1.transform(x))
    nested = B.Chain([a1, B.Chain([addc, B.Chain([a2])]), perm])
    chk("merge_chains never changes the function", nested.merge_chains().transform(x, c), nested.transform(x, c))
    locs, scs = jnp.array([[0.1, 0.2, 0.3], [0.3, -0.4, 0.0], [1.0, 0.5, -0.5]]), jnp.array([[1.0, 2.0, 0.5], [0.5, 1.5, 1.0], [2.0, 0.7, 1.3]])
    sc = B.Scan(eqx.filter_vmap(B.Affine)(locs, scs))
    chn = B.Chain([B.Affine(l, s) for l, s in zip(locs, scs)])
    chk("Scan == Chain of the unstacked layers (forward)", sc.transform_and_log_det(x), chn.transform_and_log_det(x))
    chk("Scan == Chain of the unstacked layers (inverse)", sc.inverse_and_log_det(x), chn.inverse_and_log_det(x))
    vm = B.Vmap(eqx.filter_vmap(B.Affine)(locs, scs), in_axes=eqx.if_array(0))
    X = jnp.asarray(rng.normal(size=(3, 3)))
    chk("Vmap (mapped parameters) applies slice by slice", vm.transform(X), jnp.stack([B.Affine(l, s).transform(xx) for l, s, xx in zip(locs, scs, X)]))
    vb = B.Vmap(addc, axis_size=4, in_axes_condition=0)
    Xb, Cb = jnp.asarray(rng.normal(size=(4, 3))), jnp.asarray(rng.normal(size=(4, 2)))
    chk("Vmap (broadcast parameters, mapped condition)", vb.transform_and_log_det(Xb, Cb), (jnp.stack([addc.transform(xx, cc) for xx, cc in zip(Xb, Cb)]), jnp.zeros(())))
    vb2 = B.Vmap(addc, axis_size=4)
    chk("Vmap (broadcast condition)", vb2.transform(Xb, c), jnp.stack([addc.transform(xx, c) for xx in Xb]))
    for axis in (0, 1, -1):
        parts = [B.Affine(jnp.full((2, 3), 0.5), jnp.full((2, 3), 2.0)), B.Exp((2, 3))]
        st = B.Stack(parts, axis=axis)
        Xs = jnp.asarray(rng.normal(size=st.shape))
        xs_ = [jnp.take(Xs, j, axis=axis) for j in range(2)]
        chk(f"Stack(axis={axis}) applies each part to its slice", st.transform_and_log_det(Xs), (jnp.stack([p.transform(v) for p, v in zip(parts, xs_)], axis), sum(p.transform_and_log_det(v)[1] for p, v in zip(parts, xs_))))
        pc = [B.Affine(jnp.full((2, 2), 0.5), jnp.full((2, 2), 2.0)), B.Exp((2, 2))]
        sizes = [2, 2]
        co = B.Concatenate(pc, axis=axis)
        Xc = jnp.asarray(rng.normal(size=co.shape))
        xc_ = jnp.split(Xc, [2], axis=axis)
        chk(f"Concatenate(axis={axis}) applies each part to its slice", co.transform(Xc), jnp.concatenate([p.transform(v) for p, v in zip(pc, xc_)], axis))
    x5 = jnp.asarray(rng.normal(size=5))
    for idxs, sub in ((1, ()), (slice(1, 3), (2,)), (jnp.array([0, 3]), (2,)), (jnp.array([True, False, True, False, True]), (3,))):
        pb = B.Partial(B.Exp(sub), idxs, (5,))
        want = np.asarray(x5).copy()
        want[np.asarray(idxs) if not isinstance(idxs, (int, slice)) else idxs] = np.exp(np.asarray(x5)[np.asarray(idxs) if not isinstance(idxs, (int, slice)) else idxs])
        chk(f"Partial({type(idxs).__name__} index) changes only the indexed entries", pb.transform(x5), want)
    inv = B.Invert(a2)
    xi_ = a2.transform(x)
    chk("Invert swaps the directions", (inv.transform(xi_), inv.inverse(x)), (a2.inverse(xi_), a2.transform(x)))
    rs = B.Reshape(B.Affine(jnp.arange(6.0), jnp.arange(1.0, 7.0)), (2, 3))
    X6 = jnp.asarray(rng.normal(size=(2, 3)))
    chk("Reshape only re-presents the inputs", rs.transform(X6), (X6.ravel() * jnp.arange(1.0, 7.0) + jnp.arange(6.0)).reshape(2, 3))
    emb = B.EmbedCondition(addc, lambda cc: cc[:2] * 2.0, (4,))
    c4 = jnp.asarray(rng.normal(size=4))
    chk("EmbedCondition passes the embedded condition", emb.transform(x, c4), addc.transform(x, c4[:2] * 2.0))
    # an unconditional bijection ignores a supplied condition (inside a conditional Chain / Concatenate / Stack every child gets it)
    X4 = jnp.asarray(rng.normal(size=(2, 2)))
    uncond = [("Reshape", B.Reshape(B.Affine(jnp.arange(4.0), jnp.arange(1.0, 5.0)), (2, 2)), X4), ("Invert", B.Invert(a1), x), ("Chain", B.Chain([a1, a2]), x), ("Concatenate", B.Concatenate([a1, a2]), jnp.concatenate([x, x])),
              ("Stack", B.Stack([a1, a2]), jnp.stack([x, -x])), ("Partial", B.Partial(B.Exp((2,)), slice(0, 2), (3,)), x), ("Scan", sc, x), ("Permute", perm, x), ("Vmap", vm, jnp.stack([x, x, -x]))]
    for nm, ub, xx in uncond:
        for meth in ("transform", "inverse", "transform_and_log_det", "inverse_and_log_det"):
            try:
                got = getattr(ub, meth)(xx, c)
            except Exception as ex:  # noqa: BLE001
                n += 1
                fails.append(dict(what=f"unconditional {nm}.{meth}(x, condition) raised {type(ex).__name__}: {str(ex)[:120]} (an unconditional bijection ignores the condition)", case=dict(check=f"{nm} ignores condition")))
                continue
            chk(f"unconditional {nm}.{meth} ignores a supplied condition", got, getattr(ub, meth)(xx))
    rchain = B.Chain([B.Reshape(B.Affine(jnp.arange(3.0), jnp.arange(1.0, 4.0)), (3,)), addc])
    try:
        chk("Chain([Reshape(unconditional), AdditiveCondition]) folds its children", rchain.transform(x, c), addc.transform(x * jnp.arange(1.0, 4.0) + jnp.arange(3.0), c))
    except Exception as ex:  # noqa: BLE001
        n += 1
        fails.append(dict(what=f"Chain([Reshape(unconditional), AdditiveCondition]).transform(x, condition) raised {type(ex).__name__}: {str(ex)[:120]}", case=dict(check="Reshape in conditional Chain")))
    if count is not None:
        count.append(n)
    return fails
