"""Run-time contract checks on the REAL flowjax code (float64).  Used for (a) replaying the
verifier's counter-models, (b) bounded stand-ins / conformance grids (L3).  Each check returns
None if the contract clause holds on the case, else a dict describing the failure.
Never counted as proof."""
from __future__ import annotations

import json
import math
import os
import subprocess
import sys

import numpy as np

import jax

jax.config.update("jax_enable_x64", True)
import jax.numpy as jnp  # noqa: E402

EPS = float(np.finfo(np.float64).eps)


def fnum(x):
    """model value (int / 'p/q' / decimal string) -> float"""
    if isinstance(x, (int, float)):
        return float(x)
    if isinstance(x, str):
        x = x.rstrip("?")
        if "/" in x:
            p, q = x.split("/")
            return float(int(p)) / float(int(q))
        return float(x)
    raise ValueError(x)


# --------------------------------------------------------------------------------------
# C10 bisection
FUNCS = {
    "linear_steep": lambda r: (lambda x: 1e3 * (x - r)),
    "linear_flat": lambda r: (lambda x: 1e-3 * (x - r)),
    "cubic": lambda r: (lambda x: (x - r) ** 3 + (x - r)),
    "sinh": lambda r: (lambda x: jnp.sinh(jnp.clip(x - r, -50, 50)) + (x - r)),
    "saturating": lambda r: (lambda x: jnp.tanh(x - r) + 1e-3 * (x - r)),
    "kinked": lambda r: (lambda x: jnp.where(x < r, 0.1 * (x - r), 5.0 * (x - r))),
}


def table_fn(table):
    """strictly increasing piecewise-linear interpolant through (x, f(x)) points, slope 1 outside"""
    pts = sorted({(fnum(a), fnum(b)) for a, b in table})
    xs, ys = [], []
    for x, y in pts:
        if xs and x == xs[-1]:
            continue
        xs.append(x)
        ys.append(y)
    for i in range(1, len(xs)):
        if not ys[i] > ys[i - 1]:
            return None
    xs_a, ys_a = jnp.array(xs), jnp.array(ys)

    def f(x):
        inner = jnp.interp(x, xs_a, ys_a)
        return jnp.where(x < xs_a[0], ys_a[0] + (x - xs_a[0]), jnp.where(x > xs_a[-1], ys_a[-1] + (x - xs_a[-1]), inner))

    return f


def _bisect_case(case):
    """executed in a child process (so that a non-terminating loop can be detected by timeout)"""
    from flowjax import bisection_search as bs

    if case.get("table"):
        f = table_fn(case["table"])
        if f is None:
            return dict(skip="model of f is not strictly increasing on its points (spurious model)")
    else:
        f = FUNCS[case["func"]](case["root"])
    r, lo, hi = case["root"], case["lower"], case["upper"]
    which = case.get("fn", "_bisection_search")
    if which == "_adapt_interval_to_include_root":
        a, b, n = bs._adapt_interval_to_include_root(f, lower=jnp.asarray(lo), upper=jnp.asarray(hi))
        a, b = float(a), float(b)
        ok = a <= b and float(f(a)) <= 0 <= float(f(b)) and a - 1e-9 * max(1, abs(r)) <= r <= b + 1e-9 * max(1, abs(r))
        return dict(ok=bool(ok), observed=dict(lower=a, upper=b, iterations=int(n), f_lower=float(f(a)), f_upper=float(f(b))), required="lower <= root <= upper, f(lower) <= 0 <= f(upper)")
    tol, mi = case["tol"], case["max_iter"]
    a, b, _ = bs._adapt_interval_to_include_root(f, lower=jnp.asarray(lo), upper=jnp.asarray(hi))
    W = float(b) - float(a)
    root, n_adapt, n_it = bs._bisection_search(f, lower=jnp.asarray(lo), upper=jnp.asarray(hi), tol=tol, max_iter=mi)
    root = float(root)
    bound = max(tol, W / 2.0 ** (mi + 1)) + 8 * EPS * max(1.0, abs(r), abs(lo), abs(hi))
    err = abs(root - r)
    return dict(ok=bool(err <= bound), observed=dict(root=root, err=err, bound=bound, iterations=int(n_it), adapt_iterations=int(n_adapt), bracket_width=W),
                required="|root - r| <= max(tol, W/2^(max_iter+1)) (+ float64 resolution at the root's magnitude)")


def rt_bisection(case, timeout=60):
    p = None
    try:
        p = subprocess.run([sys.executable, os.path.abspath(__file__), "--bisect-case", json.dumps(case)], capture_output=True, text=True, timeout=timeout,
                           env=dict(os.environ, JAX_PLATFORMS="cpu"))
    except subprocess.TimeoutExpired:
        return dict(what=f"search did not terminate within {timeout}s", case=case)
    if p.returncode != 0:
        return dict(what="real code raised: " + (p.stderr or "")[-400:], case=case, error=True)
    res = json.loads(p.stdout.strip().splitlines()[-1])
    if res.get("skip"):
        return dict(skip=res["skip"])
    if not res["ok"]:
        return dict(what=f"required {res['required']}; observed {res['observed']}", case=case, observed=res["observed"])
    return None


def rt_bisection_batch(cases):
    """many cases in ONE child process (grid mode); returns list of failures"""
    out = []
    for c in cases:
        try:
            res = _bisect_case(c)
        except Exception as ex:  # noqa: BLE001
            out.append(dict(what=f"real code raised {type(ex).__name__}: {ex}", case=c, error=True))
            continue
        if res.get("skip"):
            continue
        if not res["ok"]:
            out.append(dict(what=f"required {res['required']}; observed {res['observed']}", case=c, observed=res["observed"]))
    return out


if __name__ == "__main__":
    if len(sys.argv) == 3 and sys.argv[1] == "--bisect-case":
        print(json.dumps(_bisect_case(json.loads(sys.argv[2]))))


# --------------------------------------------------------------------------------------
# C16 training loops driven by a scripted loss and a counting optimiser
def counting_optimizer():
    import optax

    def init(params):
        return ()

    def update(grads, state, params=None):
        return jax.tree_util.tree_map(lambda g: jnp.ones_like(g), grads), state

    return optax.GradientTransformation(init, update)


def rt_variational(table, steps, return_best):
    """real fit_to_variational_target; parameters are a scalar counter = number of updates so far (their 'version');
    the loss of version v is table[v]."""
    from flowjax.train.variational_fit import fit_to_variational_target

    tab = jnp.asarray(list(table) + [max(table) + 1.0] * 2, dtype=float)

    def loss_fn(params, static, key):
        v = jnp.round(jax.lax.stop_gradient(params)).astype(int)
        return tab[v] + 0.0 * params

    out, losses = fit_to_variational_target(jax.random.PRNGKey(0), jnp.zeros(()), loss_fn, steps=steps, optimizer=counting_optimizer(), return_best=return_best, show_progress=False)
    ver = int(round(float(out)))
    exp_losses = [float(x) for x in table[:steps]]
    problems = []
    if len(losses) != steps:
        problems.append(f"recorded {len(losses)} losses for {steps} steps")
    elif [float(x) for x in losses] != exp_losses:
        problems.append(f"recorded losses {losses} != losses evaluated at versions 0..steps-1 {exp_losses}")
    if return_best and steps > 0:
        m = min(exp_losses)
        if not (0 <= ver < steps and exp_losses[ver] == m):
            problems.append(f"return_best=True returned the parameters of version {ver} (loss {tab[ver]:.6g}); the minimum recorded loss {m:.6g} was evaluated at version {exp_losses.index(m)}")
    if return_best and steps == 0 and ver != 0:
        problems.append(f"steps=0 returned version {ver}")
    if not return_best and ver != steps:
        problems.append(f"return_best=False returned version {ver} after {steps} steps")
    if problems:
        return dict(what="; ".join(problems), case=dict(losses=list(map(float, table)), steps=steps, return_best=return_best))
    return None


_FD_CACHE = {}


def rt_fit_to_data(table, max_epochs, max_patience, return_best):
    """real fit_to_data with one train and one validation batch per epoch; parameters = update counter (version);
    the validation loss of epoch e (evaluated with version e+1) is table[e] (pairwise distinct values)."""
    from flowjax.train.data_fit import fit_to_data

    tab = jnp.asarray([0.0] + list(table) + [max(table) + 1.0 + i for i in range(3)], dtype=float)
    key = ("loss",)
    if key not in _FD_CACHE:
        def loss_fn(params, static, x, condition=None, key=None):
            v = jnp.round(jax.lax.stop_gradient(params["v"])).astype(int)
            return params["tab"][v] + 0.0 * params["v"] + 0.0 * x.sum()

        _FD_CACHE[key] = loss_fn
    loss_fn = _FD_CACHE[key]
    import equinox as eqx
    from flowjax.wrappers import NonTrainable

    dist = {"v": jnp.zeros(()), "tab": NonTrainable(tab)}

    def loss2(params, static, x, condition=None, key=None):
        d = eqx.combine(params, static)
        v = jnp.round(jax.lax.stop_gradient(d["v"])).astype(int)
        return d["tab"].tree[v] + 0.0 * d["v"] + 0.0 * x.sum()

    if "loss2" not in _FD_CACHE:
        _FD_CACHE["loss2"] = loss2
    x = jnp.arange(4.0)[:, None]
    out, losses = fit_to_data(jax.random.PRNGKey(0), dist, x, loss_fn=_FD_CACHE["loss2"], max_epochs=max_epochs, max_patience=max_patience, batch_size=10, val_prop=0.5,
                              optimizer=counting_optimizer(), return_best=return_best, show_progress=False)
    ver = int(round(float(out["v"])))
    # reference from the property statement (distinct losses)
    E = 0
    for e in range(max_epochs):
        E = e + 1
        a = min(range(e + 1), key=lambda i: table[i])
        if e - a > max_patience:
            break
    exp_ver = (min(range(E), key=lambda i: table[i]) + 1 if E > 0 else 0) if return_best else E
    got_val = [float(v) for v in losses["val"]]
    problems = []
    if len(losses["val"]) != E or len(losses["train"]) != E:
        problems.append(f"ran {len(losses['val'])} epochs (train {len(losses['train'])} / val {len(losses['val'])} losses recorded); the documented rule gives {E}")
    elif got_val != [float(t) for t in table[:E]]:
        problems.append(f"validation losses {got_val} != scripted {table[:E]}")
    if ver != exp_ver:
        problems.append(f"returned the parameters after {ver} updates; expected those after {exp_ver} (return_best={return_best})")
    if problems:
        return dict(what="; ".join(problems), case=dict(val_losses=[float(t) for t in table], max_epochs=max_epochs, max_patience=max_patience, return_best=return_best))
    return None
