"""Replay a verifier counter-model on the real code.  usage: replay_real.py <replay.json>
Rewrites the file with reproduced / observed.  exit 1 if reproduced, 0 if not, 2 on harness error."""
import json
import os
import sys
import traceback

sys.path.insert(0, os.path.dirname(os.path.abspath(__file__)))
REPO = os.environ.get("FJVC_REPO", "/repo")
sys.path.insert(0, REPO)

import rtcontracts as rt  # noqa: E402

HANDLERS = {}


def handler(kind):
    def deco(f):
        HANDLERS[kind] = f
        return f

    return deco


@handler("bisection")
def h_bisection(rec):
    m, rp = rec["model"] or {}, rec["replay"]
    if rp["fn"] == "AutoregressiveBisectionInverter.__check_init__":
        from flowjax.bisection_search import AutoregressiveBisectionInverter as Inv

        cands = []
        try:
            cands.append((rt.fnum(m["lower"]), rt.fnum(m["upper"]), rt.fnum(m["tol"]), int(m["max_iter"])))
        except Exception:  # noqa: BLE001
            pass
        cands += [(-1.0, 1.0, 1e-7, 0), (-1.0, 1.0, 1e-7, 1), (0.0, 1e-9, 1e-12, 200), (-1e6, -1e5, 0.5, 200), (5.0, 6.0, 10.0, 3), (-10, 10, 1e-7, 200)]
        for lo_, hi_, tol_, mi_ in cands:
            if lo_ < hi_ and tol_ > 0 and mi_ >= 1:
                try:
                    Inv(lower=lo_, upper=hi_, tol=tol_, max_iter=mi_)
                except Exception as ex:  # noqa: BLE001
                    return True, f"AutoregressiveBisectionInverter(lower={lo_}, upper={hi_}, tol={tol_}, max_iter={mi_}) is a usable configuration but was rejected: {type(ex).__name__}: {ex}"
        return False, "model point and a grid of usable configurations were accepted by the real constructor"
    if rp["fn"] in ("_autoregressive_bisection_search", "AutoregressiveBisectionInverter"):
        import grids

        fails = grids.c10_cases("quick", 0, only_fn=rp["fn"])
        fails = [f for f in fails if "int_bounds" not in str(f.get("case")) or rp.get("int_bounds")] + [f for f in fails if "int_bounds" in str(f.get("case")) and not rp.get("int_bounds")]
        if fails:
            return True, fails[0]["what"] + f" [case {fails[0]['case']}]"
        return False, "triangular-map grid of the coordinate-wise driver (float and integer-typed bounds) passed on the real code"
    try:
        case = dict(fn=rp["fn"], root=rt.fnum(m["r"]), lower=rt.fnum(m["lo0"]), upper=rt.fnum(m["hi0"]), table=m.get("fn:f"))
        if rp["fn"] == "_bisection_search":
            case.update(tol=rt.fnum(m["tol"]), max_iter=int(m["max_iter"]))
    except Exception as ex:  # noqa: BLE001
        return None, f"cannot concretise model: {ex}"
    tried = []
    if case["lower"] < case["upper"] and (rp["fn"] != "_bisection_search" or (case["tol"] > 0 and 0 <= case["max_iter"] <= 2000)):
        r = rt.rt_bisection(case)
        tried.append("model point")
        if r is not None and not r.get("skip"):
            return True, r["what"]
    # the model of an uninterpreted f may be non-standard: search the bounded grid of the same function
    import grids

    fails = grids.c10_cases("quick", 0, only_fn=rp["fn"])
    if fails:
        return True, fails[0]["what"] + f" [case {fails[0]['case']}]"
    return False, f"model point and bounded grid of {rp['fn']} passed on the real code ({tried})"


@handler("variational_fit")
def h_variational(rec):
    m = rec["model"] or {}
    try:
        steps = int(m["steps"])
        rb = bool(m["return_best"])
        tab = {int(a): rt.fnum(v) for a, v in m.get("fn:L", [])}
    except Exception as ex:  # noqa: BLE001
        return None, f"cannot concretise model: {ex}"
    if 0 <= steps <= 40:
        base = max(tab.values(), default=0.0) + 1.0
        # distinct fill-in values above every scripted one (the model leaves them unconstrained)
        table = [tab.get(i, base + i) for i in range(steps + 1)]
        r = rt.rt_variational(table, steps, rb)
        if r is not None:
            return True, r["what"] + f" [losses {table[:steps]}]"
    import grids

    fails = grids.c16_variational("quick", 0)
    if fails:
        return True, fails[0]["what"] + f" [case {fails[0]['case']}]"
    return False, "model history and the bounded grid of loss orderings passed on the real code"


@handler("fit_to_data_history")
def h_fit_to_data(rec):
    m = rec["model"] or {}
    try:
        me, mp, rb = int(m["max_epochs"]), int(m["max_patience"]), bool(m["return_best"])
        tab = {int(a): rt.fnum(v) for a, v in m.get("fn:V", []) if int(a) >= 0}
    except Exception as ex:  # noqa: BLE001
        return None, f"cannot concretise model: {ex}"
    if 0 <= me <= 12 and 0 <= mp <= 12:
        vals = sorted(set(tab.values()))
        base = (vals[-1] if vals else 0.0) + 1.0
        table, used = [], set()
        for i in range(me + 1):
            v = tab.get(i, base + i)
            while v in used:
                v += 0.5
            used.add(v)
            table.append(v)
        r = rt.rt_fit_to_data(table, me, mp, rb)
        if r is not None:
            return True, r["what"] + f" [case {r['case']}]"
    import grids

    fails = grids.c16_fit_to_data("quick", 0)
    if fails:
        return True, fails[0]["what"] + f" [case {fails[0]['case']}]"
    return False, "model history and the bounded grid of loss orderings passed on the real code"


@handler("leaf")
def h_leaf(rec):
    m, rp, prop = rec["model"] or {}, rec["replay"], rec["property"]
    cname = rp["cls"]
    prm = {k: v for k, v in m.items() if k not in ("x", "y") and not k.startswith("fn:")}
    tried = []
    try:
        x = rt.fnum(m["x"]) if rp.get("input") == "x" else None
        y = rt.fnum(m["y"]) if rp.get("input") == "y" else None
        if rp.get("method") == "inverse" and rp.get("input") == "x":
            pass
        fails = rt.rt_leaf(prop, cname, prm, x=x, y=y)
        tried.append(f"model point x={x} y={y} params={prm}")
        if fails:
            return True, f"{cname}({prm}): " + "; ".join(fails)
    except Exception as ex:  # noqa: BLE001
        tried.append(f"model point not usable ({type(ex).__name__}: {ex})")
    # models of uninterpreted exp/log/tanh may be non-standard: search the boundary-directed grid of this class
    if os.environ.get("FJVC_REPLAY_SKIP_GRID") == "1":
        return False, f"not reproduced at the model point ({tried}); the grid of this class already passed in this run"
    fails = rt.rt_leaf_grid(prop, cname, first_only=True)
    if fails:
        return True, fails[0]["what"]
    return False, f"not reproduced on the real code: {tried}; boundary-directed grid of {cname} passed"


@handler("spline")
def h_spline(rec):
    m, rp, prop = rec["model"] or {}, rec["replay"], rec["property"]
    tried = []
    try:
        xp, yp, dd = ([rt.fnum(v) for v in m["arr:" + k]] for k in ("x_pos", "y_pos", "derivatives"))
        lo_, hi_ = rt.fnum(m["lo"]), rt.fnum(m["hi"])
        ok = len(xp) >= 3 and all(a < b for a, b in zip(xp, xp[1:])) and all(a < b for a, b in zip(yp, yp[1:])) and all(v > 0 for v in dd) and xp[0] == lo_ == yp[0] and xp[-1] == hi_ == yp[-1]
        if ok:
            b = rt.build_spline_raw(xp, yp, dd, (lo_, hi_))
            x = rt.fnum(m["x"]) if rp.get("input") == "x" else None
            y = rt.fnum(m["y"]) if rp.get("input") == "y" else None
            fails = rt.rt_spline(prop, b, x=x, y=y, label=f"RationalQuadraticSpline with x_pos={xp}, y_pos={yp}, derivatives={dd}")
            tried.append("model point")
            if fails:
                return True, "; ".join(fails)
        else:
            tried.append("model arrays do not satisfy the class invariant off the instantiated indices")
    except Exception as ex:  # noqa: BLE001
        tried.append(f"model not usable ({type(ex).__name__}: {ex})")
    if os.environ.get("FJVC_REPLAY_SKIP_GRID") == "1":
        return False, f"not reproduced at the model point ({tried}); the grid of this class already passed in this run"
    fails = rt.rt_spline_grid(prop, first_only=True)
    if fails:
        return True, fails[0]["what"]
    return False, f"not reproduced on the real code ({tried}); boundary-directed spline grid passed"


def _grid_handler(fn_name, label):
    def h(rec):
        if os.environ.get("FJVC_REPLAY_SKIP_GRID") == "1":
            return False, f"the {label} grid already passed in this run"
        fails = getattr(rt, fn_name)("quick", first_only=True)
        if fails:
            return True, fails[0]["what"]
        return False, f"abstract counter-model (uninterpreted children) has no direct concretisation; the bounded {label} grid on real objects passed"
    return h


def _h_wrapper13(rec):
    fails = rt.rt_argcheck_grid(first_only=True)
    if fails:
        return True, fails[0]["what"]
    return False, "the exhaustive wrong-shape lattice on real bijections (incl. rank-0 shapes and cond_shapes) is rejected as documented"


HANDLERS["wrapper13"] = _h_wrapper13
def _h_c15(rec):
    m = rec["model"] or {}
    tried = []
    try:
        if rec["replay"]["kind"] == "train_val_split":
            n, p = int(m["n"]), rt.fnum(m["val_prop"])
            if 2 <= n <= 200 and 0 <= p <= 1:
                f = rt.rt_split(n, p)
                tried.append(f"n={n}, val_prop={p}")
                if f:
                    return True, "; ".join(f)
        elif rec["replay"]["kind"] == "get_batches":
            n, bs = int(m["n"]), int(m["batch_size"])
            if 1 <= n <= 300 and 1 <= bs <= 400:
                f = rt.rt_batches(n, bs)
                tried.append(f"n={n}, batch_size={bs}")
                if f:
                    return True, "; ".join(f)
    except Exception as ex:  # noqa: BLE001
        tried.append(f"model not usable: {ex}")
    if os.environ.get("FJVC_REPLAY_SKIP_GRID") == "1":
        return False, f"not reproduced at the model point {tried}; grid already passed in this run"
    fails = rt.rt_c15_grid("quick", first_only=True)
    if fails:
        return True, fails[0]["what"]
    return False, f"not reproduced at the model point {tried}; index-tagged grid passed"


for _k in ("train_val_split", "get_batches", "fit_rows"):
    HANDLERS[_k] = _h_c15
HANDLERS["c05"] = _grid_handler("rt_c05", "C05 scipy.stats comparison")
def _h_zooB(rec):
    """contract B (round trips, same point, log-det vs autodiff) on the object zoo, for the property the obligation was checked under"""
    prop = rec["property"] if rec["property"] in ("C01", "C02") else "C02"
    fails = rt.rt_zoo_B(prop, first_only=True)
    if not fails and rec["property"] == "C05":
        fails = rt.rt_c05("quick", first_only=True)
    if fails:
        return True, fails[0]["what"]
    return False, "contract B (round trips, same point, log-dets vs autodiff) holds on the zoo of real bijections"


HANDLERS["zooB"] = _h_zooB
HANDLERS["c06"] = _grid_handler("rt_c06", "C06 batching")
HANDLERS["c11"] = _grid_handler("rt_c11", "C11 constructor / raw-parameter sweep")
def _h_planar(rec):
    import numpy as np
    m = rec["model"] or {}
    tried = []
    try:
        s_, gww, gwu, b = rt.fnum(m["negative_slope"]), rt.fnum(m["G_w_w"]), rt.fnum(m["G_u_w"]), rt.fnum(m["bias"])
        if s_ > 0 and gww > 0:
            w = np.array([np.sqrt(gww), 0.0])
            u = np.array([gwu / np.sqrt(gww), 0.3])
            r = rt.rt_planar(s_, w, u, b)
            tried.append(f"slope={s_}, w={w.tolist()}, u={u.tolist()}")
            if r:
                return True, r
    except Exception as ex:  # noqa: BLE001
        tried.append(f"model not usable: {ex}")
    for s_ in (0.1, 1.0, 2.0, 5.0):
        for wu in (-8.0, -3.0, -1.5, 0.0, 3.0):
            r = rt.rt_planar(s_, np.array([1.0, 0.0]), np.array([wu, 0.3]), 0.2)
            if r:
                return True, r
    return False, f"not reproduced: {tried}; slope/inner-product grid passed"


HANDLERS["planar"] = _h_planar
HANDLERS["c12"] = _grid_handler("rt_c12", "C12 unwrap / frozen-leaf training")
def _h_c14(rec):
    cls = (rec.get("replay") or {}).get("cls", "")
    key = cls.replace("_Unconditional", "") if cls else None
    fails = rt.rt_c14("quick", first_only=True, only=key) if key else []
    if not fails and os.environ.get("FJVC_REPLAY_SKIP_GRID") != "1":
        fails = rt.rt_c14("quick", first_only=True)
    if fails:
        return True, fails[0]["what"]
    return False, "static premise violated but eager/jit/vmap agree on the object zoo (the construct may be unreachable for the built objects)"


HANDLERS["c14"] = _h_c14
HANDLERS["c09"] = _grid_handler("rt_c09", "C09 Jacobian-structure")
HANDLERS["c04"] = _grid_handler("rt_c04", "C04 quadrature / goodness-of-fit")
def _h_combinators(rec):
    prop = rec["property"]
    fails = rt.rt_c08_definitions(first_only=False)
    if not fails and prop in ("C01", "C02"):
        fails = rt.rt_zoo_B(prop, first_only=True)
    if fails:
        return True, fails[0]["what"]
    return False, "abstract-children counter-model has no direct concretisation; the combinator definitions / zoo contract-B checks passed on real objects"


HANDLERS["combinators"] = _h_combinators
HANDLERS["losses"] = _grid_handler("rt_c17", "C17 loss re-evaluation")
def _h_simple(rec):
    cls = (rec.get("replay") or {}).get("cls", "")
    prop = rec["property"] if rec["property"] in ("C01", "C02") else "C01"
    if cls in ("Flip", "Permute"):
        f0 = rt.rt_simple_fwd("quick", first_only=True, only=cls)
        if f0:
            return True, f0[0]["what"]
    fails = rt.rt_zoo_B(prop, first_only=True, only=cls) or rt.rt_zoo_B("C02" if prop == "C01" else "C01", first_only=True, only=cls)
    if fails:
        return True, fails[0]["what"]
    return False, f"contract B (round trips, same point, log-dets vs autodiff) holds on the real {cls} objects of the zoo"


HANDLERS["simple"] = _h_simple
HANDLERS["triangular"] = _grid_handler("rt_triangular", "TriangularAffine trained-leaf")
HANDLERS["transformed"] = _grid_handler("rt_c03", "C03 change-of-variables")
HANDLERS["merge_transforms"] = _grid_handler("rt_c03", "C03 change-of-variables")


@handler("shapes")
def h_shapes(rec):
    m, rp = rec["model"] or {}, rec["replay"]
    cls = rp["cls"]

    def dims(v, base=2):
        # the formulas do not depend on the dimension values: keep rank, use small distinct positive sizes
        return tuple(base + j for j in range(len(v)))

    try:
        if cls == "Stack":
            r = rt.rt_shapes_case("Stack", s0=dims(m["s0"]), axis=int(m["axis"]))
        elif cls == "Concatenate":
            s0 = dims(m["s0"])
            ax = int(m["axis"])
            s1 = list(s0)
            s1[ax] += 1
            r = rt.rt_shapes_case("Concatenate", s0=s0, s1=tuple(s1), axis=ax)
        elif cls == "Vmap":
            r = rt.rt_shapes_case("Vmap", inner_shape=dims(m["inner_shape"])[:2], inner_cond_shape=dims(m["inner_cond_shape"], 3), in_axes_condition=int(m["in_axes_condition"]), axis_size=5)
        elif cls == "Partial" and m.get("n") is not None and m.get("i") is not None:
            import flowjax.bijections as B
            import jax.numpy as jnp

            n_, i_ = int(m["n"]), int(m["i"])
            r = None
            if 1 <= n_ <= 64 and abs(i_) <= 256:
                fits = -n_ <= i_ < n_
                try:
                    pb = B.Partial(B.Exp(()), i_, (n_,))
                    accepted = True
                except Exception:  # noqa: BLE001
                    accepted = False
                if accepted and not fits:
                    xx = jnp.arange(1.0, n_ + 1.0) / 10
                    yy, ld = pb.transform_and_log_det(xx)
                    r = f"Partial(Exp(()), idxs={i_}, shape=({n_},)) was accepted although the index is out of range; transform_and_log_det({xx.tolist()}) = ({yy.tolist()}, log-det {float(ld):.6g})"
                elif fits and not accepted:
                    r = f"Partial(Exp(()), idxs={i_}, shape=({n_},)) was rejected although the index is in range"
        else:
            r = None
        if r is not None:
            return True, r
    except Exception as ex:  # noqa: BLE001
        pass
    if os.environ.get("FJVC_REPLAY_SKIP_GRID") == "1":
        return False, "not reproduced at the model point; the shape lattice already passed in this run"
    fails = rt.rt_shapes_grid(first_only=True, only=cls)
    if fails:
        return True, fails[0]["what"]
    return False, f"model shapes did not reproduce and the exhaustive small shape lattice of {cls} passed on the real code"


def main(path):
    with open(path) as fh:
        rec = json.load(fh)
    kind = (rec.get("replay") or {}).get("kind")
    try:
        if kind not in HANDLERS:
            rec["reproduced"], rec["observed"] = None, f"no replay handler for kind {kind}"
        else:
            rec["reproduced"], rec["observed"] = HANDLERS[kind](rec)
    except Exception:  # noqa: BLE001
        rec["reproduced"], rec["observed"] = None, "replay harness error: " + traceback.format_exc()[-1200:]
        with open(path, "w") as fh:
            json.dump(rec, fh, indent=1, default=str)
        return 2
    with open(path, "w") as fh:
        json.dump(rec, fh, indent=1, default=str)
    return 1 if rec["reproduced"] else 0


if __name__ == "__main__":
    sys.exit(main(sys.argv[1]))
