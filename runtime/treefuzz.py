"""Random bijection EXPRESSION TREES (C08's quantifier: generated trees of bounded depth / width over all leaf kinds, ranks 0-3, every
valid axis incl. negative ones, every Partial index kind, conditional and unconditional children mixed) on the REAL code: declared
shape == output shape, scalar log-det, both variants return the same point, round trip, inverse log-det == -forward log-det, and the
forward log-det equals log|det J| by autodiff.  Bounded stand-in (fixed seeds), never counted as proved.

Under an Invert only surjective leaves are generated (the inverse of Exp / Tanh / SoftPlus is not defined on all of R)."""
import jax
import jax.numpy as jnp
import numpy as np

jax.config.update("jax_enable_x64", True)
import flowjax.bijections as B  # noqa: E402

CD = 2
def _addc(shape):
    n = int(np.prod(shape, dtype=int))
    return B.AdditiveCondition(lambda c: (0.3 * jnp.sum(c) * jnp.arange(1.0, n + 1)).reshape(shape), shape, (CD,))
NO_TANH = [False]  # set by rt_transformed_trees: tanh saturates to exactly 1.0 in floats, after which the inverse is infinite


def leaf(rng, shape, allow_cond, surj=False):
    k = rng.integers(0, 6 if allow_cond else 5)
    if surj and k in (1, 2, 3): k = 0
    if NO_TANH[0] and k == 2: k = 3
    n = int(np.prod(shape, dtype=int))
    if k == 0: return B.Affine(jnp.asarray(rng.normal(size=shape)), jnp.asarray(rng.uniform(0.5, 2.0, size=shape)))
    if k == 1: return B.Exp(shape)
    if k == 2: return B.Tanh(shape)
    if k == 3: return B.SoftPlus(shape)
    if k == 4: return B.Permute(jnp.asarray(rng.permutation(n).reshape(shape))) if n >= 1 and shape != () else B.Identity(shape)
    return _addc(shape)
def gen(rng, shape, depth, allow_cond=True, surj=False):
    if depth == 0 or rng.random() < 0.25:
        return leaf(rng, shape, allow_cond, surj)
    k = rng.integers(0, 8)
    if k == 0:
        return B.Chain([gen(rng, shape, depth - 1, allow_cond, surj) for _ in range(rng.integers(1, 4))])
    if k == 1:
        return B.Invert(gen(rng, shape, depth - 1, allow_cond, True))
    if k == 2 and len(shape) >= 1:
        ax = int(rng.integers(-len(shape), len(shape)))
        size = shape[ax]
        if size >= 2:
            cut = int(rng.integers(1, size)); parts = [cut, size - cut]
            if parts[1] >= 2 and rng.random() < 0.5:
                c2 = int(rng.integers(1, parts[1])); parts = [cut, c2, parts[1] - c2]
            kids = []
            for p in parts:
                s = list(shape); s[ax] = p; kids.append(gen(rng, tuple(s), depth - 1, allow_cond, surj))
            return B.Concatenate(kids, axis=ax)
    if k == 3 and len(shape) >= 1:
        ax = int(rng.integers(-len(shape), len(shape)))
        sub = tuple(s for j, s in enumerate(shape) if j != ax % len(shape))
        return B.Stack([gen(rng, sub, depth - 1, allow_cond, surj) for _ in range(shape[ax])], axis=ax)
    if k == 4 and len(shape) >= 1 and shape[0] >= 2:
        kind = rng.integers(0, 4)
        if kind == 0: idx, sub = int(rng.integers(-shape[0], shape[0])), shape[1:]
        elif kind == 1: idx, sub = slice(0, shape[0] - 1), (shape[0] - 1,) + shape[1:]
        elif kind == 2:
            sel = rng.permutation(shape[0])[: max(1, shape[0] - 1)]; idx, sub = jnp.asarray(sel), (len(sel),) + shape[1:]
        else:
            m = np.zeros(shape[0], bool); m[rng.permutation(shape[0])[: max(1, shape[0] - 1)]] = True; idx, sub = jnp.asarray(m), (int(m.sum()),) + shape[1:]
        return B.Partial(gen(rng, sub, depth - 1, allow_cond, surj), idx, shape)
    if k == 5:
        n = int(np.prod(shape, dtype=int))
        inner_shape = (n,) if rng.random() < 0.5 or n == 0 else shape[::-1]
        return B.Reshape(gen(rng, inner_shape, depth - 1, allow_cond, surj), shape)
    if k == 6 and len(shape) >= 1:
        inner = gen(rng, shape[1:], depth - 1, allow_cond, surj)
        if inner.cond_shape is None:
            return B.Vmap(inner, axis_size=shape[0])
        return B.Vmap(inner, in_axes_condition=None, axis_size=shape[0])
    if k == 7 and allow_cond:
        inner = gen(rng, shape, depth - 1, True, surj)
        if inner.cond_shape == (CD,):
            return B.EmbedCondition(inner, lambda c: c * 1.5, (CD,))
    return leaf(rng, shape, allow_cond, surj)
def check(b, rng):
    out = []
    x = jnp.asarray(rng.normal(size=b.shape) * 0.7)
    c = None if b.cond_shape is None else jnp.asarray(rng.normal(size=b.cond_shape))
    y, ld = b.transform_and_log_det(x, c)
    y2 = b.transform(x, c)
    if y.shape != tuple(b.shape): out.append(f"output shape {y.shape} != declared {b.shape}")
    if jnp.shape(ld) != (): out.append(f"log det shape {jnp.shape(ld)}")
    if not np.allclose(y, y2, rtol=1e-9, atol=1e-12): out.append("transform != transform_and_log_det point")
    xb, ldi = b.inverse_and_log_det(y, c)
    xb2 = b.inverse(y, c)
    if not np.allclose(xb, x, rtol=1e-7, atol=1e-9): out.append(f"round trip error {float(jnp.max(jnp.abs(xb - x)))}")
    if not np.allclose(xb2, xb, rtol=1e-9, atol=1e-12): out.append("inverse != inverse_and_log_det point")
    if abs(float(ld) + float(ldi)) > 1e-7 * max(1, abs(float(ld))): out.append(f"ld {float(ld)} + ldi {float(ldi)} != 0")
    n = int(np.prod(b.shape, dtype=int))
    if n <= 24 and n >= 1:
        J = np.asarray(jax.jacobian(lambda v: b.transform(v.reshape(b.shape), c).ravel())(x.ravel()))
        tl = np.linalg.slogdet(J)[1]
        if abs(tl - float(ld)) > 1e-6 * max(1, abs(tl)): out.append(f"log-det {float(ld)} vs autodiff {tl}")
    return out


SHAPES = [(), (3,), (2, 3), (4,), (2, 2), (3, 1), (2, 1, 2)]


def rt_trees(tier="quick", first_only=False, count=None, seed0=0):
    fails = []
    n = 60 if tier == "quick" else 400
    for s in range(seed0, seed0 + n):
        rng = np.random.default_rng(s)
        shape = SHAPES[rng.integers(0, len(SHAPES))]
        try:
            b = gen(rng, shape, 3)
        except Exception as ex:  # noqa: BLE001
            fails.append(dict(what=f"expression tree #{s} (shape {shape}): a composition of compatible children was rejected: {type(ex).__name__}: {str(ex)[:120]}", case=dict(tree_seed=s)))
            continue
        try:
            r = check(b, rng)
        except Exception as ex:  # noqa: BLE001
            r = [f"a method raised {type(ex).__name__}: {str(ex).splitlines()[0][:120]}"]
        if r:
            fails.append(dict(what=f"expression tree #{s} ({type(b).__name__} of shape {shape}, cond_shape {b.cond_shape}): " + "; ".join(r[:3]), case=dict(tree_seed=s)))
            if first_only:
                break
    if count is not None:
        count.append(n)
    return fails


def rt_transformed_trees(tier="quick", first_only=False, count=None, seed0=0):
    """Transformed(base, random tree): the three evaluation paths agree (sample_and_log_prob vs sample vs log_prob of the sample),
    sample shapes are sample_shape + condition batch + event, and a batched log_prob equals the unbatched call on a slice"""
    import jax.random as jr
    import flowjax.distributions as D

    fails = []
    n = 30 if tier == "quick" else 150
    NO_TANH[0] = True
    try:
        for s in range(seed0, seed0 + n):
            rng = np.random.default_rng(1000 + s)
            shape = SHAPES[rng.integers(0, len(SHAPES))]
            try:
                b = gen(rng, shape, 3)
                base = D.Normal(jnp.asarray(rng.normal(size=shape)), jnp.asarray(rng.uniform(0.5, 1.5, size=shape))) if rng.random() < 0.7 else D.StudentT(jnp.full(shape, 4.0))
                d = D.Transformed(base, b)
                c = None if d.cond_shape is None else jnp.asarray(rng.normal(size=(3,) + d.cond_shape))
                key = jr.PRNGKey(s)
                ss = () if c is not None and rng.random() < 0.5 else (2,)
                x, lp = d.sample_and_log_prob(key, ss, c)
                x2 = d.sample(key, ss, c)
                lp2 = d.log_prob(x, c)
                want_shape = ss + (() if c is None else (3,)) + tuple(shape)
                msgs = []
                if x.shape != want_shape:
                    msgs.append(f"sample shape {x.shape}, expected {want_shape}")
                if not np.allclose(x, x2, rtol=1e-9, atol=1e-12):
                    msgs.append("sample and sample_and_log_prob draw different points for the same key")
                if not np.allclose(lp, lp2, rtol=1e-6, atol=1e-8):
                    msgs.append(f"sample_and_log_prob reports a log-density that differs from log_prob at the sample by up to {float(jnp.max(jnp.abs(lp - lp2))):.3g}")
                idx = tuple(0 for _ in lp.shape)
                one = d.log_prob(x[idx], None if c is None else c[idx[-1]])
                if not np.allclose(one, lp2[idx], rtol=1e-8, atol=1e-10):
                    msgs.append("batched log_prob differs from the unbatched call on a slice")
            except Exception as ex:  # noqa: BLE001
                msgs = [f"raised {type(ex).__name__}: {str(ex).splitlines()[0][:120]}"]
            if msgs:
                fails.append(dict(what=f"Transformed(base, expression tree #{1000 + s} of shape {shape}): " + "; ".join(msgs[:3]), case=dict(tree_seed=1000 + s)))
                if first_only:
                    break
    finally:
        NO_TANH[0] = False
    if count is not None:
        count.append(n)
    return fails
