"""L3 bounded stand-ins / conformance grids on the real code.  usage: grids.py <Cnn> --tier T --seed S --out file
Output JSON: evaluations, distinct_nontrivial, rule, violations[{what, replay, finding_key?}], samples."""
import argparse
import itertools
import json
import os
import subprocess
import sys

sys.path.insert(0, os.path.dirname(os.path.abspath(__file__)))
REPO = os.environ.get("FJVC_REPO", "/repo")
sys.path.insert(0, REPO)
VERIF = os.path.dirname(os.path.dirname(os.path.abspath(__file__)))

import rtcontracts as rt  # noqa: E402

GRIDS = {}


def grid(pid):
    def deco(f):
        GRIDS[pid] = f
        return f

    return deco


def c10_case_list(tier, seed, only_fn=None):
    funcs = list(rt.FUNCS)
    roots = [0.0, 0.3, -7.0, 10.0, -10.0, 10.5, -10.5, 1e6 + 0.25, -1e6 - 0.125] if tier == "thorough" else [0.3, 10.0, -10.5, 1e6 + 0.25, -1e6 - 0.125]
    tols = [1e-2, 1e-5, 1e-9] if tier == "thorough" else [1e-2, 1e-7]
    iters = [0, 5, 60, 200] if tier == "thorough" else [3, 200]
    cases = []
    if only_fn in (None, "_bisection_search"):
        for f, r, t, m in itertools.product(funcs, roots, tols, iters):
            if f in ("sinh", "cubic", "saturating") and abs(r) > 1e5 and tier != "thorough":
                continue
            cases.append(dict(fn="_bisection_search", func=f, root=r, lower=-10.0, upper=10.0, tol=t, max_iter=m))
    if only_fn in (None, "_autoregressive_bisection_search"):
        for dim in ((1, 2, 4, 6) if tier == "thorough" else (1, 3, 5)):
            for tol_, seed_ in ((1e-3, 0), (1e-8, 1)) + (((1e-5, 2),) if tier == "thorough" else ()):
                cases.append(dict(fn="_autoregressive_bisection_search", func="triangular", root=0.5, dim=dim, tol=tol_, max_iter=200, seed=seed_, lower=-10.0, upper=10.0))
        cases.append(dict(fn="_autoregressive_bisection_search", func="triangular", root=0.5, dim=3, tol=1e-6, max_iter=200, seed=4, lower=-1.0, upper=1.0, spread=20.0))
        # integer-typed bounds (a user writing lower=-10, upper=10): the preimage is not integer valued
        cases.append(dict(fn="_autoregressive_bisection_search", func="triangular", root=0.5, dim=3, tol=1e-6, max_iter=200, seed=5, lower=-10, upper=10, int_bounds=True))
        cases.append(dict(fn="_autoregressive_bisection_search", func="triangular", root=0.5, dim=1, tol=1e-8, max_iter=200, seed=6, lower=-3, upper=4, int_bounds=True))
    if only_fn in (None, "_autoregressive_bisection_search", "AutoregressiveBisectionInverter"):
        for tol_, scales, seed_ in ((1e-7, [1e-2, 0.2, 1.0], 11), (1e-4, [1e-3, 0.05], 12), (1e-9, [0.2, 5.0], 13)):
            cases.append(dict(fn="AutoregressiveBisectionInverter", func="Affine", root=0.0, dim=3, tol=tol_, max_iter=200, seed=seed_, scales=scales, lower=-10.0, upper=10.0))
    if only_fn in (None, "_bisection_search"):
        for f in ("linear_steep", "cubic"):
            cases.append(dict(fn="_bisection_search", func=f, root=0.3, lower=-10, upper=10, tol=1e-7, max_iter=200, int_bounds=True))
    if only_fn in (None, "_adapt_interval_to_include_root"):
        for f, r in itertools.product(funcs, roots + [-4.0, 8.0]):
            for lo, hi in ((-10.0, 10.0), (-2.0, 0.0), (3.0, 3.5)):
                cases.append(dict(fn="_adapt_interval_to_include_root", func=f, root=r, lower=lo, upper=hi))
    return cases


def c10_cases(tier, seed, only_fn=None):
    """returns list of failures; runs in a child process so that a hang is detected"""
    cases = c10_case_list(tier, seed, only_fn)
    try:
        p = subprocess.run([sys.executable, os.path.abspath(__file__), "--c10-batch", json.dumps(cases)], capture_output=True, text=True,
                           timeout=(90 if tier == 'quick' else 60 + 2 * len(cases)), env=dict(os.environ, JAX_PLATFORMS="cpu"))
        if p.returncode == 0:
            return json.loads(p.stdout.strip().splitlines()[-1])
        return [dict(what="real code raised: " + (p.stderr or "")[-300:], case=None, error=True)]
    except subprocess.TimeoutExpired:
        fails = []
        for c in cases[:: max(1, len(cases) // 12)]:
            r = rt.rt_bisection(c, timeout=20)
            if r is not None and not r.get("skip"):
                fails.append(r)
                break
        return fails or [dict(what="grid did not terminate but no single case reproduced it", case=None, error=True)]


@grid("C10")
def g_c10(tier, seed):
    cases = c10_case_list(tier, seed)
    fails = c10_cases(tier, seed)
    distinct = len({(c["fn"], c["func"], c["root"], c.get("tol"), c.get("max_iter"), c["lower"], c.get("dim"), c.get("seed")) for c in cases if c["root"] not in (0.0,)})
    return dict(evaluations=len(cases), distinct_nontrivial=distinct,
                rule="real _bisection_search/_adapt_interval_to_include_root (float64) on increasing functions {linear steep/flat, cubic, sinh, saturating, kinked} x roots inside/on the ends/outside/1e6 away x tol x max_iter; real _autoregressive_bisection_search on triangular maps (dims 1-6, cross-coordinate coupling, preimage also outside the initial interval); non-trivial = root != 0",
                samples=cases[:3], failures=[f for f in fails if not f.get("error")], errors=[f for f in fails if f.get("error")])


def c16_variational(tier, seed, count=None):
    Lmax = 5 if tier == "thorough" else 4
    fails, n = [], 0
    for L in range(1, Lmax + 1):
        for perm in itertools.permutations(range(1, L + 1)):
            for steps in sorted({0, 1, L - 1, L} & set(range(L + 1))):
                for rb in (True, False):
                    n += 1
                    r = rt.rt_variational([float(x) for x in perm], steps, rb)
                    if r is not None:
                        fails.append(r)
                        if count is None:
                            return fails
    # close-but-distinct losses (a fit that has plateaued): "is the minimum" must be exact, not approximate
    for L in (2, 3, 4):
        for perm in itertools.permutations(range(1, L + 1)):
            for scale in (4e-6, 3e-9):
                losses = [1.0 + scale * x for x in perm]
                for rb in (True, False):
                    n += 1
                    r = rt.rt_variational(losses, L, rb)
                    if r is not None:
                        fails.append(r)
                        if count is None:
                            return fails
    if count is not None:
        count.append(n)
    return fails


def c16_fit_to_data(tier, seed, count=None):
    Lmax = 5 if tier == "thorough" else 4
    fails, n = [], 0
    for L in range(1, Lmax + 1):
        for perm in itertools.permutations(range(1, L + 1)):
            for mp in range(0, L + 1):
                for me in sorted({0, 1, L - 1, L}):
                    if me < 0:
                        continue
                    for rb in (True, False):
                        if tier != "thorough" and L == Lmax and not rb and mp not in (0, 1):
                            continue
                        n += 1
                        r = rt.rt_fit_to_data([float(x) for x in perm], me, mp, rb)
                        if r is not None:
                            fails.append(r)
                            if count is None:
                                return fails
    for L in (3, 4):
        for perm in itertools.permutations(range(1, L + 1)):
            losses = [1.0 + 4e-6 * x for x in perm]
            for mp in (0, 1, L):
                for rb in (True, False):
                    n += 1
                    r = rt.rt_fit_to_data(losses, L, mp, rb)
                    if r is not None:
                        fails.append(r)
                        if count is None:
                            return fails
    if count is not None:
        count.append(n)
    return fails


@grid("C16")
def g_c16(tier, seed):
    cnt = []
    fails = c16_variational(tier, seed, cnt)
    fails += c16_fit_to_data(tier, seed, cnt)
    cnt = [sum(cnt)]
    return dict(evaluations=cnt[0], distinct_nontrivial=cnt[0] - sum(1 for _ in range(1)),
                rule="real fit_to_data (one train + one validation batch per epoch, max_patience 0..L, max_epochs in {0,1,L-1,L}) and real fit_to_variational_target driven by a scripted loss table (every permutation of 1..L, L<=4 quick / 5 thorough) and a counting optimiser, steps in {0,1,L-1,L}, return_best in {T,F}; also the same orderings with losses 1 + 4e-6*rank / 1 + 3e-9*rank (close but distinct); each (history, steps, return_best) is distinct; non-trivial = L>1 or steps>0",
                samples=[dict(losses=[3.0, 1.0, 2.0], steps=3, return_best=True)], failures=fails[:5], errors=[])


def _leaf_grid(pid):
    def g(tier, seed):
        cnt = []
        fails = rt.rt_leaf_grid(pid, count=cnt)
        fails += rt.rt_spline_grid(pid, count=cnt)
        if pid in ("C01", "C02"):
            fails += rt.rt_zoo_B(pid, count=cnt)
        if pid in ("C01", "C02", "C07"):
            fails += rt.rt_triangular(tier, count=cnt)
        if pid in ("C01", "C07"):
            fails += rt.rt_simple_fwd(tier, count=cnt)
        if pid == "C18":
            fails += rt.rt_c18_flows(tier, count=cnt)
        cnt = [sum(cnt)]
        return dict(evaluations=cnt[0], distinct_nontrivial=cnt[0],
                    rule="real RationalQuadraticSpline (trained-like perturbed raw parameters, intervals with and without 0) at every knot / interval end / float neighbour / bin midpoint / outside point, TriangularAffine with every trainable leaf moved (C01/C02), contract B (round trips, same point, log-det vs autodiff slogdet, inverse log-det) on an object zoo of EVERY buildable bijection class incl. combinators and structured layers, and real elementwise leaf bijections (float64) x parameter sets (positive/negative/small/large scales, several max_val) x boundary-directed points (0, +-1, +-max_val, +-tanh(max_val), their float neighbours, 1e-8, 1e4); each (class, params, point) is distinct",
                    samples=[dict(cls="LeakyTanh", params=dict(max_val=3.0), point=3.0)], failures=fails[:5], errors=[])
    return g


for _pid in ("C01", "C02", "C07", "C18"):
    GRIDS[_pid] = _leaf_grid(_pid)


@grid("C03")
def g_c03(tier, seed):
    cnt = []
    fails = rt.rt_c03(tier, count=cnt)
    import treefuzz

    fails += treefuzz.rt_transformed_trees(tier, count=cnt)
    cnt = [sum(cnt)]
    return dict(evaluations=cnt[0] if cnt else 0, distinct_nontrivial=cnt[0] if cnt else 0,
                rule="real Transformed distributions: hand-built (conditional base / conditional bijection mixes) and the buildable flow factories x invert x conditional, perturbed parameters, 2 keys each; the three evaluation paths compared with the public base/bijection methods; merge_transforms at nesting depth 2-4 with non-commuting bijections; Transformed(base, random bijection expression tree) (30 quick / 150 thorough, fixed seeds): the three evaluation paths agree, sample shapes, batched == unbatched",
                samples=["coupling_flow(invert=True, cond_dim=3) perturbed"], failures=fails[:5], errors=[])


def _shape_grid(pid):
    def g(tier, seed):
        cnt = []
        fails = rt.rt_shapes_grid(count=cnt)
        fails += rt.rt_c08_definitions(count=cnt)
        import treefuzz

        fails += treefuzz.rt_trees(tier, count=cnt)
        cnt = [sum(cnt)]
        return dict(evaluations=cnt[0] if cnt else 0, distinct_nontrivial=cnt[0] if cnt else 0,
                    rule="combinators vs a reference interpreter of their definitions over the children's own methods (Chain, slicing, merge_chains, Scan==Chain, Vmap mapped/broadcast, Stack/Concatenate every axis, Partial index kinds, Invert, Reshape, EmbedCondition); real Stack / Concatenate / Vmap / Reshape on an exhaustive small lattice: child ranks 0-3, EVERY valid axis incl. negative ones, cond ranks 0-2, rank-0 reshape targets; declared shape vs jnp.stack/jnp.concatenate/vmap semantics and all four methods called with inputs of the declared shapes; random expression trees (depth <= 3, 60 quick / 400 thorough, fixed seeds) over Affine/Exp/Tanh/SoftPlus/Permute/AdditiveCondition leaves and Chain/Invert/Concatenate/Stack/Partial/Reshape/Vmap/EmbedCondition: declared shape, same point, round trip, log-det vs autodiff",
                    samples=[dict(cls="Stack", s0=[2, 3], axis=-1)], failures=fails[:5], errors=[])
    return g


GRIDS["C08"] = _shape_grid("C08")


@grid("C13")
def g_c13(tier, seed):
    cnt = []
    fails = rt.rt_shapes_grid(count=cnt) + rt.rt_argcheck_grid(count=cnt)
    return dict(evaluations=sum(cnt), distinct_nontrivial=sum(cnt),
                rule="real bijections (leaves, Chain, Invert, Vmap, Reshape, rank-0 and rank-1 cond_shapes) x four methods x wrong shapes NumPy would broadcast (extra leading axis, trailing size-1 axis, dropped axis, transposed, scalar) -> must raise; declared shapes must be accepted; plus the combinator shape lattice of C08",
                samples=[dict(obj="AdditiveCondition(shape (), cond ())", bad="condition.shape=(1,)")], failures=fails[:5], errors=[])


@grid("C15")
def g_c15(tier, seed):
    cnt = []
    fails = rt.rt_c15_grid(tier, count=cnt)
    return dict(evaluations=cnt[0] if cnt else 0, distinct_nontrivial=cnt[0] if cnt else 0,
                rule="index-tagged rows: real train_val_split for n in 2..25 (+31,40,47,60; thorough: 2..60) x val_prop grid, real get_batches for batch sizes {1,2,3,n-1,n,n+5}, real fit_to_data with a recording loss (ordered host callback, step() wrapped to tell gradient steps from validation calls) with and without condition, run twice for determinism",
                samples=[dict(n=15, val_prop=0.1)], failures=fails[:5], errors=[])


@grid("C05")
def g_c05(tier, seed):
    cnt = []
    fails = rt.rt_c05(tier, count=cnt)
    return dict(evaluations=cnt[0] if cnt else 0, distinct_nontrivial=cnt[0] if cnt else 0,
                rule="real families (Normal, Cauchy, Laplace, Logistic, Gumbel, StudentT, LogNormal, Uniform, Exponential, MultivariateNormal, VmapMixture) with loc/scale/df broadcasting against each other (event shape (2,3)), points inside / at the edge of / outside the support, accessors; reference scipy.stats in float64; -inf required outside the support, NaN never",
                samples=[dict(family="Uniform", point="outside")], failures=fails[:5], errors=[])


@grid("C06")
def g_c06(tier, seed):
    cnt = []
    fails = rt.rt_c06(tier, count=cnt)
    return dict(evaluations=cnt[0] if cnt else 0, distinct_nontrivial=cnt[0] if cnt else 0,
                rule="_get_ufunc_signature exhaustively over shape tuples of rank <= 2 (3 in thorough) with one- and two-digit dims vs an independent formatter; real distributions whose value depends on x and the condition (event/cond ranks 0-2) x batch lattices with size-1 axes: every element of a batched log_prob equals the unbatched call; sample shapes, determinism, no repeated draws, joint path consistency",
                samples=[dict(dist="cond event (2,), cond (3,)", sample_shape=[5], cond_batch=[4])], failures=fails[:5], errors=[])


@grid("C11")
def g_c11(tier, seed):
    cnt = []
    fails = rt.rt_c11(tier, count=cnt)
    c2 = []
    fails += rt.rt_triangular(tier, count=c2)
    cnt = [sum(cnt) + sum(c2)]
    return dict(evaluations=cnt[0] if cnt else 0, distinct_nontrivial=cnt[0] if cnt else 0,
                rule="float32 and float64: constructor arguments of magnitude 1e-6..1e6 read back through the accessors (Affine/Scale/Normal/StudentT/Exponential/Uniform), invalid arguments at the edge of validity must be rejected, raw arrays moved to |raw| <= 50 / N(0,s^2): scales and df positive, spline knots strictly increasing with derivatives >= min_derivative, mixture weights normalised, weight-norm rows keep their norm, planar leaky-relu layers (slope <= 1) invertible; TriangularAffine (lower/upper, dim 1-4) with every trainable leaf moved: triangular, positive diagonal, contract B",
                samples=[dict(what="Affine.scale", magnitude=100.0, dtype="float32")], failures=fails[:5], errors=[])


@grid("C12")
def g_c12(tier, seed):
    cnt = []
    fails = rt.rt_c12(tier, count=cnt)
    return dict(evaluations=cnt[0] if cnt else 0, distinct_nontrivial=cnt[0] if cnt else 0,
                rule="real nested wrappers (Where / BijectionReparam / Lambda / NonTrainable inside containers and modules): value, idempotence, wrapper-free; wrapped vs pre-unwrapped model methods; frozen subtrees (non_trainable on base / bijection) get zero gradient and are bit-identical after fit_to_data and fit_to_variational_target with adam, adamw, sgd+weight decay; non-floating leaves identical",
                samples=[dict(loop="fit_to_variational_target", optimizer="adamw")], failures=fails[:5], errors=[])


@grid("C14")
def g_c14(tier, seed):
    cnt = []
    fails = rt.rt_c14(tier, count=cnt)
    return dict(evaluations=cnt[0] if cnt else 0, distinct_nontrivial=cnt[0] if cnt else 0,
                rule="object zoo of every bijection class that can be built here (perturbed parameters) x four methods: eqx.filter_jit vs eager, repeated call, jax.vmap over inputs vs Python loop; pytree flatten/unflatten and tree_serialise_leaves round trips; distributions under jit",
                samples=[dict(obj="Planar(leaky)", method="inverse")], failures=fails[:5], errors=[])


@grid("C09")
def g_c09(tier, seed):
    cnt = []
    fails = rt.rt_c09(tier, count=cnt)
    return dict(evaluations=cnt[0] if cnt else 0, distinct_nontrivial=cnt[0] if cnt else 0,
                rule="mask helpers on a size grid vs the documented patterns; MaskedAutoregressive / Coupling / BlockAutoregressiveNetwork over (dim, cond_dim, width, depth, block size) incl. dim=1, width<dim, depth 0, with EVERY float leaf replaced by random (both signs, large) or all-positive values: autodiff Jacobian zero/sign patterns, completeness for width >= dim",
                samples=[dict(layer="BNAF", dim=2, depth=0, block_dim=1, weights="random")], failures=fails[:5], errors=[])


@grid("C04")
def g_c04(tier, seed):
    cnt = []
    fails = rt.rt_c04(tier, count=cnt)
    return dict(evaluations=cnt[0] if cnt else 0, distinct_nontrivial=cnt[0] if cnt else 0,
                rule="1-D and 2-D flows (planar tanh / leaky incl. slope > 1, masked autoregressive, coupling, LeakyTanh-spline chain; thorough: conditional, spline transformer, hand-built BNAF) with parameters perturbed away from the identity: trapezoid quadrature of exp(log_prob) on a tail-covering grid (|integral - 1| < 5e-3) and a fixed-seed KS statistic of 20000 samples against the quadrature CDF of each coordinate (threshold 0.035, false-alarm bound < 1e-9) -- BOUNDED stand-in for the statistical half",
                samples=[dict(config="planar_flow(dim=2, leaky 2.0)")], failures=fails[:5], errors=[])


@grid("C17")
def g_c17(tier, seed):
    cnt = []
    fails = rt.rt_c17(tier, count=cnt)
    return dict(evaluations=cnt[0] if cnt else 0, distinct_nontrivial=cnt[0] if cnt else 0,
                rule="real MaximumLikelihoodLoss / ElboLoss (both estimators, same key; analytic stick-the-landing gradient for a diagonal Normal) / ContrastiveLoss (non-flat prior, batch x n_contrastive grid, index sets from the real _get_contrastive_idxs) re-evaluated in NumPy through the public log_prob / sample API",
                samples=[dict(loss="contrastive", batch=5, n_contrastive=2)], failures=fails[:5], errors=[])


def main():
    if len(sys.argv) == 3 and sys.argv[1] == "--c10-batch":
        print(json.dumps(rt.rt_bisection_batch(json.loads(sys.argv[2]))))
        return 0
    ap = argparse.ArgumentParser()
    ap.add_argument("pid")
    ap.add_argument("--tier", default="quick")
    ap.add_argument("--seed", type=int, default=0)
    ap.add_argument("--out", required=True)
    a = ap.parse_args()
    if a.pid not in GRIDS:
        res = dict(evaluations=0, distinct_nontrivial=0, rule="no bounded stand-in registered for this property", violations=[], samples=[])
    else:
        try:
            res = GRIDS[a.pid](a.tier, a.seed)
        except Exception as ex:  # noqa: BLE001  (an exception escaping the harness is never silence)
            import traceback
            tb = traceback.extract_tb(ex.__traceback__)
            repo = os.path.realpath(os.environ.get("FJVC_REPO", "/repo"))
            in_repo = [fr for fr in tb if os.path.realpath(fr.filename).startswith(repo + os.sep)]
            if in_repo and os.path.realpath(tb[-1].filename).startswith((repo + os.sep, "/venv/")) and not isinstance(ex, (MemoryError, KeyboardInterrupt)):
                # raised from inside the library on a configuration every run of this grid builds and uses successfully on
                # the recorded baseline: the code under test rejects / crashes on a valid configuration
                fr = in_repo[-1]
                res = dict(evaluations=1, distinct_nontrivial=1, rule="grid aborted by an exception raised inside the library", samples=[],
                           failures=[dict(what=f"the library raised {type(ex).__name__}: {str(ex)[:200]} at {os.path.relpath(fr.filename, repo)}:{fr.lineno} ({fr.name}) while the bounded grid built / used a valid configuration", case=dict(traceback=traceback.format_exc()[-600:]))], errors=[])
            else:
                res = dict(evaluations=0, distinct_nontrivial=0, rule="harness raised", samples=[], failures=[], errors=[dict(what="L3 harness raised: " + traceback.format_exc()[-900:])])
        viol = []
        os.makedirs(os.path.join(VERIF, "replays"), exist_ok=True)
        for i, f in enumerate(res.pop("failures", [])):
            path = os.path.join(VERIF, "replays", f"{a.pid}-L3-{i}.json")
            with open(path, "w") as fh:
                json.dump(dict(property=a.pid, obligation=f.get("obligation", f"{a.pid}/L3/run-time contract"), reproduced=True, observed=f["what"], case=f.get("case"),
                               verifier_output="bounded run-time contract check on the real code (no SMT model)"), fh, indent=1, default=str)
            viol.append(dict(what=f["what"], replay=path, finding_key=f.get("finding_key")))
            if len(viol) >= 5:
                break
        res["violations"] = viol
        if res.get("errors"):
            res["harness_errors"] = [e["what"] for e in res.pop("errors")][:3]
    with open(a.out, "w") as fh:
        json.dump(res, fh, indent=1, default=str)
    return 0


if __name__ == "__main__":
    sys.exit(main())
