"""debug helper: run ONE contract family on /repo (or FJVC_REPO) and print the traceback / obligation ids it produces"""
import sys, traceback
sys.path.insert(0, "/verif")
from fjvc import core
core.load_contracts()
name = sys.argv[1]
for n, props, fn in core.FAMILIES:
    if n == name:
        ctx = core.Ctx(n, core.Source(core.REPO), "quick")
        try:
            fn(ctx)
        except Exception:
            traceback.print_exc()
        for ob in ctx.obligations:
            print(ob.kind, ob.oid)
