#!/bin/bash
d=/var/tmp/mutgen/$1
[ -f $d/l1.txt ] && exit 0
S=/var/tmp/mutgen/tree_$1
mkdir -p $S; rsync -a --exclude .git --exclude docs /repo/ $S/
f=$(python3 -c "import json;print(json.load(open('$d/meta.json'))['file'])")
cp $d/file.py $S/$f
case "$f" in
  *rational_quadratic_spline*|*planar*) P="C01 C02 C07 C11 C18 C04";;
  *bijections/affine*|*tanh*|*softplus*|*exp.py|*bijections/utils*) P="C01 C02 C07 C18 C08 C13 C11 C05";;
  *chain*|*jax_transforms*|*concatenate*|*bijections/bijection*) P="C01 C02 C08 C13 C03 C12";;
  *coupling*|*masked_autoregressive*|*block_autoregressive*|*masks*|*bisection*) P="C09 C10 C01 C02 C12 C08";;
  *distributions*|*flowjax/utils*) P="C03 C05 C06 C13 C11 C12";;
  *wrappers*|*flows*) P="C12 C03 C04 C11 C09 C05";;
  *train*) P="C15 C16 C17 C12";;
  *) P="C01 C02 C03 C04 C05 C06 C07 C08 C09 C10 C11 C12 C13 C14 C15 C16 C17 C18";;
esac
res=""
for p in $P; do
  out=$(cd /verif && FJVC_JOBS=2 FJVC_REPO=$S bin/check $p --no-l3 2>&1); rc=$?
  if [ $rc -eq 1 ]; then res="$res $p:V"; elif [ $rc -eq 2 ]; then res="$res $p:U"; elif [ $rc -eq 3 ]; then res="$res $p:E"; fi
done
echo "$1 $f |$res" > $d/l1.txt
rm -rf $S
