#!/bin/bash
# stage2.sh mNNN : for a mutant not caught by L1, run the relevant tests and then the full checks (with L3)
d=/var/tmp/mutgen/$1
[ -f $d/l1.txt ] || exit 0
grep -q ":V" $d/l1.txt && exit 0
[ -f $d/stage2.txt ] && exit 0
S=/var/tmp/mutgen/tree2_$1
mkdir -p $S; rsync -a --exclude .git --exclude docs /repo/ $S/
f=$(python3 -c "import json;print(json.load(open('$d/meta.json'))['file'])")
cp $d/file.py $S/$f
case "$f" in
  *bijections*|*masks*|*bisection*) T="tests/test_bijections tests/test_masks.py tests/test_bisection_search.py"; ;;
  *distributions*|*flowjax/utils*) T="tests/test_distributions.py tests/test_utils.py"; ;;
  *wrappers*) T="tests/test_wrappers.py"; ;;
  *flows*) T="tests/test_flows.py"; ;;
  *train*) T="tests/test_train"; ;;
  *) T="tests"; ;;
esac
tres=$(cd $S && timeout 1500 /venv/bin/python -m pytest -q -p no:cacheprovider --timeout=600 -x -q $T --deselect tests/test_bijections/test_bijection_utils.py::test_Permute_argcheck --deselect tests/test_wrappers.py::test_BijectionReparam --deselect tests/test_wrappers.py::test_WeightNormalization -k "not bnaf and not block_neural and not triangular_spline" 2>&1 | tail -1)
P=$(sed 's/.*|//' $d/l1.txt | tr ' ' '\n' | grep ":" | cut -d: -f1 | tr '\n' ' ')
case "$f" in
  *rational_quadratic_spline*|*planar*) P="C01 C02 C07 C11 C18 C04";;
  *bijections/affine*|*tanh*|*softplus*|*exp.py|*bijections/utils*) P="C01 C02 C07 C18 C08 C13 C11 C05";;
  *chain*|*jax_transforms*|*concatenate*|*bijections/bijection*) P="C01 C02 C08 C13 C03 C12";;
  *coupling*|*masked_autoregressive*|*block_autoregressive*|*masks*|*bisection*) P="C09 C10 C01 C02 C12 C08";;
  *distributions*|*flowjax/utils*) P="C03 C05 C06 C13 C11 C12";;
  *wrappers*|*flows*) P="C12 C03 C04 C11 C09 C05";;
  *train*) P="C15 C16 C17 C12";;
esac
res=""
for p in $P; do
  out=$(cd /verif && FJVC_JOBS=2 FJVC_REPO=$S bin/check $p 2>&1); rc=$?
  if [ $rc -eq 1 ]; then res="$res $p:V"; elif [ $rc -eq 2 ]; then res="$res $p:U"; elif [ $rc -eq 3 ]; then res="$res $p:E"; fi
done
echo "$1 $f | tests: $tres | full:$res" > $d/stage2.txt
rm -rf $S
