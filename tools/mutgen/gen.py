import ast, os, random, sys, copy, json
random.seed(int(sys.argv[1]) if len(sys.argv) > 1 else 0)
N = int(sys.argv[2]) if len(sys.argv) > 2 else 150
ROOT = "/repo/flowjax"
files = []
for r, _, fs in os.walk(ROOT):
    for f in fs:
        p = os.path.join(r, f)
        if f.endswith(".py") and "experimental" not in p and not f.startswith("__") and "tasks" not in p and "_custom_types" not in p:
            files.append(p)
SWAP_BIN = {ast.Add: ast.Sub, ast.Sub: ast.Add, ast.Mult: ast.Div, ast.Div: ast.Mult, ast.FloorDiv: ast.Mult, ast.Mod: ast.FloorDiv}
SWAP_CMP = {ast.Lt: ast.LtE, ast.LtE: ast.Lt, ast.Gt: ast.GtE, ast.GtE: ast.Gt, ast.Eq: ast.NotEq, ast.NotEq: ast.Eq, ast.Is: ast.IsNot, ast.IsNot: ast.Is}
sites = []
for p in files:
    src = open(p).read()
    tree = ast.parse(src)
    # skip docstrings / annotations: walk function bodies only
    for fn in [n for n in ast.walk(tree) if isinstance(n, (ast.FunctionDef,))]:
        for node in ast.walk(fn):
            if isinstance(node, ast.BinOp) and type(node.op) in SWAP_BIN:
                sites.append((p, "binop", node.lineno, node.col_offset, type(node.op).__name__))
            elif isinstance(node, ast.Compare) and len(node.ops) == 1 and type(node.ops[0]) in SWAP_CMP:
                sites.append((p, "cmp", node.lineno, node.col_offset, type(node.ops[0]).__name__))
            elif isinstance(node, ast.Constant) and isinstance(node.value, (int, float)) and not isinstance(node.value, bool) and node.value in (0, 1, 2, -1):
                sites.append((p, "const", node.lineno, node.col_offset, repr(node.value)))
            elif isinstance(node, ast.UnaryOp) and isinstance(node.op, ast.USub) and not isinstance(node.operand, ast.Constant):
                sites.append((p, "usub", node.lineno, node.col_offset, ""))
            elif isinstance(node, ast.keyword) and isinstance(node.value, ast.Constant) and isinstance(node.value.value, bool):
                sites.append((p, "kwbool", node.value.lineno, node.value.col_offset, node.arg))
            elif isinstance(node, ast.BoolOp):
                sites.append((p, "boolop", node.lineno, node.col_offset, type(node.op).__name__))
sites = sorted(set(sites))
random.shuffle(sites)
picked = sites[:N]
out = []
for i, (p, kind, ln, col, info) in enumerate(picked):
    src = open(p).read()
    tree = ast.parse(src)
    done = False
    for node in ast.walk(tree):
        if getattr(node, "lineno", None) == ln and getattr(node, "col_offset", None) == col:
            if kind == "binop" and isinstance(node, ast.BinOp) and type(node.op).__name__ == info:
                node.op = SWAP_BIN[type(node.op)](); done = True
            elif kind == "cmp" and isinstance(node, ast.Compare) and type(node.ops[0]).__name__ == info:
                node.ops = [SWAP_CMP[type(node.ops[0])]()]; done = True
            elif kind == "const" and isinstance(node, ast.Constant) and repr(node.value) == info:
                node.value = {0: 1, 1: 2, 2: 1, -1: 0}[node.value]; done = True
            elif kind == "usub" and isinstance(node, ast.UnaryOp):
                # replace -x by x
                for parent in ast.walk(tree):
                    for f_, v in ast.iter_fields(parent):
                        if v is node:
                            setattr(parent, f_, node.operand); done = True
                        elif isinstance(v, list) and node in v:
                            v[v.index(node)] = node.operand; done = True
            elif kind == "kwbool" and isinstance(node, ast.Constant) and isinstance(node.value, bool):
                node.value = not node.value; done = True
            elif kind == "boolop" and isinstance(node, ast.BoolOp):
                node.op = ast.Or() if isinstance(node.op, ast.And) else ast.And(); done = True
            if done:
                break
    if not done:
        continue
    new = ast.unparse(tree)
    d = f"/var/tmp/mutgen/m{i:03d}"
    os.makedirs(d, exist_ok=True)
    rel = os.path.relpath(p, "/repo")
    open(os.path.join(d, "file.py"), "w").write(new)
    json.dump(dict(id=f"m{i:03d}", file=rel, kind=kind, line=ln, col=col, info=info, orig_line=src.splitlines()[ln - 1].strip()), open(os.path.join(d, "meta.json"), "w"))
    out.append(d)
print(len(sites), "sites;", len(out), "mutants")
