"""rewrite the obligation-count sentence of DESIGN.md 9.1 from the evidence files of the last full quick run"""
import json, re
counts = []
for i in range(1, 19):
    e = json.load(open(f"/verif/evidence/C{i:02d}.json"))
    counts.append(f"C{i:02d} {e['coverage']['obligations']}")
p = "/verif/DESIGN.md"
s = open(p).read()
s2 = re.sub(r"between properties counted under each\): C01 \d+.*?C18 \d+\.", "between properties counted under each): " + ", ".join(counts) + ".", s, count=1, flags=re.S)
open(p, "w").write(s2)
print(", ".join(counts))
