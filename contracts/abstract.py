"""Abstract (uninterpreted) bijections and distributions: the induction hypothesis of the modular proofs.

An abstract child satisfies exactly the shared contracts B (bijection) / D (distribution) of DESIGN.md section 3 and
nothing else: its maps are uninterpreted functions over an uninterpreted sort of tensors.  Combinators, Transformed,
losses ... are verified against these, so their proofs hold for EVERY child that satisfies the contract, i.e. for every
composition of any depth.
"""
import z3

from fjvc.core import apps_of
from fjvc.values import SV, R, I, lift

T = z3.DeclareSort("Tensor")  # a tensor of the child's shape (or a condition)
BIJ = z3.DeclareSort("Bij")  # identity of a bijection
DIST = z3.DeclareSort("Dist")
KEY = z3.DeclareSort("Key")

F = z3.Function("F", BIJ, T, T, T)  # forward map  F(b, x, c)
G = z3.Function("Finv", BIJ, T, T, T)  # inverse map
LD = z3.Function("LD", BIJ, T, T, R)  # log|det dF/dx| at x
NONE = z3.Const("no_condition", T)

LP = z3.Function("LP", DIST, T, T, R)  # base log density
S = z3.Function("Sample", DIST, KEY, T, T)


class TV:
    """tensor value of abstract sort"""

    def __init__(self, e):
        self.e = e

    def sum(self, *a, **k):
        return self

    def __repr__(self):
        return f"TV({self.e})"


def cond_term(c):
    if c is None:
        return NONE
    if isinstance(c, TV):
        return c.e
    raise TypeError(f"condition {c!r}")


class AbsBij:
    """abstract child bijection: calls go through the four public names (each call is recorded for struct/reentry)"""

    def __init__(self, b, shape=None, cond_shape=None, conditional=None, calls=None):
        self.b, self.shape, self.cond_shape = b, shape, cond_shape
        self.calls = calls if calls is not None else []

    def _c(self, condition):
        return cond_term(condition)

    def transform(self, x, condition=None):
        self.calls.append(("transform", x, condition))
        return TV(F(self.b, x.e, self._c(condition)))

    def inverse(self, y, condition=None):
        self.calls.append(("inverse", y, condition))
        return TV(G(self.b, y.e, self._c(condition)))

    def transform_and_log_det(self, x, condition=None):
        self.calls.append(("transform_and_log_det", x, condition))
        c = self._c(condition)
        return TV(F(self.b, x.e, c)), SV(LD(self.b, x.e, c))

    def inverse_and_log_det(self, y, condition=None):
        self.calls.append(("inverse_and_log_det", y, condition))
        c = self._c(condition)
        g = G(self.b, y.e, c)
        return TV(g), SV(-LD(self.b, g, c))  # B-ld: inverse log-det = minus the forward log-det at the inverse image


class AbsDist:
    def __init__(self, d, shape=None, cond_shape=None):
        self.d, self.shape, self.cond_shape = d, shape, cond_shape

    def _log_prob(self, x, condition=None):
        return SV(LP(self.d, x.e, cond_term(condition)))

    def _sample(self, key, condition=None):
        return TV(S(self.d, key.e, cond_term(condition)))

    def _sample_and_log_prob(self, key, condition=None):
        # contract D: the default (and every override) returns the sample for that key and its own log-density
        s = S(self.d, key.e, cond_term(condition))
        return TV(s), SV(LP(self.d, s, cond_term(condition)))


def B_instances(asserts):
    """ground instances of contract B for every application of F / Finv in the obligation:
    rt1  Finv(b, F(b,x,c), c) == x ;  rt2  F(b, Finv(b,y,c), c) == y   (total bijections; Dom/Cod handled by the leaf contracts)"""
    out = []
    for a in apps_of(F, asserts):
        b, x, c = a.children()
        out.append(G(b, a, c) == x)
    for a in apps_of(G, asserts):
        b, y, c = a.children()
        out.append(F(b, a, c) == y)
    return out
