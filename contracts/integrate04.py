"""C04: flow densities integrate to one and the sampler draws from them -- a COROLLARY.

If every layer is a bijection of R^d ONTO R^d (C01 round trips with Dom = Cod = R: flags `total` / `onto` of the leaf
contracts), reports its true log-det (C02), density and sampler use inverse / transform of the SAME bijection and base
objects (C03), and the base density is normalised with a matching sampler (T3), then by the change-of-variables theorem
(Mathlib: MeasureTheory.integral_image_eq_integral_abs_det_fderiv_smul -- cited, not instantiated) exp(log_prob)
integrates to one and is the density of the samples.  This module generates the C04-specific structural obligations; the
premises themselves are the obligations of the cited families (tagged C04 there).  The statistical half is NOT decided."""
import ast

import z3

from fjvc.core import family
from fjvc.interp import find_def

from . import leaves as L

ONTO_FAMILIES = {  # class -> (contract family, obligations that establish total + onto R)
    "LeakyTanh": ("leaves/LeakyTanh", ["C01/LeakyTanh/rt1", "C01/LeakyTanh/rt2"]),
    "Affine": ("leaves/Affine", ["C01/Affine/rt1", "C01/Affine/rt2"]),
    "Loc": ("leaves/Loc", ["C01/Loc/rt1", "C01/Loc/rt2"]),
    "Identity": ("leaves/Identity", ["C01/Identity/rt1", "C01/Identity/rt2"]),
    "RationalQuadraticSpline": ("spline/RationalQuadraticSpline", ["C01/RationalQuadraticSpline/rt1[in_interval]", "C01/RationalQuadraticSpline/rt2[in_interval]", "C01/RationalQuadraticSpline/image_in_interval"]),
}
NOT_ONTO = {"Tanh": "codomain (-1, 1)", "Exp": "codomain (0, inf)", "SoftPlus": "codomain (0, inf)"}


def default_activation_class(tree):
    cls = find_def(tree, "BlockAutoregressiveNetwork")
    init = next(n for n in cls.body if isinstance(n, ast.FunctionDef) and n.name == "__init__")
    for st in ast.walk(init):
        if isinstance(st, ast.If) and ast.unparse(st.test) == "activation is None":
            for b in st.body:
                if isinstance(b, ast.Assign) and isinstance(b.value, ast.Call):
                    return ast.unparse(b.value.func), ast.unparse(b.value)
    return None, None


@family("integrate04/structure", ["C04"])
def c04_structure(ctx):
    it = ctx.interp
    props = ["C04"]
    # contract flags of the leaf classes (declared Dom / Cod; their round trips are proved in the cited families, which also carry C04)
    for fam_name, _p, fn in list(__import__("fjvc.core", fromlist=["FAMILIES"]).FAMILIES):
        if fam_name in {v[0] for v in ONTO_FAMILIES.values()} and fam_name.startswith("leaves/"):
            sub = ctx.__class__(fam_name, ctx.source, ctx.tier)
            try:
                fn(sub)
            except Exception:
                pass
    for cname, (fam_name, cites) in ONTO_FAMILIES.items():
        if cname in L.LEAVES:
            ctx.oblige(f"C04/{cname}/struct/total_and_onto_R", bool(L.LEAVES[cname]["total"] and L.LEAVES[cname]["onto"]), [], props, kind="struct", fn=L.LEAVES[cname]["qual"], cites=cites,
                       note="contract declares Dom = Cod = R; the round trips under that declaration are the cited obligations")
    # the default activation of BNAF must be onto R (issue #102: tanh / exp / softplus activations give unnormalised densities)
    _p, tree = it.source.module("flowjax.bijections.block_autoregressive_network")
    cname, expr = default_activation_class(tree)
    ok = cname in ONTO_FAMILIES and cname not in NOT_ONTO
    ctx.oblige("C04/BlockAutoregressiveNetwork/struct/default_activation_onto_R", bool(ok), [], props, kind="struct", fn="flowjax.bijections.block_autoregressive_network.BlockAutoregressiveNetwork.__init__",
               note=f"default activation expression: {expr}; {NOT_ONTO.get(cname, '')}", replay=dict(kind="c04", vars={}))
    # triangular_spline_flow: tanh squashing must be the leaky (onto) variant, applied and inverted around the spline
    _p, ftree = it.source.module("flowjax.flows")
    fn = find_def(ftree, "triangular_spline_flow")
    names = [ast.unparse(n.func) for n in ast.walk(fn) if isinstance(n, ast.Call) and isinstance(n.func, ast.Name)]
    bad = [n for n in names if n in NOT_ONTO]
    ctx.oblige("C04/triangular_spline_flow/struct/no_non_onto_layer", not bad and "LeakyTanh" in names, [], props, kind="struct", fn="flowjax.flows.triangular_spline_flow", note=f"layer constructors used: {sorted(set(names))}", replay=dict(kind="c04", vars={}))
    # factories: executed symbolically in flows/factories (contracts/flowsfac.py): Transformed(given base, Invert(Scan(L)) | Scan(L))
    ctx.assume_note("C04: change-of-variables theorem (Mathlib MeasureTheory.integral_image_eq_integral_abs_det_fderiv_smul) cited, not instantiated; base densities normalised and base samplers exact (T3); bijectivity of Planar(tanh) (no closed-form inverse) and onto-ness of BNAF / Coupling / MaskedAutoregressive compositions follow from triangular structure with onto transformers (cited, C09 + C01) and are not re-proved here; the statistical statement 'samples are distributed according to the density' is not decided by this technique (bounded goodness-of-fit stand-in only)")
