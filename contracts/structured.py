"""Value semantics of the structured layers Coupling and MaskedAutoregressive (C01, C02, C09, C07) over an ABSTRACT
conditioner network and an ABSTRACT elementwise transformer family.

  NN / THETA   conditioner output (uninterpreted); for the masked network THETA(i, v, c) = parameters of dimension i
  TAU          tau(theta, v), TAUINV, LDT: the shape-() transformer with parameters theta applied to one element (contract B:
               TAUINV(t, TAU(t, v)) == v, TAU(t, TAUINV(t, w)) == w; instances added per application)
Premise taken from C09 (proved there from the real masks for all weights): THETA(i, v, c) depends on v[0..i-1] and c only.
Determinant facts (T3, cited): block-triangular / triangular Jacobian => log|det| = sum of the transformed coordinates' log-derivatives.
"""
import z3

from fjvc.core import family, apps_of, split_goal, forall_instances
from fjvc.interp import Obj, LoopSpec, Untranslatable
from fjvc.values import SV, SumT, lift, to_real, R, I

from .abstract import AbsBij, TV, T, BIJ, F, G, LD, NONE, B_instances
from .leaves import method, single

# ------------------------------------------------------------------------------------------------ Coupling
HEAD = z3.Function("first_block", T, T)  # x[:untransformed_dim]
TAIL = z3.Function("rest_block", T, T)  # x[untransformed_dim:]
HS = z3.Function("hstack", T, T, T)
NN = z3.Function("conditioner", T, T)
BOF = z3.Function("transformer_with_params", T, BIJ)  # Vmap(vmap(constructor)(reshape(params)))


@family("structured/Coupling", ["C01", "C02", "C09", "C07"])
def coupling(ctx):
    props = ["C01", "C02", "C09", "C07"]
    Q = "flowjax.bijections.coupling.Coupling"
    x, c = z3.Const("x", T), z3.Const("c", T)
    for cname, cond in (("unconditional", None), ("conditional", TV(c))):
        it = ctx.new_interp()
        cls = it.repo_class(Q)
        D = SV(z3.Int("untransformed_dim"))

        class CTV(TV):
            def __getitem__(self, idx):
                if isinstance(idx, slice) and idx.step is None:
                    if idx.start is None and idx.stop is D:
                        return CTV(HEAD(self.e))
                    if idx.stop is None and idx.start is D:
                        return CTV(TAIL(self.e))
                raise Untranslatable(f"Coupling slices its input at {idx!r} (expected the untransformed_dim split)")

        def hstack(parts):
            a, b = parts
            if a is None or b is None:
                from fjvc.interp import PyRaise
                raise PyRaise("TypeError", "concatenate of None")
            return CTV(HS(a.e, b.e))

        it.lib.overrides["jax.numpy.hstack"] = hstack
        it.lib.overrides["jax.numpy.concatenate"] = hstack
        it.lib.overrides["jax.numpy.reshape"] = lambda a, shape: a
        it.lib.overrides["equinox.filter_vmap"] = lambda f, **k: f
        it.lib.overrides["equinox.if_array"] = lambda ax: ax

        class ABij(AbsBij):
            def transform(self, x_, condition=None):
                return CTV(super().transform(x_, condition).e)

            def inverse(self, y_, condition=None):
                return CTV(super().inverse(y_, condition).e)

            def transform_and_log_det(self, x_, condition=None):
                a, b = super().transform_and_log_det(x_, condition)
                return CTV(a.e), b

            def inverse_and_log_det(self, y_, condition=None):
                a, b = super().inverse_and_log_det(y_, condition)
                return CTV(a.e), b

        it.global_overrides["flowjax.bijections.coupling"] = {"Vmap": lambda tr, in_axes=None: ABij(BOF(tr.e))}
        o = Obj(cls, shape=("dim",), cond_shape=None if cond is None else ("cond_dim",), untransformed_dim=D, dim=SV(z3.Int("dim")),
                transformer_constructor=lambda params: params, conditioner=lambda v: CTV(NN(v.e)))
        tag = cname
        rp = dict(kind="simple", cls="Coupling", vars={})

        def run(meth, arg):
            ps = it.explore(lambda: method(cls, meth)(o, CTV(arg), cond))
            return single(ps, ctx, f"C09/Coupling.{meth}[{tag}]/struct/straight_line", props, f"{Q}.{meth}")

        nn_in = lambda v: HEAD(v) if cond is None else HS(HEAD(v), c)  # noqa: E731
        bij = lambda v: BOF(NN(nn_in(v)))  # noqa: E731
        pt, ptl = run("transform", x), run("transform_and_log_det", x)
        y = z3.Const("y", T)
        pi, pil = run("inverse", y), run("inverse_and_log_det", y)
        if None in (pt, ptl, pi, pil):
            continue
        fwd = HS(HEAD(x), F(bij(x), TAIL(x), NONE))
        bwd = HS(HEAD(y), G(bij(y), TAIL(y), NONE))
        # C09: the first block is returned unchanged; the rest is transformed by a bijection whose parameters are a function of
        # the first block and the condition only (term structure), and which acts elementwise (Vmap of a shape-() transformer)
        ctx.oblige(f"C09/Coupling.transform[{tag}]/post/first_block_unchanged_rest_conditioned_on_first_block_and_condition", pt.value.e == fwd, pt.cond, props, fn=Q + ".transform", replay=rp)
        ctx.oblige(f"C09/Coupling.inverse[{tag}]/post/first_block_unchanged_rest_conditioned_on_first_block_and_condition", pi.value.e == bwd, pi.cond, props, fn=Q + ".inverse", replay=rp)
        ctx.oblige(f"C01/Coupling[{tag}]/same_fwd", ptl.value[0].e == pt.value.e, ptl.cond, props, fn=Q + ".transform_and_log_det", replay=rp)
        ctx.oblige(f"C01/Coupling[{tag}]/same_inv", pil.value[0].e == pi.value.e, pil.cond, props, fn=Q + ".inverse_and_log_det", replay=rp)
        # T1 laws of slicing at one fixed split point / hstack
        def laws(asserts):
            out = []
            for a in apps_of(HS, asserts):
                p, q = a.children()
                if z3.is_app(p) and p.decl().eq(HEAD):  # hstack((v[:d], w)) with len(w) == len(v) - d
                    out += [HEAD(a) == p, TAIL(a) == q]
            for v in (x, y):
                out.append(HS(HEAD(v), TAIL(v)) == v)
            return out
        lawful = [HEAD(fwd) == HEAD(x), TAIL(fwd) == F(bij(x), TAIL(x), NONE), HEAD(bwd) == HEAD(y), TAIL(bwd) == G(bij(y), TAIL(y), NONE), HS(HEAD(x), TAIL(x)) == x, HS(HEAD(y), TAIL(y)) == y]
        back = z3.substitute(pi.value.e, (y, pt.value.e))
        forth = z3.substitute(pt.value.e, (x, pi.value.e))
        ctx.oblige(f"C01/Coupling[{tag}]/rt1", back == x, lawful, props, fn=Q + ".inverse", replay=rp, inst=[B_instances],
                   note="hypotheses: head/tail of an hstack at the same split point are its parts (the transformer keeps the length of the rest block)")
        ctx.oblige(f"C01/Coupling[{tag}]/rt2", forth == y, lawful, props, fn=Q + ".transform", replay=rp, inst=[B_instances])
        ctx.control(f"C01/Coupling[{tag}]/control/rt1_without_slice_laws", back == x, [], props, fn=Q + ".inverse", inst=[B_instances])
        # C02: block-triangular Jacobian [[I, 0], [*, dF]]: log|det| = log-det of the transformer on the rest block
        ctx.oblige(f"C02/Coupling[{tag}]/ld_fwd", lift(ptl.value[1]) == LD(bij(x), TAIL(x), NONE), ptl.cond, props, fn=Q + ".transform_and_log_det", replay=rp)
        ctx.oblige(f"C02/Coupling[{tag}]/ld_inv", lift(pil.value[1]) == -LD(bij(y), G(bij(y), TAIL(y), NONE), NONE), pil.cond, props, fn=Q + ".inverse_and_log_det", replay=rp,
                   note="minus the forward log-det at the inverse image (same parameters: the first block is shared)")


# ------------------------------------------------------------------------------------------------ MaskedAutoregressive
ArrS = z3.ArraySort(I, R)
PS = z3.DeclareSort("TransformerParams")
THETA = z3.Function("theta", I, ArrS, T, PS)  # parameters of dimension i given the network input (x, condition)
TAU = z3.Function("tau", PS, R, R)
TAUINV = z3.Function("tau_inv", PS, R, R)
LDT = z3.Function("tau_logdet", PS, R, R)


def sel(arr, i):
    """Select with beta reduction of lambda arrays (keeps applications ground for the instance generators)"""
    if z3.is_quantifier(arr) and arr.is_lambda():
        return z3.substitute_vars(arr.body(), i)
    if z3.is_app(arr) and arr.decl().kind() == z3.Z3_OP_STORE:
        a0, k0, v0 = arr.children()
        return z3.If(i == k0, v0, sel(a0, i))
    return z3.Select(arr, i)


class AV:
    """rank-1 real array: z3 array + symbolic length"""

    def __init__(self, arr, n):
        self.arr, self.n = arr, n

    def sym_len(self):
        return SV(self.n)

    @property
    def shape(self):
        return (SV(self.n),)

    def __getitem__(self, i):
        return SV(sel(self.arr, lift(i)))

    @property
    def at(self):
        me = self

        class At:
            def __getitem__(self, i):
                class S:
                    def set(self_, v):
                        return AV(z3.Store(me.arr, lift(i), to_real(lift(v))), me.n)
                return S()
        return At()


def tau_instances(asserts):
    out = []
    for a in apps_of(TAU, asserts):
        t, v = a.children()
        out.append(TAUINV(t, a) == v)
    for a in apps_of(TAUINV, asserts):
        t, w = a.children()
        out.append(TAU(t, a) == w)
    return out


def autoregressive_instances(asserts):
    """C09 premise: theta_i depends on the entries before i (and the condition) only"""
    import itertools
    out = []
    m = z3.Int("m!b")
    th = apps_of(THETA, asserts)
    for a, b in itertools.combinations(th, 2):
        if a.arg(0).eq(b.arg(0)) and a.arg(2).eq(b.arg(2)) and not a.arg(1).eq(b.arg(1)):
            i = a.arg(0)
            out.append(z3.Implies(z3.ForAll([m], z3.Implies(z3.And(m >= 0, m < i), sel(a.arg(1), m) == sel(b.arg(1), m))), a == b))
    return out


@family("structured/MaskedAutoregressive", ["C01", "C02", "C09", "C07"])
def masked_autoregressive(ctx):
    props = ["C01", "C02", "C09", "C07"]
    MQ = "flowjax.bijections.masked_autoregressive"
    Q = f"{MQ}.MaskedAutoregressive"
    n = z3.Int("dim")
    j = z3.Int("j")
    c = z3.Const("c", T)
    for cname, cond in (("unconditional", None), ("conditional", TV(c))):
        it = ctx.new_interp()
        cls = it.repo_class(Q)
        cc = NONE if cond is None else c
        tag = cname

        class NNIn:
            def __init__(self, v, cnd):
                self.v, self.cnd = v, cnd

        def hstack(parts):
            a, b = parts
            if isinstance(a, AV) and b is cond:
                return NNIn(a, b)
            raise Untranslatable("hstack of something else than (x, condition)")

        class Params:
            def __init__(self, v):
                self.v = v

        def mlp(inp):
            if isinstance(inp, AV):
                if cond is not None:
                    raise Untranslatable("conditional layer called its network without the condition")
                return Params(inp)
            return Params(inp.v)

        class Elem:
            """Vmap of the shape-() transformer over per-dimension parameters"""

            def __init__(self, params):
                self.p = params.v

            def _th(self, i):
                return THETA(i, self.p.arr, cc)

            def transform(self, x_, condition=None):
                k = z3.Int("k!b")
                return AV(z3.Lambda([k], TAU(self._th(k), sel(x_.arr, k))), x_.n)

            def inverse(self, y_, condition=None):
                k = z3.Int("k!b")
                return AV(z3.Lambda([k], TAUINV(self._th(k), sel(y_.arr, k))), y_.n)

            def transform_and_log_det(self, x_, condition=None):
                return self.transform(x_), SumT(LDT(self._th(j), sel(x_.arr, j)))

            def inverse_and_log_det(self, y_, condition=None):
                xi = self.inverse(y_)
                return xi, SumT(-LDT(self._th(j), sel(xi.arr, j)))

        it.lib.overrides["jax.numpy.hstack"] = hstack
        it.lib.overrides["jax.numpy.reshape"] = lambda a, shape: a
        it.lib.overrides["equinox.filter_vmap"] = lambda f, **k: f
        it.lib.overrides["equinox.if_array"] = lambda ax: ax
        it.global_overrides[MQ] = {"Vmap": lambda tr, in_axes=None: Elem(tr)}
        o = Obj(cls, shape=(SV(n),), cond_shape=None if cond is None else ("cond_dim",), transformer_constructor=lambda params: params, masked_autoregressive_mlp=mlp)
        rp = dict(kind="simple", cls="MaskedAutoregressive", vars={})
        X, Y = z3.Array("x", I, R), z3.Array("y", I, R)
        rng = [n >= 1, j >= 0, j < n]
        inst = [forall_instances, tau_instances, autoregressive_instances, tau_instances]
        pt = single(it.explore(lambda: method(cls, "transform")(o, AV(X, n), cond)), ctx, f"C09/MaskedAutoregressive.transform[{tag}]/struct/straight_line", props, Q + ".transform")
        ptl = single(it.explore(lambda: method(cls, "transform_and_log_det")(o, AV(X, n), cond)), ctx, f"C09/MaskedAutoregressive.transform_and_log_det[{tag}]/struct/straight_line", props, Q + ".transform_and_log_det")
        if pt is None or ptl is None:
            continue
        fwd_j = TAU(THETA(j, X, cc), sel(X, j))
        ctx.oblige(f"C09/MaskedAutoregressive.transform[{tag}]/post/output_j_is_tau_of_x_j_with_parameters_of_dimension_j", sel(pt.value.arr, j) == fwd_j, rng + pt.cond, props, fn=Q + ".transform", replay=rp,
                   note="with the C09 mask premise (theta_j depends on x[<j] and the condition): output j depends on inputs 0..j only")
        ctx.oblige(f"C01/MaskedAutoregressive[{tag}]/same_fwd", sel(ptl.value[0].arr, j) == fwd_j, rng + ptl.cond, props, fn=Q + ".transform_and_log_det", replay=rp)
        ld = ptl.value[1]
        ctx.oblige(f"C02/MaskedAutoregressive[{tag}]/ld_scalar", isinstance(ld, SumT), [], props, kind="struct", fn=Q + ".transform_and_log_det")
        if isinstance(ld, SumT):
            ctx.oblige(f"C02/MaskedAutoregressive[{tag}]/ld_fwd", ld.t == LDT(THETA(j, X, cc), sel(X, j)), rng + ptl.cond, props, fn=Q + ".transform_and_log_det", replay=rp,
                       note="triangular Jacobian (C09): log|det| = sum_j log|d tau / d x_j|")
        # ---- inverse: lax.scan cut.  Two invariants, one per round-trip direction
        mq = z3.Int("m!q")
        for direction in ("rt1", "rt2"):
            it2 = it
            # input of the inverse: rt1: the forward image of x; rt2: an arbitrary y
            if direction == "rt1":
                k0 = z3.Int("k!b")
                Yin = z3.Lambda([k0], TAU(THETA(k0, X, cc), sel(X, k0)))
            else:
                Yin = Y

            def inv(k, st, init=None, direction=direction, Yin=Yin):
                cur, rank = st
                base = [k >= 0, k <= n, lift(rank) == k, z3.ForAll([mq], z3.Implies(z3.And(mq >= k, mq < n), sel(cur.arr, mq) == sel(Yin, mq)))]
                if direction == "rt1":
                    base.append(z3.ForAll([mq], z3.Implies(z3.And(mq >= 0, mq < k), sel(cur.arr, mq) == sel(X, mq))))
                else:
                    base.append(z3.ForAll([mq], z3.Implies(z3.And(mq >= 0, mq < k), sel(cur.arr, mq) == TAUINV(THETA(mq, cur.arr, cc), sel(Yin, mq)))))
                return z3.And(*base)

            def havoc(k, init):
                return (AV(z3.Array(f"cur!{it2.fresh_counter}_{it2.fresh('h', 'int')}", I, R), n), SV(it2.fresh("rank", "int")))

            it2.loop_specs[(Q + ".inverse", "lax.scan#0")] = LoopSpec(inv, havoc)
            pi = it2.explore(lambda Yin=Yin: method(cls, "inverse")(o, AV(Yin, n), cond))
            pi = single(pi, ctx, f"C01/MaskedAutoregressive.inverse[{tag},{direction}]/struct/straight_line", props, Q + ".inverse")
            if pi is None:
                continue
            hyp0 = [n >= 1]
            for em in pi.obligations:
                for suffix, g_ in split_goal(em.goal):
                    ctx.oblige(f"C01/MaskedAutoregressive[{tag},{direction}]/" + em.oid.replace(Q + ".", "") + suffix, g_, hyp0 + em.hyps, props, kind=em.kind, fn=Q + ".inverse", replay=rp, inst=inst)
            res = pi.value
            if direction == "rt1":
                ctx.oblige(f"C01/MaskedAutoregressive[{tag}]/rt1", sel(res.arr, j) == sel(X, j), rng + pi.cond, props, fn=Q + ".inverse", replay=rp, inst=inst)
            else:
                # forward map applied to the result of the inverse returns y
                back_j = TAU(THETA(j, res.arr, cc), sel(res.arr, j))
                ctx.oblige(f"C01/MaskedAutoregressive[{tag}]/rt2", back_j == sel(Y, j), rng + pi.cond, props, fn=Q + ".transform", replay=rp, inst=inst)
                # inverse_and_log_det: same point, log-det = minus the forward log-det at the inverse image
                pil = it2.explore(lambda: method(cls, "inverse_and_log_det")(o, AV(Y, n), cond))
                pil = single(pil, ctx, f"C02/MaskedAutoregressive.inverse_and_log_det[{tag}]/struct/straight_line", props, Q + ".inverse_and_log_det")
                if pil is not None:
                    xv, ldi = pil.value
                    ctx.oblige(f"C02/MaskedAutoregressive[{tag}]/ld_inv_scalar", isinstance(ldi, SumT), [], props, kind="struct", fn=Q + ".inverse_and_log_det")
                    if isinstance(ldi, SumT):
                        ctx.oblige(f"C02/MaskedAutoregressive[{tag}]/ld_inv", ldi.t == -LDT(THETA(j, xv.arr, cc), sel(xv.arr, j)), rng + pil.cond, props, fn=Q + ".inverse_and_log_det", replay=rp,
                                   note="minus the forward log-det at the point the inverse returned")


# ------------------------------------------------------------------------------------------------ constructors
@family("structured/constructors", ["C08", "C13", "C09"])
def structured_constructors(ctx):
    """declared shapes and conditioner sizes of Coupling / Planar / BlockAutoregressiveNetwork, and their documented rejections"""
    props = ["C08", "C13", "C09"]
    dim, cd, ud, npar = z3.Ints("dim cond_dim untransformed_dim num_params")
    # ---- Coupling
    CQ = "flowjax.bijections.coupling"
    for cname, cdv in (("unconditional", None), ("conditional", SV(cd))):
        for tname, tshape, tcond in (("scalar_transformer", (), None), ("vector_transformer", (SV(z3.Int("k")),), None), ("conditional_transformer", (), ("c",))):
            it = ctx.new_interp()
            mlp_calls = []
            it.lib.overrides["equinox.nn.MLP"] = lambda **kw: mlp_calls.append(kw) or ("mlp", len(mlp_calls))
            it.global_overrides[CQ] = {"get_ravelled_pytree_constructor": lambda t, *a, **k: ("constructor", SV(npar))}
            cls = it.repo_class(f"{CQ}.Coupling")

            class Tr:
                shape = tshape
                cond_shape = tcond

            fq = f"{CQ}.Coupling.__init__"
            paths = it.explore(lambda: cls("key", transformer=Tr(), untransformed_dim=SV(ud), dim=SV(dim), cond_dim=cdv, nn_width=SV(z3.Int("w")), nn_depth=SV(z3.Int("d"))))
            tag = f"{cname},{tname}"
            valid_t = tname == "scalar_transformer"
            for n_, p in enumerate(paths):
                if p.outcome == "raise":
                    ctx.oblige(f"C13/Coupling.__init__[{tag}]/post/raises_only_for_a_non_scalar_or_conditional_transformer#{n_}", (not valid_t) and p.value.exc == "ValueError", [], props, kind="struct", fn=fq, replay=dict(kind="simple", cls="Coupling", vars={}))
                    continue
                ctx.oblige(f"C13/Coupling.__init__[{tag}]/post/accepts_only_scalar_unconditional_transformers#{n_}", valid_t, [], props, kind="struct", fn=fq, replay=dict(kind="simple", cls="Coupling", vars={}))
                o = p.value
                shp = o.shape
                okshape = isinstance(shp, tuple) and len(shp) == 1
                ctx.oblige(f"C08/Coupling.__init__[{tag}]/post/shape_is_dim#{n_}", lift(shp[0]) == dim if okshape else z3.BoolVal(False), p.cond, props, fn=fq)
                if cdv is None:
                    ctx.oblige(f"C08/Coupling.__init__[{tag}]/post/unconditional#{n_}", o.cond_shape is None, [], props, kind="struct", fn=fq)
                else:
                    okc = isinstance(o.cond_shape, tuple) and len(o.cond_shape) == 1
                    ctx.oblige(f"C08/Coupling.__init__[{tag}]/post/cond_shape_is_cond_dim#{n_}", lift(o.cond_shape[0]) == cd if okc else z3.BoolVal(False), p.cond, props, fn=fq)
                okm = len(mlp_calls) >= 1
                ctx.oblige(f"C09/Coupling.__init__[{tag}]/struct/conditioner_is_an_mlp#{n_}", okm, [], props, kind="applicability", fn=fq)
                if okm:
                    kw = mlp_calls[-1]
                    want_in = ud + cd if cdv is not None else ud
                    ctx.oblige(f"C09/Coupling.__init__[{tag}]/post/conditioner_reads_first_block_and_condition#{n_}", lift(kw.get("in_size")) == want_in, p.cond, props, fn=fq, replay=dict(kind="simple", cls="Coupling", vars={}))
                    ctx.oblige(f"C09/Coupling.__init__[{tag}]/post/conditioner_emits_the_parameters_of_the_rest_block#{n_}", lift(kw.get("out_size")) == npar * (dim - ud), p.cond, props, fn=fq, replay=dict(kind="simple", cls="Coupling", vars={}))
                    ctx.oblige(f"C09/Coupling.__init__[{tag}]/post/split_point_stored#{n_}", lift(o.untransformed_dim) == ud, p.cond, props, fn=fq)
    # ---- Planar
    PQ = "flowjax.bijections.planar"
    for cname, cdv in (("unconditional", None), ("conditional", SV(cd))):
        it = ctx.new_interp()
        mlp_calls, normal_calls = [], []
        it.lib.overrides["equinox.nn.MLP"] = lambda *a, **kw: mlp_calls.append((a, kw)) or ("mlp",)
        it.lib.overrides["jax.random.normal"] = lambda key, shape=(), **k: normal_calls.append(shape) or SV(z3.Real("init_params"), True, {"shape": shape})
        cls = it.repo_class(f"{PQ}.Planar")
        fq = f"{PQ}.Planar.__init__"
        paths = [p for p in it.explore(lambda: cls("key", dim=SV(dim), cond_dim=cdv)) if p.outcome == "return"]
        ctx.oblige(f"C08/Planar.__init__[{cname}]/struct/constructs", len(paths) == 1, [], props, kind="applicability", fn=fq)
        if len(paths) != 1:
            continue
        p = paths[0]
        o = p.value
        ctx.oblige(f"C08/Planar.__init__[{cname}]/post/shape_is_dim", lift(o.shape[0]) == dim if isinstance(o.shape, tuple) and len(o.shape) == 1 else z3.BoolVal(False), p.cond, props, fn=fq)
        if cdv is None:
            ctx.oblige(f"C08/Planar.__init__[{cname}]/post/unconditional", o.cond_shape is None and o.conditioner is None, [], props, kind="struct", fn=fq)
        else:
            # (how many parameters the conditioner emits and how get_planar slices them is an internal layout: the
            #  planar/Planar family checks that all four methods slice them the same way)
            okc = isinstance(o.cond_shape, tuple) and len(o.cond_shape) == 1
            ctx.oblige(f"C08/Planar.__init__[{cname}]/post/cond_shape_is_cond_dim", lift(o.cond_shape[0]) == cd if okc else z3.BoolVal(False), p.cond, props, fn=fq)
    # ---- BlockAutoregressiveNetwork
    BQ = "flowjax.bijections.block_autoregressive_network"
    bd = z3.Int("block_dim")
    for depth in (0, 1, 2, 3):
        for cname, cdv in (("unconditional", None), ("conditional", SV(cd))):
            it = ctx.new_interp()
            lin_calls, cond_lin = [], []

            class Lin:
                def __init__(self, n_blocks, block_shape):
                    self.n_blocks, self.block_shape = n_blocks, block_shape
                    self.out_features = block_shape[0] * n_blocks if not isinstance(block_shape[0], SV) else SV(lift(block_shape[0]) * lift(n_blocks))

            def bal(key, *, n_blocks, block_shape):
                l = Lin(n_blocks, block_shape)
                lin_calls.append(l)
                return (l, "log_jac_fn")

            it.global_overrides[BQ] = {"block_autoregressive_linear": bal, "LeakyTanh": lambda *a, **k: ("LeakyTanh", a), "AutoregressiveBisectionInverter": lambda *a, **k: "default_inverter"}
            it.lib.overrides["equinox.nn.Linear"] = lambda i, o, **k: cond_lin.append((i, o, k)) or ("cond_linear",)
            it.lib.overrides["jax.random.split"] = lambda key, num=2: [f"{key}/{j}" for j in range(num if isinstance(num, int) else 2)]
            cls = it.repo_class(f"{BQ}.BlockAutoregressiveNetwork")
            fq = f"{BQ}.BlockAutoregressiveNetwork.__init__"
            del lin_calls[:]
            paths = [p for p in it.explore(lambda: cls("key", dim=SV(dim), cond_dim=cdv, depth=depth, block_dim=SV(bd))) if p.outcome == "return"]
            tag = f"depth={depth},{cname}"
            ctx.oblige(f"C08/BlockAutoregressiveNetwork.__init__[{tag}]/struct/constructs", len(paths) == 1, [], props, kind="applicability", fn=fq)
            if len(paths) != 1:
                continue
            p = paths[0]
            o = p.value
            layers = list(o.layers)
            ctx.oblige(f"C08/BlockAutoregressiveNetwork.__init__[{tag}]/post/depth_plus_one_linear_layers", len(layers) == depth + 1, [], props, kind="struct", fn=fq)
            if len(layers) != depth + 1:
                continue
            # block shapes chain: (b,1), (b,b)..., (1,b)  (or (1,1) for depth 0): consecutive layers are composable, the
            # network maps dim -> dim
            bs = [l[0].block_shape for l in layers]
            comp = [lift(bs[j][1]) == lift(bs[j - 1][0]) for j in range(1, len(bs))]
            ends = [lift(bs[0][1]) == 1, lift(bs[-1][0]) == 1]
            nb = [lift(l[0].n_blocks) == dim for l in layers]
            ctx.oblige(f"C08/BlockAutoregressiveNetwork.__init__[{tag}]/post/block_shapes_compose_from_dim_to_dim", z3.And(*(comp + ends + nb)), p.cond + [bd >= 1], props, fn=fq, replay=dict(kind="simple", cls="BlockAutoregressiveNetwork", vars={}))
            ctx.oblige(f"C08/BlockAutoregressiveNetwork.__init__[{tag}]/post/shape_is_dim", lift(o.shape[0]) == dim if isinstance(o.shape, tuple) and len(o.shape) == 1 else z3.BoolVal(False), p.cond, props, fn=fq)
            if cdv is None:
                ctx.oblige(f"C08/BlockAutoregressiveNetwork.__init__[{tag}]/post/unconditional", o.cond_shape is None and o.cond_linear is None, [], props, kind="struct", fn=fq)
            else:
                okc = len(cond_lin) >= 1
                ctx.oblige(f"C08/BlockAutoregressiveNetwork.__init__[{tag}]/struct/condition_enters_through_a_linear_map", okc, [], props, kind="applicability", fn=fq)
                if okc:
                    i_, o_, _k = cond_lin[-1]
                    ctx.oblige(f"C08/BlockAutoregressiveNetwork.__init__[{tag}]/post/condition_map_sizes", z3.And(lift(i_) == cd, lift(o_) == lift(bs[0][0]) * dim), p.cond, props, fn=fq, replay=dict(kind="simple", cls="BlockAutoregressiveNetwork", vars={}),
                               note="maps the condition to the width of the first layer's output (where it is added)")
                ctx.oblige(f"C08/BlockAutoregressiveNetwork.__init__[{tag}]/post/cond_shape_is_cond_dim", lift(o.cond_shape[0]) == cd if isinstance(o.cond_shape, tuple) and len(o.cond_shape) == 1 else z3.BoolVal(False), p.cond, props, fn=fq)
    # ---- documented rejections: the activation of a BNAF / the transformer of a MAF must be an unconditional shape-() bijection
    AB = None
    for depth in (1,):
        it = ctx.new_interp()
        it.global_overrides[BQ] = {"block_autoregressive_linear": lambda key, *, n_blocks, block_shape: (type("L", (), dict(out_features=SV(z3.Int("out_features")), n_blocks=n_blocks, block_shape=block_shape))(), "log_jac_fn"),
                                   "AutoregressiveBisectionInverter": lambda *a, **k: "default_inverter"}
        it.lib.overrides["jax.random.split"] = lambda key, num=2: [f"{key}/{j}" for j in range(num if isinstance(num, int) else 2)]
        cls = it.repo_class(f"{BQ}.BlockAutoregressiveNetwork")
        abij = it.repo_class("flowjax.bijections.bijection.AbstractBijection")
        for aname, ashape, acond, valid in (("scalar_unconditional", (), None, True), ("vector", (SV(z3.Int("k")),), None, False), ("conditional", (), ("c",), False), ("vector_conditional", (SV(z3.Int("k")),), ("c",), False)):
            act = Obj(abij, shape=ashape, cond_shape=acond)
            paths = it.explore(lambda act=act: cls("key", dim=SV(dim), depth=depth, block_dim=SV(bd), activation=act))
            fq = f"{BQ}.BlockAutoregressiveNetwork.__init__"
            for n_, p in enumerate(paths):
                if p.outcome == "raise":
                    ctx.oblige(f"C13/BlockAutoregressiveNetwork.__init__[activation={aname}]/post/raises_only_for_invalid_activation#{n_}", (not valid) and p.value.exc == "ValueError", [], props, kind="struct", fn=fq, replay=dict(kind="simple", cls="BlockAutoregressiveNetwork", vars={}))
                else:
                    ctx.oblige(f"C13/BlockAutoregressiveNetwork.__init__[activation={aname}]/post/accepts_only_unconditional_scalar_activation#{n_}", valid, [], props, kind="struct", fn=fq, replay=dict(kind="simple", cls="BlockAutoregressiveNetwork", vars={}))
    MQ2 = "flowjax.bijections.masked_autoregressive"
    it = ctx.new_interp()
    it.global_overrides[MQ2] = {"get_ravelled_pytree_constructor": lambda t, *a, **k: ("constructor", SV(npar)), "masked_autoregressive_mlp": lambda *a, **k: "mlp"}
    it.lib.overrides["jax.numpy.arange"] = lambda n_, *a, **k: ("arange", n_)
    it.lib.overrides["jax.numpy.repeat"] = lambda *a, **k: "repeat"
    it.lib.overrides["jax.numpy.hstack"] = lambda *a, **k: "hstack"
    it.lib.overrides["jax.numpy.ones"] = lambda *a, **k: 1

    class _Ranks:
        def __mod__(self, o):
            return self

        def __sub__(self, o):
            return self

        def __neg__(self):
            return self

    it.lib.overrides["jax.numpy.arange"] = lambda *a, **k: _Ranks()
    it.lib.overrides["jax.numpy.ones"] = lambda *a, **k: _Ranks()
    cls = it.repo_class(f"{MQ2}.MaskedAutoregressive")
    for tname, tshape, tcond, valid in (("scalar_unconditional", (), None, True), ("vector", (SV(z3.Int("k")),), None, False), ("conditional", (), ("c",), False)):
        class Tr2:
            shape = tshape
            cond_shape = tcond
        paths = it.explore(lambda: cls("key", transformer=Tr2(), dim=SV(dim), nn_width=SV(z3.Int("w")), nn_depth=1))
        fq = f"{MQ2}.MaskedAutoregressive.__init__"
        for n_, p in enumerate(paths):
            if p.outcome == "raise":
                ctx.oblige(f"C13/MaskedAutoregressive.__init__[transformer={tname}]/post/raises_only_for_invalid_transformer#{n_}", (not valid) and p.value.exc == "ValueError", [], props, kind="struct", fn=fq, replay=dict(kind="simple", cls="MaskedAutoregressive", vars={}))
            else:
                ctx.oblige(f"C13/MaskedAutoregressive.__init__[transformer={tname}]/post/accepts_only_unconditional_scalar_transformer#{n_}", valid, [], props, kind="struct", fn=fq, replay=dict(kind="simple", cls="MaskedAutoregressive", vars={}))
