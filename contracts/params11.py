"""C11: constrained parameters stay valid for every unconstrained value; constructors reproduce / reject.

Executed from the real ASTs: wrappers.BijectionReparam (+ _apply_inverse_and_check_valid, _VectorizedBijection) with the
real SoftPlus, Affine/Scale constructors, _real_to_increasing_on_interval + the spline constructor's derivative map,
_UnconditionalPlanar.get_act_scale, flows._affine_with_min_scale's reparameterisation.
"""
import z3

from fjvc.core import family
from fjvc.interp import Obj, obj_class, obj_fields, PyRaise, Untranslatable
from fjvc.lib import TypeMarker
from fjvc.values import SV, SumT, UF, lift, to_real, R, I

from .leaves import method, single

exp, log, sqrt = UF["exp"], UF["log"], UF["sqrt"]
SHAPE = ("event",)


def ev(name):
    return SV(z3.Real(name), elem=True, tags={"shape": SHAPE})


def env11(it, finite_of=None):
    """library model for the constructor paths: jnp.vectorize of a shape-() bijection method = elementwise application"""
    lib = it.lib.overrides
    lib["jaxtyping.ArrayLike"] = TypeMarker("ArrayLike", check=lambda v: True)
    lib["jax.numpy.asarray"] = lambda a, *r, **k: a
    lib["jax.numpy.vectorize"] = lambda f, signature=None, excluded=frozenset(): (lambda x, c=None: f(x, c))

    def error_if(x, pred, msg):
        if it.truth(pred if isinstance(pred, SV) else SV(lift(pred))):
            raise PyRaise("EquinoxRuntimeError", msg)
        return x

    lib["equinox.error_if"] = error_if


def _consts(e, seen=None):
    """uninterpreted constants of a term"""
    seen = set() if seen is None else seen
    out = set()
    stack = [e]
    while stack:
        t = stack.pop()
        if t.get_id() in seen:
            continue
        seen.add(t.get_id())
        if z3.is_app(t):
            if t.num_args() == 0 and t.decl().kind() == z3.Z3_OP_UNINTERPRETED:
                out.add(t)
            stack.extend(t.children())
        elif z3.is_quantifier(t):
            stack.append(t.body())
    return out


def defined_and(sides, start=0):
    """in the real model a value is finite iff every partial primitive of its computation was applied inside its domain"""
    conds = [c for (k, _g, c, _n, _w) in sides[start:] if k in ("log", "div", "sqrt", "arctanh")]
    return z3.And(*conds) if conds else z3.BoolVal(True)


@family("params11/BijectionReparam[SoftPlus]", ["C11", "C05", "C12"])
def bijection_reparam(ctx):
    it = ctx.interp
    env11(it)
    props = ["C11", "C05", "C12"]
    W = "flowjax.wrappers"
    cls = it.repo_class(f"{W}.BijectionReparam")
    sp = it.repo_class("flowjax.bijections.softplus.SoftPlus")
    arr, raw = ev("arr"), ev("raw")
    state = {}

    # isfinite: the argument array is finite by assumption (finite constructor arguments); a computed value is finite iff its
    # partial primitives were applied inside their domains (side conditions recorded by the executor)
    def isfinite(v):
        if v is arr or (isinstance(v, SV) and v.e.eq(arr.e)):
            return SV(z3.BoolVal(True), True)
        return SV(defined_and(it.side, state.get("start", 0)), True)

    it.lib.overrides["jax.numpy.isfinite"] = isfinite
    fnq = f"{W}.BijectionReparam.__init__"

    def build():
        state["start"] = len(it.side)
        return cls(arr, sp())

    paths = it.explore(build)
    rp = dict(kind="c11", what="reparam", vars=dict(arr=arr.e))
    ctx.oblige("C11/BijectionReparam.__init__/struct/has_success_path", any(p.outcome == "return" for p in paths), [], props, kind="struct", fn=fnq)
    for i, p in enumerate(paths):
        if p.outcome == "raise":
            ctx.oblige(f"C11/BijectionReparam.__init__/post/rejects_only_outside_codomain#{i}", arr.e <= 0, p.cond, props, fn=fnq, replay=rp)
            continue
        o = p.value
        ctx.oblige(f"C11/BijectionReparam.__init__/post/accepts_only_codomain#{i}", arr.e > 0, p.cond, props, fn=fnq, replay=rp)
        pu = it.explore(lambda o=o: method(cls, "unwrap")(o))
        if len(pu) == 1 and pu[0].outcome == "return":
            ctx.oblige(f"C11/BijectionReparam.unwrap/post/reproduces_constructor_value#{i}", lift(pu[0].value) == arr.e, p.cond + pu[0].cond, props, fn=f"{W}.BijectionReparam.unwrap", replay=rp,
                       rounds=3, extra_terms=[exp(lift(pu[0].value)), exp(arr.e)])
        else:
            ctx.oblige(f"C11/BijectionReparam.unwrap/struct/straight_line#{i}", False, [], props, kind="struct", fn=f"{W}.BijectionReparam.unwrap")
    # invariance: whatever finite value the stored raw array later takes, the unwrapped value is strictly positive
    from fjvc.lib import Dummy
    o2 = Obj(cls, arr=raw, bijection=Obj(sp, shape=()), _dummy=Dummy(()))
    pu = it.explore(lambda: method(cls, "unwrap")(o2))
    if len(pu) == 1 and pu[0].outcome == "return":
        ctx.oblige("C11/BijectionReparam.unwrap/post/positive_for_every_raw_value", lift(pu[0].value) > 0, pu[0].cond, props, fn=f"{W}.BijectionReparam.unwrap", replay=dict(kind="c11", what="raw", vars=dict(raw=raw.e)))
        ctx.oblige("C11/BijectionReparam.unwrap/post/is_transform_of_stored_array", lift(pu[0].value) == log(1 + exp(raw.e)), pu[0].cond, props, fn=f"{W}.BijectionReparam.unwrap")
        ctx.control("C11/BijectionReparam.unwrap/control/at_least_one", lift(pu[0].value) >= 1, pu[0].cond, props, fn=f"{W}.BijectionReparam.unwrap")


@family("params11/Affine_Scale_constructors", ["C11", "C05", "C07", "C02", "C14"])
def affine_scale_ctor(ctx):
    it = ctx.interp
    env11(it)
    props = ["C11", "C05", "C07", "C02"]
    loc, scale = ev("loc"), ev("scale")
    state = {}

    def isfinite(v):
        if isinstance(v, SV) and v.e.eq(scale.e):
            return SV(z3.BoolVal(True), True)
        return SV(defined_and(it.side, state.get("start", 0)), True)

    it.lib.overrides["jax.numpy.isfinite"] = isfinite
    W = it.repo_class("flowjax.wrappers.BijectionReparam")
    for cname, args in (("Affine", (loc, scale)), ("Scale", (scale,))):
        cls = it.repo_class(f"flowjax.bijections.affine.{cname}")
        fnq = f"flowjax.bijections.affine.{cname}.__init__"

        def build(cls=cls, args=args):
            state["start"] = len(it.side)
            return cls(*args)

        rp = dict(kind="c11", what=cname, vars=dict(loc=loc.e, scale=scale.e))
        paths = it.explore(build)
        ctx.oblige(f"C11/{cname}.__init__/struct/has_success_path", any(p.outcome == "return" for p in paths), [], props, kind="struct", fn=fnq)
        for i, p in enumerate(paths):
            if p.outcome == "raise":
                ctx.oblige(f"C11/{cname}.__init__/post/rejects_only_nonpositive_scale#{i}", scale.e <= 0, p.cond, props, fn=fnq, replay=rp)
                continue
            o = p.value
            ctx.oblige(f"C11/{cname}.__init__/post/accepts_only_positive_scale#{i}", scale.e > 0, p.cond, props, fn=fnq, replay=rp)
            w = o.scale
            ok = isinstance(w, Obj) and obj_class(w) is W
            ctx.oblige(f"C11/{cname}.__init__/struct/scale_is_softplus_reparam#{i}", ok and obj_class(w.bijection).__name__ == "SoftPlus", [], props, kind="applicability", fn=fnq)
            if ok:
                pu = it.explore(lambda w=w: method(W, "unwrap")(w))
                if len(pu) == 1 and pu[0].outcome == "return":
                    ctx.oblige(f"C11/{cname}.__init__/post/reproduces_scale#{i}", lift(pu[0].value) == scale.e, p.cond + pu[0].cond, props, fn=fnq, replay=rp, rounds=3, extra_terms=[exp(lift(pu[0].value)), exp(scale.e)])
            if cname == "Affine":
                ctx.oblige(f"C11/Affine.__init__/post/reproduces_loc#{i}", lift(o.loc) == loc.e, p.cond, props, fn=fnq, replay=rp)
            # every array that determines the behaviour is a pytree leaf: with all array leaves replaced (training / loading saved leaves
            # into a fresh model) the unwrapped parameters no longer mention the constructor arguments (C14)
            cnt_ = [0]

            def fresh_leaf(x_):
                if isinstance(x_, SV) and x_.e.sort() == R:
                    cnt_[0] += 1
                    return SV(z3.Real(f"loaded_leaf_{cname}_{cnt_[0]}"), x_.elem, x_.tags)
                return x_

            from fjvc.lib import tree_map as _tm
            loaded = _tm(fresh_leaf, o)
            unwrap_ = it.repo_function("flowjax.wrappers.unwrap")
            pl_ = [q for q in it.explore(lambda loaded=loaded: unwrap_(loaded)) if q.outcome == "return"]
            if len(pl_) == 1:
                terms = [lift(v_) for v_ in (getattr(pl_[0].value, "loc", None), getattr(pl_[0].value, "scale", None)) if isinstance(v_, SV)]
                left = sorted({str(c_) for t_ in terms for c_ in _consts(t_)} & {"loc", "scale"})
                ctx.oblige(f"C14/{cname}.__init__/post/no_constructor_array_outlives_its_leaves#{i}", not left and cnt_[0] >= 1, [], props + ["C14"], kind="struct", fn=fnq, replay=dict(kind="c14", cls=cname, vars={}),
                           note=f"constructor argument(s) {left} survive the replacement of every array leaf" if left else None)
    # loc and scale broadcast against each other: a scalar scale with a vector loc (and vice versa).  Every stored parameter must
    # have the bijection's full shape, otherwise the log-determinant (a sum over the stored scale) counts too few elements
    cls = it.repo_class("flowjax.bijections.affine.Affine")
    fnq = "flowjax.bijections.affine.Affine.__init__"
    s0 = SV(z3.Real("scalar_scale"))
    l0 = SV(z3.Real("scalar_loc"))
    for tagb, args in (("scalar_scale", (loc, s0)), ("scalar_loc", (l0, scale))):
        state["start"] = len(it.side)

        def build(args=args):
            state["start"] = len(it.side)
            return cls(*args)

        old_isfinite = it.lib.overrides["jax.numpy.isfinite"]
        it.lib.overrides["jax.numpy.isfinite"] = lambda v, s0=s0: SV(z3.BoolVal(True), True) if isinstance(v, SV) and (v.e.eq(scale.e) or v.e.eq(s0.e)) else old_isfinite(v)
        paths = it.explore(build)
        it.lib.overrides["jax.numpy.isfinite"] = old_isfinite
        okp = [p for p in paths if p.outcome == "return"]
        ctx.oblige(f"C05/Affine.__init__[{tagb}]/struct/has_success_path", len(okp) >= 1, [], props, kind="applicability", fn=fnq)
        for i, p in enumerate(okp):
            o = p.value
            w = o.scale
            if not (isinstance(w, Obj) and obj_class(w) is W):
                continue
            pu = it.explore(lambda w=w: method(W, "unwrap")(w))
            if len(pu) == 1 and pu[0].outcome == "return" and isinstance(pu[0].value, SV):
                us = pu[0].value
                shape_ok = us.elem and tuple(us.shape) == tuple(o.shape) and isinstance(o.loc, SV) and o.loc.elem and tuple(o.loc.shape) == tuple(o.shape) and tuple(o.shape) == SHAPE
                # a model-shape guard, not a demand: the leaf contracts (C02/Affine.*) are proved for parameters stored at the full shape; an
                # Affine that stores them un-broadcast is outside that model (undecided) and the zoo objects Affine(vector loc, scalar scale)
                # / Affine(loc (1,4), scale (3,1)) decide on the real code whether its log-determinant still counts every element
                ctx.oblige(f"C05/Affine.__init__[{tagb}]/post/stored_scale_and_loc_have_the_broadcast_shape#{i}", bool(shape_ok), [], props, kind="applicability", fn=fnq, replay=dict(kind="zooB", vars={}),
                           note=f"shape {o.shape}, stored scale shape {us.shape if us.elem else ()}, loc shape {o.loc.shape if isinstance(o.loc, SV) and o.loc.elem else ()}")


# --------------------------------------------------------------------------------------
class GVec:
    """vector of reals of symbolic length n: element function + (when known) the sum of all its elements"""

    def __init__(self, n, f, total=None):
        self.n, self.f, self.total = n, f, total

    @property
    def size(self):
        return SV(self.n)

    def _bin(self, o, op, tot):
        if isinstance(o, GVec):
            raise Untranslatable("GVec op GVec")
        c = to_real(lift(o))
        return GVec(self.n, lambda i: op(self.f(i), c), tot(self.total, c) if self.total is not None else None)

    def __add__(self, o):
        return self._bin(o, lambda a, c: a + c, lambda t, c: t + z3.ToReal(self.n) * c)

    __radd__ = __add__

    def __mul__(self, o):
        return self._bin(o, lambda a, c: a * c, lambda t, c: t * c)

    __rmul__ = __mul__

    def __truediv__(self, o):
        return self._bin(o, lambda a, c: a / c, lambda t, c: t / c)

    def __getitem__(self, i):
        if isinstance(i, slice) and i.step is None and (i.start is None or isinstance(i.start, int)) and (i.stop is None or isinstance(i.stop, int)):
            lo_, hi_ = i.start or 0, i.stop
            if lo_ < 0 or (hi_ is not None and hi_ < 0) or lo_ > 3 or (hi_ is not None and hi_ > 3):
                raise Untranslatable("slice of a symbolic-length vector with bounds other than small non-negative constants")
            head = lambda k: sum((self.f(z3.IntVal(q)) for q in range(k)), z3.RealVal(0))  # noqa: E731
            if hi_ is None:  # v[lo:]
                return GVec(self.n - lo_, lambda j: self.f(j + lo_), (self.total - head(lo_)) if self.total is not None else None)
            return GVec(z3.IntVal(hi_ - lo_), lambda j: self.f(j + lo_), head(hi_) - head(lo_))  # assumes hi <= n (checked by the caller's path: n >= 1)
        return SV(self.f(lift(i)))

    @staticmethod
    def concat(parts, axis=0):
        parts = list(parts)
        if not all(isinstance(p_, GVec) for p_ in parts):
            raise Untranslatable("concatenate of non-vectors")
        out = parts[0]
        for nxt in parts[1:]:
            a, b = out, nxt
            out = GVec(a.n + b.n, lambda j, a=a, b=b: z3.If(j < a.n, a.f(j), b.f(j - a.n)), (a.total + b.total) if (a.total is not None and b.total is not None) else None)
        return out

    @property
    def at(self):
        v = self

        class At:
            def __getitem__(self, i):
                class S:
                    def set(self_, val):
                        idx, nv = lift(i), to_real(lift(val))
                        return GVec(v.n, lambda j: z3.If(j == idx, nv, v.f(j)), (v.total - v.f(idx) + nv) if v.total is not None else None)
                return S()
        return At()


SM = z3.Function("softmax", I, R)
CS = z3.Function("cumsum", I, R)


@family("params11/_real_to_increasing_on_interval", ["C11", "C07", "C01"])
def knots(ctx):
    """knot positions from ANY real parameter vector: strictly increasing (adjacent), padded with the interval ends, strictly inside"""
    it = ctx.interp
    props = ["C11", "C07", "C01"]
    fnq = "flowjax.bijections.rational_quadratic_spline._real_to_increasing_on_interval"
    K = z3.Int("knots")
    lo, hi, adj = z3.Reals("lo hi softmax_adjust")
    facts = []

    def softmax(v):
        return GVec(v.n, lambda i: SM(i), z3.RealVal(1))  # T1: softmax(arr)[i] > 0 (instances below), sums to 1

    def cumsum(v):
        # T1: cumsum[0] = v[0]; cumsum[j+1] = cumsum[j] + v[j+1]; cumsum[n-1] = sum(v)   (ground instances added per obligation)
        facts.append(v)
        return GVec(v.n, lambda j: CS(j), None)

    def pad(v, pad_width=1, constant_values=None):
        a, b = (to_real(lift(c)) for c in constant_values)
        return GVec(v.n + 2, lambda i: z3.If(i == 0, a, z3.If(i == v.n + 1, b, v.f(i - 1))), None)

    it.lib.overrides.update({"jax.nn.softmax": softmax, "jax.numpy.cumsum": cumsum, "jax.numpy.pad": pad, "jax.numpy.concatenate": GVec.concat, "jax.numpy.hstack": GVec.concat})
    fn = it.repo_function(fnq)
    arr = GVec(K, lambda i: z3.Select(z3.Array("raw", I, R), i), None)
    paths = it.explore(lambda: fn(arr, (SV(lo), SV(hi)), SV(adj)))
    pre = [K >= 1, lo < hi]
    for i, p in enumerate(paths):
        if p.outcome == "raise":
            ctx.oblige(f"C11/_real_to_increasing_on_interval/post/raises_only_if#{i}", z3.And(adj < 0, z3.BoolVal(p.value.exc == "ValueError")), pre + p.cond, props, fn=fnq)
            continue
        P = p.value
        ctx.oblige(f"C11/_real_to_increasing_on_interval/post/accepts_only_if#{i}", adj >= 0, pre + p.cond, props, fn=fnq)
        w = facts[-1] if facts else None
        ctx.oblige(f"C11/_real_to_increasing_on_interval/struct/cumsum_of_widths#{i}", w is not None and w.total is not None, [], props, kind="applicability", fn=fnq)
        if w is None or w.total is None:
            continue
        j = z3.Int("j")

        def cs_inst(asserts, w=w):
            from fjvc.core import apps_of
            out = [CS(0) == w.f(z3.IntVal(0)), CS(w.n - 1) == w.total]
            idx = {a.arg(0).get_id(): a.arg(0) for a in apps_of(CS, asserts)}
            for t in idx.values():
                out.append(z3.Implies(z3.And(t >= 0, t + 1 < w.n), CS(t + 1) == CS(t) + w.f(t + 1)))
                out.append(z3.Implies(z3.And(t >= 1, t < w.n), CS(t) == CS(t - 1) + w.f(t)))
            for a in apps_of(SM, asserts + out):
                out.append(z3.And(SM(a.arg(0)) > 0, SM(a.arg(0)) <= 1))  # each softmax entry is positive and at most their sum (1)
            return out

        hyp = pre + p.cond + [adj >= 0]
        rp = dict(kind="c11", what="knots", vars=dict(knots=K, lo=lo, hi=hi, softmax_adjust=adj))
        ctx.oblige(f"C11/_real_to_increasing_on_interval/post/length#{i}", P.n == K + 2, hyp, props, fn=fnq, replay=rp)
        ctx.oblige(f"C11/_real_to_increasing_on_interval/post/padded_with_interval_ends#{i}", z3.And(P.f(z3.IntVal(0)) == lo, P.f(K + 1) == hi), hyp, props, fn=fnq, replay=rp, inst=[cs_inst])
        ctx.oblige(f"C11/_real_to_increasing_on_interval/post/widths_positive_and_normalised#{i}", z3.And(w.f(j) > 0, w.total > 0, w.total < 1), hyp + [j >= 0, j < K], props, fn=fnq, replay=rp, inst=[cs_inst],
                   cuts=[("onepadj", 1 + adj > 0), ("softmax_pos", SM(j) > 0), ("softmax0_pos", SM(0) > 0)])
        ctx.oblige(f"C11/_real_to_increasing_on_interval/post/adjacent_strictly_increasing#{i}", P.f(j) < P.f(j + 1), hyp + [j >= 0, j <= K], props, fn=fnq, replay=rp, inst=[cs_inst],
                   cases=[("first", j == 0), ("last", j == K), ("inner", z3.And(j >= 1, j <= K - 1))],
                   cuts=[("onepadj", 1 + adj > 0), ("w_pos", z3.And(w.f(j) > 0, w.f(j - 1) > 0, w.f(z3.IntVal(0)) > 0)), ("total", z3.And(w.total < 1, w.total > 0))])
        ctx.control(f"C11/_real_to_increasing_on_interval/control/evenly_spaced#{i}", P.f(j + 1) - P.f(j) == (hi - lo) / z3.ToReal(K), hyp + [j >= 1, j <= K - 1, K >= 3], props, fn=fnq, inst=[cs_inst])
    # lemma: adjacent increasing => globally increasing (the form of the class invariant used by the spline contracts)
    A = z3.Array("A", I, R)
    pq, d = z3.Ints("p d")
    ctx.oblige("C11/lemma/adjacent_increasing_global/base", A[pq] < A[pq + 1], [A[pq] < A[pq + 1]], props, kind="lemma", fn=fnq)
    ctx.oblige("C11/lemma/adjacent_increasing_global/step", A[pq] < A[pq + d + 1], [d >= 1, A[pq] < A[pq + d], A[pq + d] < A[pq + d + 1]], props, kind="lemma", fn=fnq)


@family("params11/spline_derivatives", ["C11", "C01", "C02"])
def spline_derivatives(ctx):
    """the derivative parameterisation arr -> softplus(arr) + min_derivative: >= min_derivative for every raw value and equal to 1 at initialisation"""
    it = ctx.interp
    env11(it)
    props = ["C11", "C01", "C02"]
    q = "flowjax.bijections.rational_quadratic_spline.RationalQuadraticSpline"
    cls = it.repo_class(q)
    md = z3.Real("min_derivative")
    rec = {}

    class LambdaW:
        def __init__(self, fn, *args, **kw):
            self.fn, self.args, self.kw = fn, args, kw

    it.global_overrides["flowjax.bijections.rational_quadratic_spline"] = {"wrappers": type("W", (), {"Lambda": LambdaW})}
    it.lib.overrides["jax.numpy.zeros"] = lambda n_: ("zeros", n_)
    it.lib.overrides["jax.numpy.full"] = lambda n_, v: ("full", n_, v)
    paths = it.explore(lambda: cls(knots=SV(z3.Int("knots")), interval=(SV(z3.Real("lo")), SV(z3.Real("hi"))), min_derivative=SV(md)))
    p = single(paths, ctx, "C11/RationalQuadraticSpline.__init__/struct/straight_line", props, q + ".__init__")
    if p is None:
        return
    o = p.value
    d = o.derivatives
    raw = ev("raw")
    pv = it.explore(lambda: d.fn(raw))
    if len(pv) == 1 and pv[0].outcome == "return":
        val = lift(pv[0].value)
        ctx.oblige("C11/RationalQuadraticSpline.derivatives/post/at_least_min_derivative_for_every_raw_value", z3.And(val > md, val >= md), pv[0].cond, props, fn=q + ".__init__")
        init = d.args[0]
        ok = isinstance(init, tuple) and init[0] == "full"
        ctx.oblige("C11/RationalQuadraticSpline.derivatives/struct/initial_value", ok, [], props, kind="struct", fn=q + ".__init__")
        if ok:
            v0 = to_real(lift(init[2]))
            at_init = z3.substitute(val, (raw.e, v0))
            ctx.oblige("C11/RationalQuadraticSpline.derivatives/post/one_at_initialisation", at_init == 1, pv[0].cond + p.cond + [md < 1], props, fn=q + ".__init__", rounds=3, extra_terms=[exp(at_init - md), exp(1 - md)])
            ctx.oblige("C11/RationalQuadraticSpline.__init__/struct/knot_count", lift(init[1]) == z3.Int("knots") + 2, p.cond, props, fn=q + ".__init__")
    xp, yp = o.x_pos, o.y_pos
    same = isinstance(xp, LambdaW) and isinstance(yp, LambdaW) and xp.args == yp.args and xp.args[0][0] == "zeros"
    ctx.oblige("C11/RationalQuadraticSpline.__init__/struct/x_pos_equals_y_pos_at_initialisation", bool(same), [], props, kind="struct", fn=q + ".__init__", note="both are _real_to_increasing_on_interval of zeros(knots) with the same interval")


# --------------------------------------------------------------------------------------
@family("params11/_affine_with_min_scale", ["C11", "C12"])
def affine_with_min_scale(ctx):
    """flows._affine_with_min_scale: the default transformer of coupling / masked autoregressive flows.  Its scale is
    softplus(raw) + min_scale, so it stays >= min_scale > 0 for every raw value, starts at 1, and the offset is frozen."""
    it = ctx.interp
    env11(it)
    from .wrappers import install as winstall
    winstall(it)
    env11(it)
    props = ["C11", "C12"]
    Q = "flowjax.flows._affine_with_min_scale"
    fn = it.repo_function(Q)
    W = "flowjax.wrappers"
    BR = it.repo_class(f"{W}.BijectionReparam")
    NonT = it.repo_class(f"{W}.NonTrainable")
    unwrap = it.repo_function(f"{W}.unwrap")
    ms = SV(z3.Real("min_scale"))
    state = {}
    it.lib.overrides["jax.numpy.isfinite"] = lambda v: SV(z3.BoolVal(True), True) if not (isinstance(v, SV) and it.side[state.get("start", 0):]) else SV(defined_and(it.side, state.get("start", 0)), True)
    it.lib.overrides["jax.numpy.array"] = lambda a, *r, **k: SV(lift(a)) if not isinstance(a, SV) else a

    def tree_at(where, pytree, replace):
        # record which attribute `where` selects by handing it a probe object
        sel = where(pytree)
        hits = [k for k, v in obj_fields(pytree).items() if v is sel]
        if len(hits) != 1:
            raise Untranslatable("tree_at: where does not select exactly one field")
        return Obj(obj_class(pytree), **dict(obj_fields(pytree), **{hits[0]: replace}))

    it.lib.overrides["equinox.tree_at"] = tree_at
    # T3 (_unwrap_check_and_cast, under contract in shapes/distributions families): the class-creation hook of AbstractBijection
    # unwraps `self` before every method body runs; the extraction drops that hook, so the vectorised call re-binds the method
    # to the really unwrapped object
    from fjvc.interp import BoundMethod

    def vectorize(f, signature=None, excluded=frozenset()):
        def call(x, c=None):
            if isinstance(f, BoundMethod):
                return f.fn(unwrap(f.obj), x, c)
            return f(x, c)

        return call

    it.lib.overrides["jax.numpy.vectorize"] = vectorize

    # the value handed to BijectionReparam is the constructor argument the object has to reproduce (recorded, not pinned)
    given = []

    def recording_reparam(arr, bijection, **kw):
        given.append(arr)
        return BR(arr, bijection, **kw)

    it.global_overrides["flowjax.flows"] = {"BijectionReparam": recording_reparam}

    def build():
        state["start"] = len(it.side)
        del given[:]
        return fn(ms)

    hyp = [ms.e > 0, ms.e < 1]
    paths = [p for p in it.explore(build, assume=hyp) if p.outcome == "return"] if "assume" in it.explore.__code__.co_varnames else None
    if paths is None:
        def build2():
            it.assume(z3.And(*hyp))
            return build()
        allp = it.explore(build2)
        paths = [p for p in allp if p.outcome == "return"]
        ctx.oblige("C11/_affine_with_min_scale/post/never_rejects_a_min_scale_in_(0,1)", len(paths) == len(allp), [], props, kind="struct", fn=Q)
    ctx.oblige("C11/_affine_with_min_scale/struct/straight_line", len(paths) == 1, [], props, kind="applicability", fn=Q)
    if len(paths) != 1:
        return
    p = paths[0]
    aff = p.value
    w = aff.scale
    okw = isinstance(w, Obj) and obj_class(w) is BR
    ctx.oblige("C11/_affine_with_min_scale/struct/scale_is_a_reparameterised_leaf", okw, [], props, kind="applicability", fn=Q)
    if not okw:
        return
    rp = dict(kind="c11", what="min_scale", vars={})
    # (a) the initial scale is 1
    pu = [q for q in it.explore(lambda: unwrap(aff)) if q.outcome == "return"]
    ctx.oblige("C11/_affine_with_min_scale/struct/initial_value_recorded", len(given) == 1 and isinstance(given[0], SV), [], props, kind="applicability", fn=Q)
    if len(pu) == 1 and len(given) == 1 and isinstance(given[0], SV):
        g0 = to_real(given[0].e)
        ctx.oblige("C11/_affine_with_min_scale/post/initial_scale_reproduces_the_value_given_to_the_reparameterisation", lift(pu[0].value.scale) == g0, hyp + p.cond + pu[0].cond, props, fn=Q, replay=rp,
                   rounds=3, extra_terms=[exp(lift(w.arr)), exp(g0 - ms.e), exp(lift(pu[0].value.scale) - ms.e)])
    elif len(pu) == 1:
        pass
    else:
        ctx.oblige("C11/_affine_with_min_scale/struct/unwraps", False, [], props, kind="applicability", fn=Q)
    # (b) whatever values training gives the TRAINABLE leaves (every inexact leaf that is not under NonTrainable), the scale stays
    #     strictly positive.  (If the min_scale offset were left trainable it could be driven negative.)
    cnt = [0]

    def havoc(x, under):
        if isinstance(x, Obj):
            u = under or obj_class(x) is NonT
            return Obj(obj_class(x), **{k: havoc(v, u) for k, v in obj_fields(x).items()})
        if isinstance(x, list):
            return [havoc(v, under) for v in x]
        if isinstance(x, tuple):
            return tuple(havoc(v, under) for v in x)
        if isinstance(x, SV) and not under and x.e.sort() == R:
            cnt[0] += 1
            return SV(z3.Real(f"trained_leaf_{cnt[0]}"), x.elem, x.tags)
        return x

    trained = Obj(obj_class(aff), **dict(obj_fields(aff), scale=havoc(w, False)))
    ctx.oblige("C11/_affine_with_min_scale/struct/trainable_leaf_found", cnt[0] >= 1, [], props, kind="struct", fn=Q)
    pt = [q for q in it.explore(lambda: unwrap(trained)) if q.outcome == "return"]
    if len(pt) == 1:
        sc = lift(pt[0].value.scale)
        ctx.oblige("C11/_affine_with_min_scale/post/scale_strictly_positive_for_every_value_of_the_trainable_leaves", sc > 0, hyp + pt[0].cond, props, fn=Q, replay=rp)
        ctx.control("C11/_affine_with_min_scale/control/scale_at_least_one", sc >= 1, hyp + pt[0].cond, props, fn=Q)
    else:
        ctx.oblige("C11/_affine_with_min_scale/struct/trained_unwraps", False, [], props, kind="applicability", fn=Q)
