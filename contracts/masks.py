"""C09: autoregressive / coupling / block structure holds for ALL weight values.

Key step ("masks survive any update"): an object is built by the REAL constructor, then EVERY inexact array leaf of the
result is replaced by a fresh arbitrary symbol (whatever training does), then the REAL unwrap is applied and the zero /
sign pattern of the unwrapped weights is proved on a generic entry [r, c].  Matrices and integer rank vectors are
generic-entry values (entry functions over symbolic indices), all sizes symbolic.
"""
import ast

import z3

from fjvc.core import family
from fjvc.interp import Obj, obj_class, obj_fields, LoopSpec, Env, Untranslatable
from fjvc.lib import Dummy, tree_map, TypeMarker
from fjvc.values import SV, SymSeq, UF, lift, to_real, R, I

from .leaves import method, single

exp, log, sqrt = UF["exp"], UF["log"], UF["sqrt"]
r_, c_ = z3.Int("r"), z3.Int("c")  # the generic entry


class IVec:
    """integer vector of symbolic length: entry function"""
    ndim = 1
    is_int_array = True

    def __init__(self, n, f):
        self.n, self.f = n, f

    def sym_len(self):
        return SV(self.n)

    @property
    def shape(self):
        return (SV(self.n),)

    def __getitem__(self, idx):
        if isinstance(idx, tuple) and len(idx) == 2 and idx[0] == slice(None) and idx[1] is None:
            return ColV(self)
        return SV(self.f(lift(idx)))

    def __mod__(self, o):
        m = lift(o)
        return IVec(self.n, lambda i: self.f(i) % m)

    def __sub__(self, o):
        return IVec(self.n, lambda i: self.f(i) - lift(o))

    def __neg__(self):
        return IVec(self.n, lambda i: -self.f(i))


class ColV:
    def __init__(self, v):
        self.v = v

    def _cmp(self, o, op):
        if isinstance(o, IVec):
            return MV(self.v.n, o.n, lambda r, c: op(self.v.f(r), o.f(c)), kind="bool")
        return NotImplemented

    def __ge__(self, o):
        return self._cmp(o, lambda a, b: a >= b)

    def __gt__(self, o):
        return self._cmp(o, lambda a, b: a > b)


class MV:
    """matrix (rows x cols) given by its generic entry"""
    ndim = 2

    def __init__(self, rows, cols, f, kind="real"):
        self.rows, self.cols, self.f, self.kind = rows, cols, f, kind
        self.is_int_array = kind != "real"
        self.is_array = True

    @property
    def shape(self):
        return (SV(self.rows), SV(self.cols))

    @property
    def T(self):
        return MV(self.cols, self.rows, lambda r, c: self.f(c, r), self.kind)

    def _bin(self, o, op):
        if isinstance(o, MV):
            return MV(self.rows, self.cols, lambda r, c: op(self.f(r, c), o.f(r, c)), self.kind)
        if isinstance(o, RowScal):
            return MV(self.rows, self.cols, lambda r, c: op(self.f(r, c), o.f(r)), self.kind)
        k = to_real(lift(o))
        return MV(self.rows, self.cols, lambda r, c: op(self.f(r, c), k), self.kind)

    def __mul__(self, o):
        return self._bin(o, lambda a, b: a * b)

    __rmul__ = __mul__

    def __truediv__(self, o):
        return self._bin(o, lambda a, b: a / b)

    def __rtruediv__(self, o):
        k = to_real(lift(o))
        return MV(self.rows, self.cols, lambda r, c: k / self.f(r, c), self.kind)

    def __add__(self, o):
        return self._bin(o, lambda a, b: a + b)

    @property
    def at(self):
        m = self

        class At:
            def __getitem__(self, idx):
                rs, cs = idx

                class S:
                    def set(self_, val):
                        rlo = lift(rs.start) if rs.start is not None else z3.IntVal(0)
                        clo = lift(cs.start) if cs.start is not None else z3.IntVal(0)
                        chi = lift(cs.stop) if cs.stop is not None else m.cols
                        v = z3.BoolVal(bool(val)) if isinstance(val, bool) else lift(val)
                        return MV(m.rows, m.cols, lambda r, c: z3.If(z3.And(r >= rlo, c >= clo, c < chi), v, m.f(r, c)), m.kind)
                return S()
        return At()


class RowScal:
    """per-row scalar (shape (rows, 1)): broadcasts along the columns"""
    is_array = True
    is_int_array = False

    def __init__(self, rows, f):
        self.rows, self.f = rows, f

    def __rtruediv__(self, o):
        k = to_real(lift(o))
        return RowScal(self.rows, lambda r: k / self.f(r))

    def __mul__(self, o):
        if isinstance(o, MV):
            return MV(o.rows, o.cols, lambda r, c: self.f(r) * o.f(r, c))
        return NotImplemented


class Blocks:
    """stack of n boolean matrices (n symbolic): only `*blocks` into block_diag is modelled"""
    is_array = True

    def __init__(self, n, rows, cols, f):
        self.n, self.rows, self.cols, self.f = n, rows, cols, f

    def as_star_args(self):
        return StarBlocks(self)

    def __iter__(self):
        raise Untranslatable("iteration over a stack of matrices of symbolic length")


class StarBlocks:
    def __init__(self, blocks):
        self.blocks = blocks


ROWBLK = z3.Function("block_of_row", I, I)  # T3 (block_diag): the index of the diagonal block a row / column falls into
COLBLK = z3.Function("block_of_column", I, I)


def block_diag_model(*args):
    """T3 jax.scipy.linalg.block_diag(*blocks) for equally sized blocks: entry (r, c) is blocks[i][r - i*b0, c - i*b1] when row r and
    column c fall into the same diagonal block i, and zero (False) otherwise"""
    if len(args) != 1 or not isinstance(args[0], StarBlocks):
        raise Untranslatable("block_diag of an explicit list of blocks")
    b = args[0].blocks
    return MV(b.n * b.rows, b.n * b.cols, lambda r, c: z3.And(ROWBLK(r) == COLBLK(c), b.f(ROWBLK(r), r - ROWBLK(r) * b.rows, c - COLBLK(c) * b.cols)), "bool")


def block_index_facts(b0, b1, n, r, c):
    """ground instances of the definition of the block index at the generic entry"""
    return [ROWBLK(r) >= 0, ROWBLK(r) < n, b0 * ROWBLK(r) <= r, r < b0 * ROWBLK(r) + b0, COLBLK(c) >= 0, COLBLK(c) < n, b1 * COLBLK(c) <= c, c < b1 * COLBLK(c) + b1]


def mask_lib(it):
    lib = it.lib.overrides
    lib["jax.scipy.linalg.block_diag"] = block_diag_model
    lib["jax.numpy.arange"] = lambda n: IVec(lift(n), lambda i: i)
    lib["jax.numpy.asarray"] = lambda a, *r, **k: a
    lib["jax.numpy.hstack"] = lambda parts: IVec(parts[0].n + parts[1].n, lambda i: z3.If(i < parts[0].n, parts[0].f(i), parts[1].f(i - parts[0].n)))
    lib["jax.numpy.zeros"] = lambda shape, dtype=None: MV(lift(shape[0]), lift(shape[1]), lambda r, c: z3.BoolVal(False), "bool")

    def ones(shape, dtype=None):
        if isinstance(shape, tuple) and len(shape) == 3:  # a stack of n matrices of ones
            return Blocks(lift(shape[0]), lift(shape[1]), lift(shape[2]), lambda i, r, c: z3.BoolVal(True))
        if isinstance(shape, tuple) and len(shape) == 2:  # boolean / integer matrix of ones
            return MV(lift(shape[0]), lift(shape[1]), lambda r, c: z3.BoolVal(True), "bool")
        return IVec(lift(shape), lambda i: z3.IntVal(1))

    lib["jax.numpy.ones"] = ones
    lib["jax.numpy.tril"] = lambda m, k=0: MV(m.rows, m.cols, lambda r, c: z3.And(m.f(r, c), c <= r + lift(k)), "bool") if m.kind == "bool" else MV(m.rows, m.cols, lambda r, c: z3.If(c <= r + lift(k), m.f(r, c), z3.RealVal(0)))

    def repeat(v, k, axis=None):
        kk = lift(k)
        if isinstance(v, MV):
            if axis in (0, -2):
                return MV(v.rows * kk, v.cols, lambda r, c: v.f(r / kk, c), v.kind)
            if axis in (1, -1):
                return MV(v.rows, v.cols * kk, lambda r, c: v.f(r, c / kk), v.kind)
            raise Untranslatable("repeat of a matrix without an axis")
        return IVec(v.n * kk, lambda o: v.f(o / kk))

    lib["jax.numpy.repeat"] = repeat

    def where(cnd, a, b, **kw):
        if isinstance(cnd, MV):
            fa = (lambda r, c: a.f(r, c)) if isinstance(a, MV) else (lambda r, c: to_real(lift(a)))
            fb = (lambda r, c: b.f(r, c)) if isinstance(b, MV) else (lambda r, c: to_real(lift(b)))
            return MV(cnd.rows, cnd.cols, lambda r, c: z3.If(cnd.f(r, c), fa(r, c), fb(r, c)))
        raise Untranslatable("where on non-matrix")

    lib["jax.numpy.where"] = where


# --------------------------------------------------------------------------------------
@family("masks/rank_based_mask", ["C09"])
def rank_based_mask(ctx):
    it = ctx.interp
    mask_lib(it)
    props = ["C09"]
    fnq = "flowjax.masks.rank_based_mask"
    IN, OUT = z3.Function("in_rank", I, I), z3.Function("out_rank", I, I)
    a, b = z3.Ints("n_in n_out")
    fn = it.repo_function(fnq)
    for eq in (False, True):
        paths = it.explore(lambda eq=eq: fn(IVec(a, lambda i: IN(i)), IVec(b, lambda o: OUT(o)), eq=eq))
        p = single(paths, ctx, f"C09/rank_based_mask[eq={eq}]/struct/straight_line", props, fnq)
        if p is None:
            continue
        m = p.value
        ok = isinstance(m, MV)
        ctx.oblige(f"C09/rank_based_mask[eq={eq}]/struct/matrix", ok, [], props, kind="applicability", fn=fnq)
        if ok:
            want = (OUT(r_) >= IN(c_)) if eq else (OUT(r_) > IN(c_))
            ctx.oblige(f"C09/rank_based_mask[eq={eq}]/post/pattern", m.f(r_, c_) == want, p.cond, props, fn=fnq, replay=dict(kind="c09", vars={}))
            ctx.oblige(f"C09/rank_based_mask[eq={eq}]/post/shape_out_by_in", z3.And(m.rows == b, m.cols == a), p.cond, props, fn=fnq)
            ctx.control(f"C09/rank_based_mask[eq={eq}]/control/transposed", m.f(r_, c_) == ((OUT(c_) >= IN(r_)) if eq else (OUT(c_) > IN(r_))), p.cond, props, fn=fnq)


@family("masks/block_tril_mask", ["C09"])
def block_tril_mask(ctx):
    it = ctx.interp
    mask_lib(it)
    props = ["C09"]
    fnq = "flowjax.masks.block_tril_mask"
    b0, b1, n, k = z3.Ints("b0 b1 n_blocks k")
    q = z3.Int("col_block")  # ghost: block index of the generic column c
    M = z3.Function("mask_at_loop_head", I, I, z3.BoolSort())
    pre = [b0 >= 1, b1 >= 1, n >= 1, r_ >= 0, r_ < b0 * n, c_ >= 0, c_ < b1 * n, q >= 0, q < n, b1 * q <= c_, c_ < b1 * q + b1]

    def inv(t, env, entry=None):
        m = env["mask"]
        return z3.And(t >= 0, t <= n, m.f(r_, c_) == z3.And(q < t, r_ >= z3.If(q - k > 0, q - k, 0) * b0))

    def havoc(t, env):
        h = Env(env.parent)
        h.update(env)
        h["mask"] = MV(b0 * n, b1 * n, lambda r, c: M(r, c), "bool")
        h["i"] = None
        h["row_i"] = None
        h["col_i"] = None
        return h

    it.loop_specs[(fnq, "for#0")] = LoopSpec(inv, havoc)
    fn = it.repo_function(fnq)
    paths = it.explore(lambda: fn((SV(b0), SV(b1)), SV(n), SV(k)))
    normal = [p for p in paths if p.outcome == "return"]
    ctx.oblige("C09/block_tril_mask/struct/returns", len(normal) >= 1 and len(normal) == len(paths), [], props, kind="struct", fn=fnq)
    for i, p in enumerate(normal):
        ctx.from_path(p, "C09", props, fn=fnq, extra_hyps=pre, rename=lambda o: o.replace("flowjax.masks.", ""))
        m = p.value
        # documented pattern: entry (r, c) is set iff its row block index >= its column block index - k
        rb = z3.Int("row_block")
        ctx.oblige(f"C09/block_tril_mask/post/pattern#{i}", m.f(r_, c_) == (rb >= q - k), pre + p.cond + [rb >= 0, rb < n, b0 * rb <= r_, r_ < b0 * rb + b0], props, fn=fnq, replay=dict(kind="c09", vars={}),
                   cases=[("below", rb >= q - k), ("above", rb < q - k)])
        ctx.oblige(f"C09/block_tril_mask/post/shape#{i}", z3.And(m.rows == b0 * n, m.cols == b1 * n), p.cond, props, fn=fnq)


@family("masks/block_diag_mask", ["C09"])
def block_diag_mask(ctx):
    it = ctx.interp
    mask_lib(it)
    props = ["C09"]
    fnq = "flowjax.masks.block_diag_mask"
    b0, b1, n = z3.Ints("b0 b1 n_blocks")
    rb, q = z3.Ints("row_block col_block")
    fn = it.repo_function(fnq)
    p = single(it.explore(lambda: fn((SV(b0), SV(b1)), SV(n))), ctx, "C09/block_diag_mask/struct/straight_line", props, fnq)
    if p is None:
        return
    m = p.value
    ok = isinstance(m, MV)
    ctx.oblige("C09/block_diag_mask/struct/matrix", ok, [], props, kind="applicability", fn=fnq)
    if not ok:
        return
    pre = [b0 >= 1, b1 >= 1, n >= 1, r_ >= 0, r_ < b0 * n, c_ >= 0, c_ < b1 * n, rb >= 0, rb < n, b0 * rb <= r_, r_ < b0 * rb + b0, q >= 0, q < n, b1 * q <= c_, c_ < b1 * q + b1]
    # documented pattern: entry (r, c) is set iff its row block index equals its column block index
    ctx.oblige("C09/block_diag_mask/post/pattern", m.f(r_, c_) == (rb == q), pre + p.cond + block_index_facts(b0, b1, n, r_, c_), props, fn=fnq, replay=dict(kind="c09", vars={}),
               cuts=[("row_block_unique", ROWBLK(r_) == rb), ("col_block_unique", COLBLK(c_) == q)])
    ctx.oblige("C09/block_diag_mask/post/shape", z3.And(m.rows == b0 * n, m.cols == b1 * n), p.cond, props, fn=fnq, replay=dict(kind="c09", vars={}))
    ctx.control("C09/block_diag_mask/control/lower_triangular_blocks", m.f(r_, c_) == (rb >= q), pre + p.cond + block_index_facts(b0, b1, n, r_, c_), props, fn=fnq)


# --------------------------------------------------------------------------------------
def havoc_inexact(it, tree, tag):
    """whatever training does: every inexact array leaf takes an arbitrary value"""
    cnt = [0]

    def f(x):
        if isinstance(x, MV) and x.kind == "real":
            cnt[0] += 1
            W = z3.Function(f"{tag}_{cnt[0]}", I, I, R)
            return MV(x.rows, x.cols, lambda r, c: W(r, c))
        if isinstance(x, RowScal):
            cnt[0] += 1
            S = z3.Function(f"{tag}_s{cnt[0]}", I, R)
            return RowScal(x.rows, lambda r: S(r))
        if isinstance(x, SV) and x.e.sort() == R:
            cnt[0] += 1
            return SV(z3.Real(f"{tag}_v{cnt[0]}"), x.elem, x.tags)
        return x

    return tree_map(f, tree), cnt[0]


class LinearM:
    """eqx.nn.Linear(in, out): weight (out x in) and bias leaves"""


def nn_lib(it):
    Lin = {}

    def mk_linear(in_f, out_f, use_bias=True, key=None, **kw):
        cls = _cls(it, "Linear")
        o = Obj(cls, weight=MV(lift(out_f), lift(in_f), lambda r, c: z3.Function("W_init", I, I, R)(r, c)), bias=None, in_features=in_f, out_features=out_f)
        return o

    def mk_mlp(in_size, out_size, width_size, depth, activation=None, key=None, **kw):
        cls = _cls(it, "MLP")
        sizes = [in_size] + [width_size] * depth + [out_size]
        layers = tuple(mk_linear(sizes[j], sizes[j + 1]) for j in range(depth + 1))
        return Obj(cls, layers=layers, depth=depth, activation=activation)

    it.lib.overrides["equinox.nn.Linear"] = mk_linear
    it.lib.overrides["equinox.nn.MLP"] = mk_mlp

    def tree_at(where, pytree, replace=None, replace_fn=None, **kw):
        target = where(pytree)
        targets = list(target) if isinstance(target, (tuple, list)) and not isinstance(replace, tuple) is False and isinstance(replace, tuple) and len(replace) == len(target) and not _is_node(target, pytree) else [target]
        repls = list(replace) if len(targets) > 1 else [replace]
        if replace_fn is not None:
            repls = [replace_fn(t) for t in targets]

        def rec(x):
            for t, rp in zip(targets, repls):
                if x is t:
                    return rp
            if isinstance(x, Obj):
                o = Obj(obj_class(x), **{k: rec(v) for k, v in obj_fields(x).items()})
                return o
            if isinstance(x, tuple):
                return tuple(rec(v) for v in x)
            if isinstance(x, list):
                return [rec(v) for v in x]
            if isinstance(x, dict):
                return {k: rec(v) for k, v in x.items()}
            return x

        return rec(pytree)

    it.lib.overrides["equinox.tree_at"] = tree_at


def _is_node(target, tree):
    found = []

    def rec(x):
        if x is target:
            found.append(1)
        if isinstance(x, Obj):
            for v in obj_fields(x).values():
                rec(v)
        elif isinstance(x, (tuple, list)):
            for v in x:
                rec(v)

    rec(tree)
    return bool(found)


_CLS = {}


def _cls(it, name):
    if name not in _CLS:
        node = ast.parse(f"class {name}:\n    pass").body[0]
        from fjvc.interp import RepoClass
        _CLS[name] = RepoClass(it, node, it.module_env("flowjax.masks"), f"equinox.nn.{name}")
    return _CLS[name]


@family("masks/masked_autoregressive_mlp", ["C09", "C08", "C13"])
def masked_mlp(ctx):
    """MaskedAutoregressive.__init__ (rank construction) + masked_autoregressive_mlp, depth 0..2 (bounded), every size symbolic:
    after ANY update of the raw weights, a non-zero unwrapped weight [o, i] of layer l implies rank_{l+1}(o) >= rank_l(i)
    (strictly for the last layer); composing the layers: parameters of output dimension j are connected only to inputs < j and to the condition"""
    props = ["C09"]
    MQ = "flowjax.bijections.masked_autoregressive"
    for conditional in (False, True):
        for depth in (0, 1, 2):
            it = ctx.new_interp()
            mask_lib(it)
            nn_lib(it)
            from .wrappers import install as winstall
            winstall(it)
            mask_lib(it)
            dim, cd, width, npar = z3.Ints("dim cond_dim nn_width num_params")
            from fjvc.interp import find_def
            menv = it.module_env(MQ)
            real_mlp = it.make_function(find_def(menv.tree, "masked_autoregressive_mlp"), menv, f"{MQ}.masked_autoregressive_mlp")
            ranks_of = {}

            def recording_mlp(in_ranks, hidden_ranks, out_ranks, **kw):
                res = real_mlp(in_ranks, hidden_ranks, out_ranks, **kw)
                ranks_of[id(res)] = dict(in_ranks=in_ranks, hidden_ranks=hidden_ranks, out_ranks=out_ranks, keep=res)
                return res

            it.global_overrides[MQ] = {"get_ravelled_pytree_constructor": lambda t, *a, **k: (lambda flat: t, SV(npar)), "masked_autoregressive_mlp": recording_mlp}
            cls = it.repo_class(f"{MQ}.MaskedAutoregressive")
            transformer = Obj(_cls(it, "Transformer"), shape=(), cond_shape=None)
            tag0 = f"{'cond' if conditional else 'uncond'},depth={depth}"
            fnq = f"{MQ}.MaskedAutoregressive.__init__"
            paths = it.explore(lambda: cls("key", transformer=transformer, dim=SV(dim), cond_dim=(SV(cd) if conditional else None), nn_width=SV(width), nn_depth=depth))
            rets = [q for q in paths if q.outcome == "return"]
            # the constructor may branch on static sizes (e.g. a special case for dim == 1): every returning path is checked
            ctx.oblige(f"C09/MaskedAutoregressive.__init__[{tag0}]/struct/returns", len(rets) >= 1 and len(rets) == len(paths), [], props, kind="applicability", fn=fnq, note=f"outcomes: {[q.outcome for q in paths]}")
            for pk, p in enumerate(rets):
                tag = tag0 if len(rets) == 1 else f"{tag0},path{pk}"
                o_ = p.value
                okshape = isinstance(o_.shape, tuple) and len(o_.shape) == 1
                ctx.oblige(f"C08/MaskedAutoregressive.__init__[{tag}]/post/shape_is_dim", lift(o_.shape[0]) == dim if okshape else z3.BoolVal(False), p.cond, ["C09", "C08", "C13"], fn=fnq, replay=dict(kind="simple", cls="MaskedAutoregressive", vars={}))
                if conditional:
                    okc = isinstance(o_.cond_shape, tuple) and len(o_.cond_shape) == 1
                    ctx.oblige(f"C08/MaskedAutoregressive.__init__[{tag}]/post/cond_shape_is_cond_dim", lift(o_.cond_shape[0]) == cd if okc else z3.BoolVal(False), p.cond, ["C09", "C08", "C13"], fn=fnq, replay=dict(kind="simple", cls="MaskedAutoregressive", vars={}))
                else:
                    ctx.oblige(f"C08/MaskedAutoregressive.__init__[{tag}]/post/unconditional", o_.cond_shape is None, [], ["C09", "C08", "C13"], kind="struct", fn=fnq, replay=dict(kind="simple", cls="MaskedAutoregressive", vars={}))
                _masked_path(ctx, it, p, tag, props, MQ, fnq, ranks_of, depth, conditional, dim, cd, width, npar)


def _masked_path(ctx, it, p, tag, props, MQ, fnq, ranks_of, depth, conditional, dim, cd, width, npar):
    mlp = p.value.masked_autoregressive_mlp
    got = ranks_of.get(id(mlp), {})
    layers = mlp.layers
    Where = it.repo_class("flowjax.wrappers.Where")
    ok = len(layers) == depth + 1 and all(isinstance(l.weight, Obj) and obj_class(l.weight) is Where for l in layers)
    ctx.oblige(f"C09/masked_autoregressive_mlp[{tag}]/struct/every_weight_is_a_Where_wrapper", bool(ok), [], props, kind="applicability", fn=f"{MQ}.masked_autoregressive_mlp",
               note="masks live in Where wrappers (applied at every unwrap), boolean masks are not inexact arrays so no optimiser touches them")
    # arbitrary training: havoc every inexact leaf, then the real unwrap
    trained, nleaves = havoc_inexact(it, mlp, "Wtrained")
    unwrap = it.repo_function("flowjax.wrappers.unwrap")
    pu = it.explore(lambda: unwrap(trained))
    pu = single(pu, ctx, f"C09/masked_autoregressive_mlp[{tag}]/unwrap/struct/straight_line", props, "flowjax.wrappers.unwrap")
    if pu is None:
        return
    um = pu.value
    pre = [dim >= 1, width >= 1, npar >= 1] + ([cd >= 1] if conditional else [])
    n_in = dim + cd if conditional else dim
    okr = all(isinstance(got.get(k_), IVec) for k_ in ("in_ranks", "hidden_ranks", "out_ranks"))
    ctx.oblige(f"C09/MaskedAutoregressive.__init__[{tag}]/struct/rank_vectors", okr, [], props, kind="applicability", fn=fnq)
    if not okr:
        return
    # the ranks the real constructor assigns (hidden ranks are an implementation choice; only the conclusions below are specification)
    ranks = [got["in_ranks"].f] + [got["hidden_ranks"].f] * depth + [got["out_ranks"].f]
    sizes = [n_in] + [width] * depth + [dim * npar]
    idx = [z3.Int(f"u{l}") for l in range(depth + 2)]  # a path: unit idx[l] of layer l
    rng = [z3.And(idx[l] >= 0, idx[l] < sizes[l]) for l in range(depth + 2)]
    nonzero = []
    rp = dict(kind="c09", what="maf", vars={})
    dim2 = [dim >= 2] if (not conditional and depth > 0) else []
    for l, lin in enumerate(um.layers):
        Wl = lin.weight
        okw = isinstance(Wl, MV)
        ctx.oblige(f"C09/masked_autoregressive_mlp[{tag}]/layer{l}/struct/unwrapped_matrix", okw, [], props, kind="applicability", fn=f"{MQ}.masked_autoregressive_mlp")
        if not okw:
            continue
        o_, i_ = idx[l + 1], idx[l]
        nz = Wl.f(o_, i_) != 0
        nonzero.append(nz)
        last = l == depth
        allowed = (ranks[l + 1](o_) > ranks[l](i_)) if last else (ranks[l + 1](o_) >= ranks[l](i_))
        hyp = pre + p.cond + pu.cond + [rng[l], rng[l + 1]] + dim2
        ctx.oblige(f"C09/masked_autoregressive_mlp[{tag}]/layer{l}/post/nonzero_weight_respects_ranks", z3.Implies(nz, allowed), hyp, props, fn=f"{MQ}.masked_autoregressive_mlp", replay=rp)
        ctx.oblige(f"C09/masked_autoregressive_mlp[{tag}]/layer{l}/post/shape", z3.And(Wl.rows == sizes[l + 1], Wl.cols == sizes[l]), hyp, props, fn=f"{MQ}.masked_autoregressive_mlp", replay=rp)
    if len(nonzero) == depth + 1:
        # path lemma: a chain of non-zero weights from input unit u0 to output unit u_{d+1}
        hyp = pre + p.cond + pu.cond + rng + nonzero + dim2
        j = idx[-1] / npar  # the dimension whose transformer parameter this output is
        concl = z3.If(idx[0] < dim, idx[0] < j, z3.BoolVal(True)) if conditional else idx[0] < j
        ctx.oblige(f"C09/masked_autoregressive_mlp[{tag}]/post/output_j_connected_only_to_inputs_before_j", concl, hyp, props, fn=f"{MQ}.MaskedAutoregressive.__init__", replay=rp)
        ctx.control(f"C09/masked_autoregressive_mlp[{tag}]/control/strictly_two_before", z3.If(idx[0] < dim, idx[0] + 1 < j, z3.BoolVal(True)), hyp + [dim >= 3], props, fn=f"{MQ}.MaskedAutoregressive.__init__")
    ctx.oblige(f"C09/masked_autoregressive_mlp[{tag}]/struct/trainable_leaves_found", nleaves >= depth + 1, [], props, kind="struct", fn=f"{MQ}.masked_autoregressive_mlp")
    # ---- no permitted dependency is missing: the masks (= rank comparisons, proved in masks/rank_based_mask) leave a path open
    #      from every permitted input to every output.  A witness chain through ONE hidden unit index (used in every hidden layer).
    o_, i_ = idx[-1], idx[0]
    j = o_ / npar

    def open_chain(h):
        if depth == 0:
            return ranks[1](o_) > ranks[0](i_)
        steps = [ranks[1](h) >= ranks[0](i_)] + [ranks[l + 1](h) >= ranks[l](h) for l in range(1, depth)] + [ranks[depth + 1](o_) > ranks[depth](h)]
        return z3.And(h >= 0, h < width, *steps)

    cands = [i_, i_ + 1, z3.IntVal(0), width - 1]
    base = pre + p.cond + [rng[0], rng[-1]]
    if conditional:
        ctx.oblige(f"C09/masked_autoregressive_mlp[{tag}]/post/every_output_is_connected_to_every_condition_input", z3.Or(*[open_chain(h) for h in ([z3.IntVal(0)] if depth == 0 else cands)]),
                   base + [i_ >= dim], props, fn=fnq, replay=rp, note="the transformer parameters of every dimension (also dimension 0) depend freely on the condition")
    ctx.oblige(f"C09/masked_autoregressive_mlp[{tag}]/post/no_permitted_dependency_missing_when_width_at_least_dim", z3.Or(*[open_chain(h) for h in ([z3.IntVal(0)] if depth == 0 else cands)]),
               base + [i_ < dim, i_ < j, width >= dim] + dim2, props, fn=fnq, replay=rp, note="parameters of output dimension j see every input i < j when the hidden width is at least the dimension")


@family("masks/block_autoregressive_linear", ["C09", "C02", "C04", "C18"])
def bnaf_linear(ctx):
    """after ANY update of the raw weights the unwrapped BNAF weight is zero above the block diagonal and strictly positive on it"""
    it = ctx.interp
    mask_lib(it)
    nn_lib(it)
    from .wrappers import install as winstall
    from .params11 import env11, defined_and
    winstall(it)
    env11(it)
    mask_lib(it)
    props = ["C09", "C02", "C04", "C18"]  # C18: log_jacobian_fn takes jnp.log of the diagonal blocks, whose entries are > 0 for all raw weights
    BQ = "flowjax.bijections.block_autoregressive_network"
    fnq = f"{BQ}.block_autoregressive_linear"
    RB, CB = z3.Function("row_block", I, I), z3.Function("col_block", I, I)
    b0, b1, n = z3.Ints("b0 b1 n_blocks")

    class Masks:  # contracts of flowjax.masks (families masks/block_tril_mask; block_diag_mask = jax block_diag of ones, T3)
        @staticmethod
        def block_diag_mask(block_shape, n_blocks):
            return MV(lift(block_shape[0]) * lift(n_blocks), lift(block_shape[1]) * lift(n_blocks), lambda r, c: RB(r) == CB(c), "bool")

        @staticmethod
        def block_tril_mask(block_shape, n_blocks, k=0):
            return MV(lift(block_shape[0]) * lift(n_blocks), lift(block_shape[1]) * lift(n_blocks), lambda r, c: RB(r) >= CB(c), "bool")

    it.global_overrides[BQ] = {"masks": Masks}
    RN = z3.Function("row_norm", I, R)
    it.lib.overrides["jax.numpy.linalg.norm"] = lambda m, axis=None, keepdims=False: RowScal(m.rows, lambda r: RN(r))
    it.lib.overrides["jax.numpy.isfinite"] = lambda v: SV(z3.BoolVal(True), True)  # construction succeeds for the (positive, finite) initial row norms
    it.lib.overrides["jax.numpy.vectorize"] = lambda f, signature=None, excluded=frozenset(): (lambda x, c=None: _vec_apply(f, x))
    fn = it.repo_function(fnq)
    paths = it.explore(lambda: fn("key", n_blocks=SV(n), block_shape=(SV(b0), SV(b1))))
    normal = [p for p in paths if p.outcome == "return"]
    ctx.oblige("C09/block_autoregressive_linear/struct/returns", len(normal) >= 1, [], props, kind="struct", fn=fnq)
    if not normal:
        return
    p = normal[0]
    linear, _logjac = p.value
    trained, nleaves = havoc_inexact(it, linear, "BNAFtrained")
    unwrap = it.repo_function("flowjax.wrappers.unwrap")
    pus = [q for q in it.explore(lambda: unwrap(trained)) if q.outcome == "return"]
    ctx.oblige("C09/block_autoregressive_linear/unwrap/struct/returns", len(pus) == 1, [], props, kind="struct", fn="flowjax.wrappers.unwrap")
    if len(pus) != 1:
        return
    Wm = pus[0].value.weight
    ok = isinstance(Wm, MV)
    ctx.oblige("C09/block_autoregressive_linear/struct/unwrapped_matrix", ok, [], props, kind="applicability", fn=fnq)
    if not ok:
        return
    w = Wm.f(r_, c_)
    hyp = p.cond + pus[0].cond + [RN(r_) > 0]  # T1: the norm of a row with a non-zero entry is positive (each row meets its diagonal block)
    rp = dict(kind="c09", what="bnaf", vars={})
    ctx.oblige("C09/block_autoregressive_linear/post/zero_above_block_diagonal_for_any_raw_weights", z3.Implies(RB(r_) < CB(c_), w == 0), hyp, props, fn=fnq, replay=rp, rounds=2)
    ctx.oblige("C09/block_autoregressive_linear/post/positive_on_block_diagonal_for_any_raw_weights", z3.Implies(RB(r_) == CB(c_), w > 0), hyp, props, fn=fnq, replay=rp, rounds=2)
    ctx.control("C09/block_autoregressive_linear/control/positive_below_diagonal", z3.Implies(RB(r_) > CB(c_), w > 0), hyp, props, fn=fnq, rounds=2)
    ctx.oblige("C09/block_autoregressive_linear/struct/trainable_leaves_found", nleaves >= 2, [], props, kind="struct", fn=fnq)


def _vec_apply(f, x):
    """jnp.vectorize of a shape-() bijection method applied to a matrix / per-row scalar: entrywise"""
    if isinstance(x, MV):
        return MV(x.rows, x.cols, lambda r, c: to_real(lift(f(SV(x.f(r, c)), None))))
    if isinstance(x, RowScal):
        return RowScal(x.rows, lambda r: to_real(lift(f(SV(x.f(r)), None))))
    return f(x, None)
