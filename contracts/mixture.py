"""VmapMixture (C05, C11): component weights stay normalised for EVERY value of the trainable leaves, the density is the
weight-normalised log-sum-exp of the component log-densities, the constructor reproduces / rejects its weights.

Vectors over the component index are z3 arrays; logsumexp is an uninterpreted reduction LSE with the shift law (T1)
    LSE(lambda k. a[k] - c) == LSE(a) - c        (hence LSE(log_softmax(a)) == 0: the weights sum to one).
"""
import z3

from fjvc.core import family, apps_of
from fjvc.interp import Obj, PyRaise, Untranslatable, obj_class, obj_fields
from fjvc.lib import tree_map, TypeMarker
from fjvc.values import SV, UF, lift, to_real, R, I

from .abstract import T, KEY, NONE, TV, cond_term
from .leaves import method, single

log = UF["log"]
ArrS = z3.ArraySort(I, R)
LSE = z3.Function("logsumexp", ArrS, R)
CLP = z3.Function("component_log_prob", I, T, T, R)  # log-density of component k at x given the condition
kb = z3.Int("k!b")
j = z3.Int("component")
ncomp = z3.Int("n_components")


def sel(arr, i):
    if z3.is_quantifier(arr) and arr.is_lambda():
        return z3.substitute_vars(arr.body(), i)
    return z3.Select(arr, i)


class LA:
    """real vector over the component index"""
    is_array = True

    def __init__(self, arr):
        self.arr = arr

    def at(self, i):
        return sel(self.arr, i)

    def _bin(self, o, op):
        if isinstance(o, LA):
            return LA(z3.Lambda([kb], op(self.at(kb), o.at(kb))))
        c = to_real(lift(o))
        return LA(z3.Lambda([kb], op(self.at(kb), c)))

    def __add__(self, o):
        return self._bin(o, lambda a, b: a + b)

    __radd__ = __add__

    def __sub__(self, o):
        return self._bin(o, lambda a, b: a - b)

    def __le__(self, o):
        return SV(self.at(j) <= to_real(lift(o)), True)  # generic component: `any element` semantics at error_if

    def __lt__(self, o):
        return SV(self.at(j) < to_real(lift(o)), True)


def shift_law(asserts):
    """LSE(lambda k. a[k] - c) == LSE(a) - c for the log_softmax terms that occur"""
    out = []
    for a in apps_of(LSE, asserts):
        arr = a.arg(0)
        if z3.is_quantifier(arr) and arr.is_lambda():
            body = arr.body()
            # body: Select(A, var) - LSE(A)  (the shape log_softmax produces)
            if z3.is_app(body) and body.decl().kind() == z3.Z3_OP_SUB and len(body.children()) == 2:
                lhs, c = body.children()
                if z3.is_app(c) and c.decl().eq(LSE) and z3.is_app(lhs) and lhs.decl().kind() == z3.Z3_OP_SELECT and lhs.arg(0).eq(c.arg(0)) and z3.is_var(lhs.arg(1)):
                    out.append(a == LSE(c.arg(0)) - c)
    return out


def mix_lib(it):
    lib = it.lib.overrides
    lib["jax.numpy.log"] = lambda v: LA(z3.Lambda([kb], log(v.at(kb)))) if isinstance(v, LA) else SV(log(to_real(lift(v))))
    lib["jax.nn.log_softmax"] = lambda v: LA(z3.Lambda([kb], z3.Select(v.arr, kb) - LSE(v.arr))) if not (z3.is_quantifier(v.arr)) else _lsm(v)
    lib["jax.scipy.special.logsumexp"] = lambda v: SV(LSE(v.arr))

    def error_if(x, pred, msg):
        if it.truth(pred if isinstance(pred, SV) else SV(lift(pred))):
            raise PyRaise("EquinoxRuntimeError", msg)
        return x

    lib["equinox.error_if"] = error_if


def _lsm(v):
    """log_softmax of a lambda array: name the array first so that the shift law stays syntactic"""
    raise Untranslatable("log_softmax of an unnamed vector")


@family("mixture/VmapMixture", ["C05", "C11"])
def vmap_mixture(ctx):
    it = ctx.interp
    from .wrappers import install as winstall
    winstall(it)
    mix_lib(it)
    props = ["C05", "C11"]
    Q = "flowjax.distributions.VmapMixture"
    cls = it.repo_class(Q)
    W = z3.Array("weights", I, R)
    LOGW = z3.Array("log_weights", I, R)  # name for jnp.log(weights) (defining equation added as a hypothesis)
    x, c, key = z3.Const("x", T), z3.Const("c", T), z3.Const("key", KEY)
    rng = [ncomp >= 1, j >= 0, j < ncomp]
    it.lib.overrides["jax.numpy.log"] = lambda v: LA(LOGW) if isinstance(v, LA) and v.arr.eq(W) else SV(log(to_real(lift(v))))
    logw_def = z3.Select(LOGW, j) == log(z3.Select(W, j))

    class Components:
        """eqx.filter_vmap(Dist)(params): a batch of component distributions"""
        shape = ("event",)
        cond_shape = None

    comps = Components()
    paths = it.explore(lambda: cls(comps, LA(W)))
    ok = [p for p in paths if p.outcome == "return"]
    rp = dict(kind="c05", what="mixture", vars={})
    fq = Q + ".__init__"
    ctx.oblige("C11/VmapMixture.__init__/struct/has_success_path", len(ok) == 1, [], props, kind="struct", fn=fq)
    for n_, p in enumerate(paths):
        if p.outcome == "raise":
            ctx.oblige(f"C11/VmapMixture.__init__/post/rejects_only_nonpositive_weights#{n_}", z3.Select(W, j) <= 0, rng + p.cond, props, fn=fq, replay=rp)
        else:
            ctx.oblige(f"C11/VmapMixture.__init__/post/accepts_only_positive_weights#{n_}", z3.Select(W, j) > 0, rng + p.cond, props, fn=fq, replay=rp)
    if len(ok) != 1:
        return
    o = ok[0].value
    unwrap = it.repo_function("flowjax.wrappers.unwrap")
    pu0 = [q for q in it.explore(lambda: unwrap(o)) if q.outcome == "return"]
    okc = len(pu0) == 1 and isinstance(pu0[0].value.log_normalized_weights, LA)
    ctx.oblige("C11/VmapMixture.__init__/struct/unwraps_to_a_vector", okc, [], props, kind="applicability", fn=fq)
    if okc:
        lw0 = pu0[0].value.log_normalized_weights
        # reproduces its constructor argument: log w_k - log sum_k w_k  (log-softmax of the log-weights), normalised
        ctx.oblige("C11/VmapMixture.__init__/post/reproduces_normalised_weights", lw0.at(j) == z3.Select(LOGW, j) - LSE(LOGW), rng + ok[0].cond + pu0[0].cond + [logw_def], props, fn=fq, replay=rp)
        ctx.oblige("C11/VmapMixture.__init__/post/weights_sum_to_one", LSE(lw0.arr) == 0, rng + ok[0].cond + pu0[0].cond, props, fn=fq, replay=rp, inst=[shift_law])
    # ---- whatever training does to the trainable leaves
    cnt = [0]

    def hv(leaf):
        if isinstance(leaf, LA):
            cnt[0] += 1
            return LA(z3.Array(f"trained_leaf_{cnt[0]}", I, R))
        return leaf

    trained = tree_map(hv, o)
    ctx.oblige("C11/VmapMixture/struct/trainable_weight_leaf_found", cnt[0] >= 1, [], props, kind="struct", fn=fq)
    pu = [q for q in it.explore(lambda: unwrap(trained)) if q.outcome == "return"]
    ctx.oblige("C11/VmapMixture/unwrap/struct/returns", len(pu) == 1, [], props, kind="struct", fn="flowjax.wrappers.unwrap")
    if len(pu) != 1:
        return
    u = pu[0].value
    lw = u.log_normalized_weights
    if not isinstance(lw, LA):
        ctx.oblige("C11/VmapMixture/struct/unwrapped_weights_vector", False, [], props, kind="applicability", fn=fq)
        return
    ctx.oblige("C11/VmapMixture/post/weights_sum_to_one_for_any_raw_values", LSE(lw.arr) == 0, rng + pu[0].cond, props, fn=fq, replay=rp, inst=[shift_law],
               note="logsumexp of the unwrapped log-weights is 0 for every value of the trainable leaf")
    # ---- density: log sum_k w_k p_k(x) as logsumexp(component log-probs + log-weights)
    class CompBatch:
        pass

    u2 = Obj(obj_class(u), **dict(obj_fields(u), dist=comps))
    it.lib.overrides["equinox.filter_vmap"] = lambda f, **kw: (lambda batch: LA(z3.Lambda([kb], to_real(lift(f(CompK(kb)))))))

    class CompK:
        def __init__(self, k):
            self.k = k

        def _log_prob(self, x_, condition=None):
            return SV(CLP(self.k, x_.e, cond_term(condition)))

    for cname, cond in (("unconditional", None), ("conditional", TV(c))):
        plp = single(it.explore(lambda cond=cond: method(cls, "_log_prob")(u2, TV(x), cond)), ctx, f"C05/VmapMixture._log_prob[{cname}]/struct/straight_line", props, Q + "._log_prob")
        if plp is None:
            continue
        cc = NONE if cond is None else c
        want = LSE(z3.Lambda([kb], CLP(kb, x, cc) + lw.at(kb)))
        ctx.oblige(f"C05/VmapMixture._log_prob[{cname}]/post/logsumexp_of_component_log_probs_plus_log_weights", lift(plp.value) == want, plp.cond, props, fn=Q + "._log_prob", replay=rp)


@family("mixture/VmapMixture._sample", ["C05", "C04"])
def vmap_mixture_sample(ctx):
    """ancestral sampling: a component index drawn from Categorical(weights) with one key, then a draw from THAT component with
    an INDEPENDENT key (both derived from the caller's key, neither equal to it nor to each other), condition passed through."""
    it = ctx.interp
    from .wrappers import install as winstall
    winstall(it)
    mix_lib(it)
    props = ["C05", "C04"]
    Q = "flowjax.distributions.VmapMixture"
    cls = it.repo_class(Q)
    fq = Q + "._sample"
    LW = z3.Array("log_normalized_weights", I, R)
    c, key = z3.Const("c", T), z3.Const("key", KEY)
    SPLITK = z3.Function("split_key", KEY, I, KEY)  # jr.split(key, n)[i]   (T3: distinct children, all different from the parent)
    CAT = z3.Function("categorical", KEY, ArrS, I)
    CSAMP = z3.Function("component_sample", I, KEY, T, T)
    rec = {}

    class KV:
        def __init__(self, e):
            self.e = e

    def split(k, n=2):
        if not isinstance(n, int):
            raise Untranslatable("jr.split with a symbolic count in VmapMixture._sample")
        rec.setdefault("splits", []).append((k.e, n))
        return tuple(KV(SPLITK(k.e, z3.IntVal(i_))) for i_ in range(n))

    def categorical(k, logits, **kw):
        rec.setdefault("cat", []).append((k.e, logits))
        if not isinstance(logits, LA):
            raise Untranslatable("categorical over something that is not the weight vector")
        return SV(CAT(k.e, logits.arr))

    class Leaf:
        """array leaf of the batched component distribution (leading axis = component)"""
        is_array = True

        def __init__(self, name):
            self.name = name

        def __getitem__(self, idx):
            return ("leaf_of_component", self.name, lift(idx))

    class Comps:
        def __init__(self, leaves, picked=None):
            self.leaves, self.picked = leaves, picked
            self.shape, self.cond_shape = ("event",), None

        def _sample(self, k, condition=None):
            rec.setdefault("draw", []).append((self.picked, k.e, condition))
            if self.picked is None:
                raise Untranslatable("_sample on the whole component batch")
            return TV(CSAMP(self.picked, k.e, cond_term(condition)))

    def tmap(f, tree, *rest, is_leaf=None, **kw):
        if isinstance(tree, Comps):
            out = [f(l) for l in tree.leaves]
            idxs = {str(o[2]) for o in out if isinstance(o, tuple) and o and o[0] == "leaf_of_component"}
            static_ok = all((isinstance(o, tuple) and o[0] == "leaf_of_component") or o is l for o, l in zip(out, tree.leaves) if not isinstance(l, Leaf) or True)
            if len(idxs) != 1 or not static_ok:
                rec["bad_select"] = out
                return Comps(out, None)
            picked = next(o[2] for o in out if isinstance(o, tuple) and o[0] == "leaf_of_component")
            all_arrays = all(isinstance(o, tuple) and o[0] == "leaf_of_component" for o, l in zip(out, tree.leaves) if isinstance(l, Leaf))
            return Comps(out, picked if all_arrays else None)
        return tree_map(f, tree, *rest, is_leaf=is_leaf)

    lib = it.lib.overrides
    lib["jax.random.split"] = split
    lib["jax.random.categorical"] = categorical
    lib["jax.tree_util.tree_map"] = tmap
    lib["jax.tree.map"] = tmap
    lib["jaxtyping.Array"] = TypeMarker("Array", check=lambda v: isinstance(v, Leaf))
    comps = Comps([Leaf("loc"), "static_field", Leaf("scale")])
    self = Obj(cls, dist=comps, log_normalized_weights=LA(LW), shape=("event",), cond_shape=None)
    for cname, cond in (("unconditional", None), ("conditional", TV(c))):
        rec.clear()
        p = single(it.explore(lambda cond=cond: method(cls, "_sample")(self, KV(key), cond)), ctx, f"C05/VmapMixture._sample[{cname}]/struct/straight_line", props, fq)
        if p is None:
            continue
        rp = dict(kind="c05", what="mixture_sample", vars={})
        cats, draws = rec.get("cat", []), rec.get("draw", [])
        okshape = len(cats) == 1 and len(draws) == 1 and isinstance(p.value, TV) and "bad_select" not in rec
        ctx.oblige(f"C05/VmapMixture._sample[{cname}]/struct/one_component_draw_and_one_sample", okshape, [], props, kind="applicability", fn=fq)
        if not okshape:
            continue
        kc, logits = cats[0]
        picked, kd, _cd = draws[0]
        cc = NONE if cond is None else c
        # T3 facts about jr.split: children of one parent are pairwise distinct and differ from the parent (ground instances)
        kids = [SPLITK(par, z3.IntVal(i_)) for par, n_ in rec.get("splits", []) for i_ in range(n_)]
        t3 = [z3.Distinct(*kids)] if len(kids) > 1 else []
        t3 += [kid != par for par, n_ in rec.get("splits", []) for kid in [SPLITK(par, z3.IntVal(i_)) for i_ in range(n_)]]
        ctx.oblige(f"C05/VmapMixture._sample[{cname}]/post/component_drawn_from_the_normalised_weights", z3.And(logits.arr == LW, picked == CAT(kc, LW)), p.cond, props, fn=fq, replay=rp)
        ctx.oblige(f"C05/VmapMixture._sample[{cname}]/post/draw_comes_from_the_chosen_component_with_the_condition", p.value.e == CSAMP(CAT(kc, LW), kd, cc), p.cond, props, fn=fq, replay=rp)
        ctx.oblige(f"C05/VmapMixture._sample[{cname}]/post/component_choice_and_draw_use_independent_keys", z3.And(kc != kd, kc != key, kd != key), p.cond + t3, props, fn=fq, replay=rp,
                   note="a key used twice correlates the chosen component with the drawn value: the joint law is then not the mixture")
        derived = {str(k_) for k_ in kids}
        ctx.oblige(f"C05/VmapMixture._sample[{cname}]/struct/keys_derived_from_the_callers_key", str(kc) in derived and str(kd) in derived and all(par.eq(key) or str(par) in derived for par, _n in rec.get("splits", [])), [], props, kind="struct", fn=fq, replay=rp)
