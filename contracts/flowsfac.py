"""The flow factories of flowjax/flows.py (C03, C04): executed from their real ASTs with recording layer constructors.

For coupling_flow, masked_autoregressive_flow, block_neural_autoregressive_flow and planar_flow, each orientation and
conditional / unconditional:  the result is Transformed(the given base, Invert(Scan(L)) | Scan(L)); L is the vmap of make_layer
over `flow_layers` keys split from `key`; every layer is built with dim = base_dist.shape[-1] and the given cond_dim; the permutation that may
follow a layer acts on all dim coordinates.  Architecture choices that do not affect the property (which orientation `invert` selects,
how many coordinates a coupling layer leaves untouched, which options reach the conditioner, how init keys are split) are NOT
specified here: a change to them must not raise an alarm.
"""
import z3

from fjvc.core import family
from fjvc.interp import Obj, Untranslatable
from fjvc.values import SV, SymSeq, lift, I

from .datafit import KEY, child, depth, Key

MOD = "flowjax.flows"


class Rec:
    """a recorded constructor call"""

    def __init__(self, kind, *args, **kw):
        self.kind, self.args, self.kw = kind, args, kw
        self.shape = kw.get("shape", None)
        self.cond_shape = None

    def merge_chains(self):
        """Chain.merge_chains only flattens nested chains (same function; its own contract is in combinators / C08)"""
        if self.kind != "Chain":
            raise Untranslatable(f"merge_chains on {self.kind}")
        return self

    def __repr__(self):
        return f"{self.kind}({', '.join(map(repr, self.args))}{', ' if self.args and self.kw else ''}{', '.join(f'{k}={v!r}' for k, v in self.kw.items())})"


def _mentions(v, kind, depth=0):
    if depth > 12:
        return False
    if isinstance(v, Rec):
        return v.kind == kind or any(_mentions(a, kind, depth + 1) for a in v.args) or any(_mentions(a, kind, depth + 1) for a in v.kw.values())
    if isinstance(v, (list, tuple)):
        return any(_mentions(a, kind, depth + 1) for a in v)
    if isinstance(v, dict):
        return any(_mentions(a, kind, depth + 1) for a in v.values())
    return False


def rec(kind):
    return lambda *a, **k: Rec(kind, *a, **k)


def install(it, dimv):
    lib = it.lib.overrides

    def split(key, num=2):
        if isinstance(num, int):
            return [Key(child(key.e, z3.IntVal(num), z3.IntVal(i))) for i in range(num)]
        n = lift(num)
        return SymSeq(n, lambda i: Key(child(key.e, n, i)), "key")

    lib["jax.random.split"] = split
    lib["jax.random.permutation"] = lambda key, a, **k: Rec("permutation", key, a)
    lib["jax.numpy.arange"] = lambda n: Rec("arange", n)

    def filter_vmap(f, **kw):
        def run(*a):
            if not a:
                return Rec("vmapped_constructor", f(), **kw)
            keys = a[0]
            if not isinstance(keys, SymSeq):
                raise Untranslatable("filter_vmap(make_layer) applied to something else than the split keys")
            i = z3.Int("layer")
            return Rec("stacked_layers", generic_index=i, layer=f(keys.at(i)), n=keys.length)
        return run

    lib["equinox.filter_vmap"] = filter_vmap
    g = {k: rec(k) for k in ("Coupling", "MaskedAutoregressive", "BlockAutoregressiveNetwork", "Planar", "Flip", "Permute", "Chain", "Scan", "Invert", "Transformed",
                             "TriangularAffine", "WeightNormalization", "LeakyTanh", "RationalQuadraticSpline", "Vmap", "AdditiveCondition", "Linear", "Loc")}

    class Weights(Rec):
        @property
        def at(self):
            me = self

            class At:
                def __getitem__(self, idx):
                    class S:
                        def set(self_, v):
                            return Weights("weights_with_unit_diagonal", me, idx, v)
                    return S()
            return At()

    g["glorot_uniform"] = lambda *a, **k: (lambda key, shape: Weights("initial_weights", key, shape))
    lib["jax.numpy.diag_indices"] = lambda n: Rec("diag_indices", n)
    lib["jax.numpy.zeros"] = lambda shape, **k: Rec("zeros", shape)
    lib["equinox.tree_at"] = lambda where, pytree, replace=None, replace_fn=None, **k: Rec("tree_at", pytree, replace=replace, replace_fn=replace_fn, shape=getattr(pytree, "shape", None))
    lib["equinox.if_array"] = lambda ax: ax
    g["_affine_with_min_scale"] = lambda *a, **k: Rec("default_affine_transformer", *a, **k)
    # a factory that unwraps what it built bakes masks / reparameterisations into plain trainable arrays (the structure is then lost
    # at the first optimiser step): recorded, so that the layer-structure obligations see it
    g["unwrap"] = lambda t: Rec("unwrapped_inside_the_factory", t)
    it.global_overrides[MOD] = g


@family("flows/factories", ["C03", "C04"])
def factories(ctx):
    props = ["C03", "C04"]
    dimv, nl = z3.Int("dim"), z3.Int("flow_layers")
    key0 = z3.Const("key", KEY)
    FACT = {"coupling_flow": ("Coupling", dict(nn_width=SV(z3.Int("nn_width")), nn_depth=SV(z3.Int("nn_depth")))),
            "masked_autoregressive_flow": ("MaskedAutoregressive", dict(nn_width=SV(z3.Int("nn_width")), nn_depth=SV(z3.Int("nn_depth")))),
            "block_neural_autoregressive_flow": ("BlockAutoregressiveNetwork", dict(nn_depth=SV(z3.Int("nn_depth")), nn_block_dim=SV(z3.Int("nn_block_dim")))),
            "planar_flow": ("Planar", dict(negative_slope=SV(z3.Real("negative_slope"))))}
    for fname, (layer_kind, opts) in FACT.items():
        for invert in (True, False):
            for cname, cd in (("unconditional", None), ("conditional", SV(z3.Int("cond_dim")))):
                it = ctx.new_interp()
                install(it, dimv)
                fnq = f"{MOD}.{fname}"
                fn = it.repo_function(fnq)
                base = Rec("base_dist")
                base.shape = (SV(dimv),)
                tag = f"{fname}[invert={invert},{cname}]"
                paths = it.explore(lambda: fn(Key(key0), base_dist=base, cond_dim=cd, flow_layers=SV(nl), invert=invert, **opts))
                ok = [p for p in paths if p.outcome == "return"]
                ctx.oblige(f"C03/{tag}/struct/returns_on_every_path", len(ok) == len(paths) and len(ok) >= 1, [], props, kind="struct", fn=fnq)
                rp = dict(kind="transformed", vars={})
                for n_, p in enumerate(ok):
                    d = p.value
                    good = isinstance(d, Rec) and d.kind == "Transformed" and len(d.args) == 2 and d.args[0] is base
                    ctx.oblige(f"C03/{tag}/post/transformed_of_the_given_base#{n_}", bool(good), [], props, kind="struct", fn=fnq, replay=rp)
                    if not good:
                        continue
                    b = d.args[1]
                    # nothing the factory built was unwrapped on the way out: masks (Where), reparameterisations and frozen leaves have to
                    # survive construction, otherwise they are ordinary trainable arrays from the first optimiser step on
                    ctx.oblige(f"C04/{tag}/post/constraint_wrappers_survive_construction#{n_}", not _mentions(d, "unwrapped_inside_the_factory"), [], props, kind="struct", fn=fnq, replay=rp,
                               note="the factory calls unwrap on (part of) the flow it returns")
                    # either orientation is a valid flow (which one `invert` selects is a performance choice, not part of the property)
                    if isinstance(b, Rec) and b.kind == "Invert" and isinstance(b.args[0], Rec) and b.args[0].kind == "Scan":
                        scan = b.args[0]
                    elif isinstance(b, Rec) and b.kind == "Scan":
                        scan = b
                    else:
                        scan = None
                    ctx.oblige(f"C03/{tag}/post/bijection_is_a_scan_of_the_layers_in_one_orientation#{n_}", scan is not None, [], props, kind="struct", fn=fnq, replay=rp,
                               note="Invert(Scan(layers)) or Scan(layers): sampling and density both go through this ONE bijection object (C03's Transformed contract)")
                    if scan is None:
                        continue
                    st = scan.args[0]
                    okst = isinstance(st, Rec) and st.kind == "stacked_layers"
                    ctx.oblige(f"C03/{tag}/struct/layers_are_vmapped_over_split_keys#{n_}", bool(okst), [], props, kind="applicability", fn=fnq)
                    if not okst:
                        continue
                    i = st.kw["generic_index"]
                    lay = st.kw["layer"]
                    # default permutation by dimension
                    if lay.kind == "Chain":
                        parts = list(lay.args[0])
                        core_, perm = parts[0], parts[1] if len(parts) == 2 else None
                    else:
                        core_, perm = lay, None
                    okk = isinstance(core_, Rec) and core_.kind == layer_kind
                    ctx.oblige(f"C03/{tag}/struct/layer_kind#{n_}", bool(okk), [], props, kind="applicability", fn=fnq)
                    if not okk:
                        continue
                    # which permutation follows a layer is an architecture choice; it must be a permutation of ALL dim coordinates
                    if perm is None:
                        pass
                    elif perm.kind == "Flip":
                        fs = perm.args[0] if perm.args else perm.kw.get("shape")
                        ctx.oblige(f"C03/{tag}/post/flip_has_the_flow_shape#{n_}", z3.BoolVal(isinstance(fs, tuple) and len(fs) == 1) if not (isinstance(fs, tuple) and len(fs) == 1) else lift(fs[0]) == dimv, p.cond, props, fn=f"{MOD}._add_default_permute", replay=rp)
                    elif perm.kind == "Permute":
                        pm = perm.args[0]
                        # jr.permutation(key, n) and jr.permutation(key, arange(n)) are the same call (documented): both accepted
                        okp = isinstance(pm, Rec) and pm.kind == "permutation"
                        what = pm.args[1] if okp else None
                        count = what.args[0] if (isinstance(what, Rec) and what.kind == "arange") else what
                        okp = okp and isinstance(count, (SV, int))
                        ctx.oblige(f"C03/{tag}/struct/random_permutation_of_all_coordinates#{n_}", bool(okp), [], props, kind="struct", fn=f"{MOD}._add_default_permute")
                        if okp:
                            ctx.oblige(f"C03/{tag}/post/permutation_of_all_coordinates#{n_}", lift(count) == dimv, p.cond + [dimv >= 1], props, fn=f"{MOD}._add_default_permute", replay=rp)
                    else:
                        ctx.oblige(f"C03/{tag}/struct/known_permutation_kind#{n_}", False, [], props, kind="applicability", fn=f"{MOD}._add_default_permute")
                    # layer arguments
                    kw = dict(core_.kw)
                    lkey = kw.get("key", core_.args[0] if core_.args else None)
                    same_dim = lift(kw.get("dim")) == dimv if kw.get("dim") is not None else z3.BoolVal(False)
                    ctx.oblige(f"C03/{tag}/post/layer_dim_is_base_dim#{n_}", same_dim, p.cond, props, fn=fnq, replay=rp)
                    okc = (kw.get("cond_dim") is cd)
                    ctx.oblige(f"C03/{tag}/post/condition_dimension_passed_to_every_layer#{n_}", bool(okc), [], props, kind="struct", fn=fnq, replay=rp)
                    if layer_kind == "Coupling":
                        ud = lift(kw.get("untransformed_dim"))
                        ctx.oblige(f"C03/{tag}/post/coupling_split_inside_the_vector#{n_}", z3.And(ud >= 0, ud <= dimv), p.cond + [dimv >= 1], props, fn=fnq, replay=rp)

    # ---- triangular_spline_flow: LeakyTanh -> elementwise splines -> LeakyTanh^-1 -> weight-normalised triangular affine (-> + linear(condition))
    fname = "triangular_spline_flow"
    for invert in (True, False):
        for cname, cd in (("unconditional", None), ("conditional", SV(z3.Int("cond_dim")))):
            it = ctx.new_interp()
            install(it, dimv)
            fnq = f"{MOD}.{fname}"
            fn = it.repo_function(fnq)
            base = Rec("base_dist")
            base.shape = (SV(dimv),)
            tag = f"{fname}[invert={invert},{cname}]"
            paths = it.explore(lambda: fn(Key(key0), base_dist=base, cond_dim=cd, flow_layers=SV(nl), knots=SV(z3.Int("knots")), tanh_max_val=SV(z3.Real("tanh_max_val")), invert=invert))
            ok = [p for p in paths if p.outcome == "return"]
            ctx.oblige(f"C03/{tag}/struct/returns_on_every_path", len(ok) == len(paths) and len(ok) >= 1, [], props, kind="struct", fn=fnq)
            rp = dict(kind="transformed", vars={})
            for n_, p in enumerate(ok):
                d = p.value
                good = isinstance(d, Rec) and d.kind == "Transformed" and len(d.args) == 2 and d.args[0] is base
                ctx.oblige(f"C03/{tag}/post/transformed_of_the_given_base#{n_}", bool(good), [], props, kind="struct", fn=fnq, replay=rp)
                if not good:
                    continue
                b = d.args[1]
                scan = b.args[0] if (isinstance(b, Rec) and b.kind == "Invert" and isinstance(b.args[0], Rec) and b.args[0].kind == "Scan") else (b if isinstance(b, Rec) and b.kind == "Scan" else None)
                ctx.oblige(f"C03/{tag}/post/bijection_is_a_scan_of_the_layers_in_one_orientation#{n_}", scan is not None, [], props, kind="struct", fn=fnq, replay=rp)
                if scan is None or not (isinstance(scan.args[0], Rec) and scan.args[0].kind == "stacked_layers"):
                    continue
                lay = scan.args[0].kw["layer"]
                parts = list(lay.args[0]) if lay.kind == "Chain" else [lay]
                inner = list(parts[0].args[0]) if isinstance(parts[0], Rec) and parts[0].kind == "Chain" else parts
                kinds = [q.kind if isinstance(q, Rec) else type(q).__name__ for q in inner]
                # the spline acts on [-1, 1]: it must be sandwiched between an ONTO squashing map and its inverse (C04 premise)
                okk = kinds[:3] == ["LeakyTanh", "Vmap", "Invert"] and isinstance(inner[2].args[0], Rec) and inner[2].args[0].kind == "LeakyTanh"
                ctx.oblige(f"C04/{tag}/struct/spline_between_leaky_tanh_and_its_inverse#{n_}", bool(okk), [], props, kind="struct", fn=fnq, replay=dict(kind="c04", vars={}), note=f"layer parts: {kinds}")
                if okk:
                    lt1, lt2 = inner[0], inner[2].args[0]
                    sh_ok = all(isinstance(q.args[1], tuple) and len(q.args[1]) == 1 for q in (lt1, lt2))
                    ctx.oblige(f"C03/{tag}/post/squashing_layers_have_the_flow_shape#{n_}", z3.And(lift(lt1.args[1][0]) == dimv, lift(lt2.args[1][0]) == dimv) if sh_ok else z3.BoolVal(False), p.cond, props, fn=fnq, replay=rp)
                has_cond = any(isinstance(q, Rec) and q.kind == "AdditiveCondition" for q in inner)
                ctx.oblige(f"C03/{tag}/post/condition_enters_iff_conditional#{n_}", has_cond == (cd is not None), [], props, kind="struct", fn=fnq, replay=rp)
                if has_cond:
                    ac = next(q for q in inner if isinstance(q, Rec) and q.kind == "AdditiveCondition")
                    okc = len(ac.args) == 3 and isinstance(ac.args[1], tuple) and isinstance(ac.args[2], tuple) and ac.args[2][0] is cd
                    ctx.oblige(f"C03/{tag}/post/condition_layer_shapes#{n_}", lift(ac.args[1][0]) == dimv if okc else z3.BoolVal(False), p.cond, props, fn=fnq, replay=rp)
