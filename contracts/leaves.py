"""Contracts for the elementwise leaf bijections (generic-element proofs: one symbolic element
stands for the element at an arbitrary index of a tensor of arbitrary shape/rank).

For every class the four real method bodies are executed symbolically with `self` already
unwrapped (C12/C13 cover the wrapper) and compared with
  F     the documented forward function written from the docs (C07),
  rt1/2 inverse∘transform = id on Dom, transform∘inverse = id on Cod (C01),
  same  the '..._and_log_det' variants return the same point (C01),
  ld    the reported log-det is a REDUCTION (Σ) whose summand is log|d/dx| of the term extracted from the
        real transform body (symbolic differentiation), inverse log-det = −forward at the inverse image (C02),
  grad  every partial primitive of every branch is evaluated at a point where its value and derivative are
        finite, for every input with a finite log-prob (C18),
  total/onto flags used by C04.
"""
import z3

from fjvc import deriv
from fjvc.core import family
from fjvc.interp import Obj, Untranslatable, _MISSING
from fjvc.values import SV, SumT, UF, lift, to_real, R

exp, log, tanh, arctanh = UF["exp"], UF["log"], UF["tanh"], UF["arctanh"]
ALL = lambda v: z3.BoolVal(True)  # noqa: E731

LEAVES = {}  # class name -> declaration (used by the combinator / distribution contracts for the closure)


def absr(e):
    return z3.If(e >= 0, e, -e)


def method(cls, name):
    m = cls.lookup(name)
    if m is _MISSING:
        raise Untranslatable(f"{cls.qual} has no method {name}")
    return m


def summand(v, scalar_shape):
    """log-det value -> summand term of the reduction; None if the value is not a scalar reduction"""
    if isinstance(v, SumT):
        return v.t
    if isinstance(v, (int, float)) and v == 0:
        return z3.RealVal(0)
    if isinstance(v, SV) and not v.elem:
        return to_real(v.e) if scalar_shape else None
    if isinstance(v, SV) and v.elem:
        return None
    return None


def single(paths, ctx, oid, props, fnq):
    ok = len(paths) == 1 and paths[0].outcome == "return"
    if paths and all(p_.outcome == "raise" for p_ in paths) and all(not p_.cond for p_ in paths):
        # the body raises unconditionally on an input of its declared domain: the method cannot be called at all
        ctx.oblige(oid.replace("/struct/straight_line", "/post/does_not_raise_on_valid_input"), False, [], props, kind="struct", fn=fnq,
                   replay=dict(kind="simple", cls=fnq.rsplit(".", 2)[-2] if fnq.count(".") >= 2 else fnq, vars={}), note=f"raises {[getattr(p_.value, 'exc', '?') for p_ in paths][:3]} unconditionally")
        return None
    ctx.oblige(oid, ok, [], props, kind="applicability", fn=fnq, note="this contract covers a method with a single straight-line path (value-dependent branching only through jnp.where); "
               f"found {len(paths)} path(s): {[p_.outcome for p_ in paths][:6]}")
    return paths[0] if ok else None


def leaf(ctx, qual, fields, inv, F, dom=ALL, cod=ALL, scalar_shape=False, ctor=None, extra_hyps=(), props_extra=(), elem=True, rounds=2, lemma_terms=(), xcases=None, ycases=None):
    """Generate the obligations of one elementwise leaf class.  fields: dict name -> z3 term or python const."""
    it = ctx.interp
    cls = it.repo_class(qual)
    cname = qual.rsplit(".", 1)[1]
    mk = (lambda e: SV(e, elem=elem and not scalar_shape))
    fvals = {k: (mk(v) if isinstance(v, z3.ExprRef) and k not in ("max_val", "intercept", "linear_grad") else (SV(v) if isinstance(v, z3.ExprRef) else v)) for k, v in fields.items()}
    self = Obj(cls, **fvals)
    x, y = z3.Real("x"), z3.Real("y")
    X, Y = mk(x), mk(y)
    xc = xcases(x) if xcases else None
    yc = ycases(y) if ycases else None
    H = [inv] + list(extra_hyps)
    kw = dict(rounds=rounds, extra_terms=list(lemma_terms))
    P = lambda *ps: sorted(set(ps) | set(props_extra))  # noqa: E731
    rp = lambda meth, var: dict(kind="leaf", cls=cname, method=meth, vars=dict(x=x, y=y, **{k: v for k, v in fields.items() if isinstance(v, z3.ExprRef)}), input=var)  # noqa: E731

    def run(meth, arg):
        fnq = f"{qual}.{meth}"
        paths = it.explore(lambda: method(cls, meth)(self, arg, None))
        return single(paths, ctx, f"C14/{cname}.{meth}/struct/straight_line", ["C14", "C01", "C02", "C07", "C18"], fnq), fnq

    pt, q_t = run("transform", X)
    pi, q_i = run("inverse", Y)
    ptl, q_tl = run("transform_and_log_det", X)
    pil, q_il = run("inverse_and_log_det", Y)
    if pt is None or pi is None or ptl is None or pil is None:
        return
    T = to_real(lift(pt.value))  # term extracted from the real transform body
    Iv = to_real(lift(pi.value))
    # ---- C07: documented function
    ctx.oblige(f"C07/{cname}.transform/post/fwd", T == F(x), H + [dom(x)], P("C07"), fn=q_t, replay=rp("transform", "x"), **kw)
    ctx.control(f"C07/{cname}.transform/control/fwd_shifted", T == F(x) + 1, H + [dom(x)], P("C07"), fn=q_t, **kw)
    ctx.cover(f"C07/{cname}/cover/inv", H + [dom(x)], P("C07", "C01", "C02"), fn=q_t, **kw)
    # ---- C01: same point from the log-det variants
    ctx.oblige(f"C01/{cname}/same_fwd", to_real(lift(ptl.value[0])) == T, H + [dom(x)], P("C01"), fn=q_tl, replay=rp("transform_and_log_det", "x"), **kw)
    ctx.oblige(f"C01/{cname}/same_inv", to_real(lift(pil.value[0])) == Iv, H + [cod(y)], P("C01"), fn=q_il, replay=rp("inverse_and_log_det", "y"), **kw)
    # ---- C01: round trips (compose the two real bodies)
    inv_of_T = z3.substitute(Iv, (y, T))
    T_of_inv = z3.substitute(T, (x, Iv))
    kw1 = dict(rounds=rounds, extra_terms=list(lemma_terms) + [exp(inv_of_T), exp(x)])
    kw2 = dict(rounds=rounds, extra_terms=list(lemma_terms) + [exp(T_of_inv), exp(y)])
    ctx.oblige(f"C01/{cname}/rt1", z3.And(cod(T), inv_of_T == x), H + [dom(x)], P("C01"), fn=q_i, replay=rp("inverse", "x"), cases=xc, **kw1)
    ctx.oblige(f"C01/{cname}/rt2", z3.And(dom(Iv), T_of_inv == y), H + [cod(y)], P("C01"), fn=q_i, replay=rp("transform", "y"), cases=yc, **kw2)
    ctx.control(f"C01/{cname}/control/rt1_off", inv_of_T == x + 1, H + [dom(x)], P("C01"), fn=q_i, **kw)
    # ---- C02: log-dets
    s_f = summand(ptl.value[1], scalar_shape)
    s_i = summand(pil.value[1], scalar_shape)
    ctx.oblige(f"C02/{cname}/ld_scalar", s_f is not None and s_i is not None, [], P("C02", "C13"), kind="struct", fn=q_tl, note="the log-det must be a reduction over all elements (scalar whatever the shape)")
    if s_f is not None:
        dT = deriv.d(T, x)
        # exponentiated form: exp(summand) == |dT/dx| and |dT/dx| > 0  (<=> summand == log|dT/dx|, log injective on positives)
        ctx.oblige(f"C02/{cname}/ldspec_fwd", z3.And(absr(dT) > 0, exp(s_f) == absr(dT)), H + [dom(x)], P("C02"), fn=q_tl, replay=rp("transform_and_log_det", "x"), rounds=3, extra_terms=list(lemma_terms), cases=xc)
        ctx.control(f"C02/{cname}/control/ld_sign", exp(-s_f) == absr(dT) * 2, H + [dom(x)], P("C02"), fn=q_tl, **kw)
    if s_f is not None and s_i is not None:
        ctx.oblige(f"C02/{cname}/ld_inv", s_i == -z3.substitute(s_f, (x, Iv)), H + [cod(y)], P("C02"), fn=q_il, replay=rp("inverse_and_log_det", "y"), cases=yc, **kw)
    # ---- C18: gradient safety of every primitive on every branch, for every input with a finite log-prob
    for p_, q_, hyp, var in ((pt, q_t, dom(x), "x"), (ptl, q_tl, dom(x), "x"), (pi, q_i, cod(y), "y"), (pil, q_il, cod(y), "y")):
        for n, (kind, guard, cond, note, where) in enumerate(p_.side):
            strict = {"log": None, "div": None, "sqrt": None, "arctanh": None}
            if kind in strict:
                ctx.oblige(f"C18/{q_.rsplit('.', 2)[1]}.{q_.rsplit('.', 1)[1]}/gradsafe/{kind}#{n}", cond, H + [hyp] + guard, P("C18"), kind=f"gradsafe/{kind}", fn=q_,
                           replay=rp(q_.rsplit(".", 1)[1], var), note=f"{note}: the primitive is evaluated (on every where-branch) at a point where its value and derivative are finite", **kw)
    # ---- C04: total / onto
    LEAVES[cname] = dict(qual=qual, dom=dom, cod=cod, total=dom is ALL, onto=cod is ALL)


def _scale_ne0(s):
    return s != 0


# --------------------------------------------------------------------------------------
@family("leaves/Affine", ["C01", "C02", "C07", "C18", "C14", "C05", "C13"])
def affine(ctx):
    loc, scale = z3.Reals("loc scale")
    leaf(ctx, "flowjax.bijections.affine.Affine", dict(loc=loc, scale=scale, shape=("n",)), scale != 0, lambda x: scale * x + loc, props_extra=("C05",))


@family("leaves/Loc", ["C01", "C02", "C07", "C18", "C14"])
def loc_(ctx):
    loc = z3.Real("loc")
    leaf(ctx, "flowjax.bijections.affine.Loc", dict(loc=loc, shape=("n",)), z3.BoolVal(True), lambda x: x + loc)


@family("leaves/Scale", ["C01", "C02", "C07", "C18", "C14", "C05"])
def scale_(ctx):
    scale = z3.Real("scale")
    leaf(ctx, "flowjax.bijections.affine.Scale", dict(scale=scale, shape=("n",)), scale != 0, lambda x: scale * x, props_extra=("C05",))


@family("leaves/Exp", ["C01", "C02", "C07", "C18", "C14", "C05"])
def exp_(ctx):
    leaf(ctx, "flowjax.bijections.exp.Exp", dict(shape=("n",)), z3.BoolVal(True), lambda x: exp(x), cod=lambda v: v > 0, props_extra=("C05",))


@family("leaves/SoftPlus", ["C01", "C02", "C07", "C18", "C14", "C05", "C11"])
def softplus_(ctx):
    leaf(ctx, "flowjax.bijections.softplus.SoftPlus", dict(shape=("n",)), z3.BoolVal(True), lambda x: log(1 + exp(x)), cod=lambda v: v > 0, props_extra=("C05", "C11"), rounds=3)


@family("leaves/Tanh", ["C01", "C02", "C07", "C18", "C14"])
def tanh_(ctx):
    leaf(ctx, "flowjax.bijections.tanh.Tanh", dict(shape=("n",)), z3.BoolVal(True), lambda x: tanh(x), cod=lambda v: z3.And(v > -1, v < 1), rounds=3)


@family("leaves/Identity", ["C01", "C02", "C07", "C14"])
def identity_(ctx):
    leaf(ctx, "flowjax.bijections.utils.Identity", dict(shape=("n",)), z3.BoolVal(True), lambda x: x)


def tanh_log_grad_term(m):
    return -2 * (m + log(1 + exp(-2 * m)) - log(z3.RealVal(2)))


@family("leaves/_tanh_log_grad", ["C02", "C01", "C07", "C18"])
def tanh_log_grad(ctx):
    """lemma: the helper computes log(1 - tanh(x)^2) = log d/dx tanh x (exponentiated form)."""
    it = ctx.interp
    fnq = "flowjax.bijections.tanh._tanh_log_grad"
    x = z3.Real("x")
    paths = it.explore(lambda: it.repo_function(fnq)(SV(x)))
    p = single(paths, ctx, "C14/_tanh_log_grad/struct/straight_line", ["C14", "C02"], fnq)
    if p is None:
        return
    t = to_real(lift(p.value))
    ctx.oblige("C02/_tanh_log_grad/post/is_log_derivative", z3.And(exp(t) == 1 - tanh(x) * tanh(x), 1 - tanh(x) * tanh(x) > 0), [], ["C02", "C01", "C07", "C18"], fn=fnq, rounds=3,
               replay=dict(kind="tanh_log_grad", vars=dict(x=x)))
    ctx.oblige("C02/_tanh_log_grad/post/term", t == tanh_log_grad_term(x), [], ["C02", "C01", "C07", "C18"], fn=fnq)


@family("leaves/LeakyTanh", ["C01", "C02", "C07", "C18", "C14", "C04"])
def leakytanh_(ctx):
    it = ctx.interp
    qual = "flowjax.bijections.tanh.LeakyTanh"
    cls = it.repo_class(qual)
    m = z3.Real("max_val")
    # constructor: execute the real __init__ with a symbolic max_val; fields become terms in max_val
    paths = it.explore(lambda: cls(SV(m), ("n",)))
    p = single(paths, ctx, "C07/LeakyTanh.__init__/struct/straight_line", ["C07", "C01", "C02", "C18"], qual + ".__init__")
    if p is None:
        return
    o = p.value
    g_t, c_t, m_t = (to_real(lift(getattr(o, n))) for n in ("linear_grad", "intercept", "max_val"))
    g, c = z3.Reals("linear_grad intercept")
    # documented: value and gradient of the linear segments match tanh at +-max_val
    lem = [exp(tanh_log_grad_term(m)) == 1 - tanh(m) * tanh(m)]  # instance of lemma C02/_tanh_log_grad (discharged in its own family)
    props = ["C07", "C01", "C02", "C18", "C04"]
    rpi = dict(kind="leaf", cls="LeakyTanh", method="transform", input="x", vars=dict(max_val=m, x=m + 1))
    ctx.oblige("C07/LeakyTanh.__init__/post/max_val", m_t == m, [m > 0], props, fn=qual + ".__init__", replay=rpi)
    ctx.oblige("C07/LeakyTanh.__init__/post/linear_grad_is_tanh_slope", g_t == 1 - tanh(m) * tanh(m), [m > 0] + lem, props, fn=qual + ".__init__", rounds=3, cites=["C02/_tanh_log_grad/post/is_log_derivative"], replay=rpi)
    ctx.oblige("C07/LeakyTanh.__init__/post/intercept_continuous", c_t == tanh(m) - (1 - tanh(m) * tanh(m)) * m, [m > 0] + lem, props, fn=qual + ".__init__", rounds=3, replay=rpi)
    inv = z3.And(m > 0, g == 1 - tanh(m) * tanh(m), c == tanh(m) - g * m)

    def F(x):
        return z3.If(absr(x) < m, tanh(x), z3.If(x > 0, tanh(m) + g * (x - m), tanh(-m) + g * (x + m)))

    # ground terms the proofs need: tanh(m), tanh(-m)
    x_, y_ = z3.Reals("x y")
    lemmas = [exp(tanh_log_grad_term(x_)) == 1 - tanh(x_) * tanh(x_), exp(tanh_log_grad_term(arctanh(y_))) == 1 - tanh(arctanh(y_)) * tanh(arctanh(y_))]
    leaf(ctx, qual, dict(max_val=m, linear_grad=g, intercept=c, shape=("n",)), inv, F, rounds=3, lemma_terms=[tanh(m), tanh(-m), log(g)], props_extra=("C04",),
         extra_hyps=lemmas,  # instances of the lemma C02/_tanh_log_grad/post/is_log_derivative (proved for every x in its own family)
         xcases=lambda x: [("upper_tail", x >= m), ("lower_tail", x <= -m), ("tanh_region", z3.And(x > -m, x < m))],
         ycases=lambda y: [("upper_tail", y >= tanh(m)), ("lower_tail", y <= -tanh(m)), ("tanh_region", z3.And(y > -tanh(m), y < tanh(m)))])
