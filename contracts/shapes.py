"""Shape algebra of the combinators for EVERY rank and EVERY valid axis, negative ones included (C08, C13).

Shapes are z3 sequences of integers of unknown length; the real constructors / properties are executed on them and the
declared shape is compared with the shape jnp.concatenate / jnp.stack / vmap produce (spec written from their docs).
"""
import z3

from fjvc.core import family
from fjvc.interp import Obj, obj_fields, PyRaise
from fjvc.values import SV, SymTuple, IntSeq, lift, I

from .abstract import AbsBij, BIJ
from .leaves import method

Seq = lambda name: z3.Const(name, IntSeq)  # noqa: E731


def norm_axis(a, r):
    return z3.If(a < 0, a + r, a)


def sub(s, lo_, hi_):
    return z3.SubSeq(s, lo_, hi_ - lo_)


def by_outcome(paths):
    return [p for p in paths if p.outcome == "return"], [p for p in paths if p.outcome == "raise"]


# --------------------------------------------------------------------------------------
@family("shapes/Concatenate.__init__", ["C08", "C13"])
def concatenate_init(ctx):
    it = ctx.interp
    q = "flowjax.bijections.concatenate.Concatenate"
    cls = it.repo_class(q)
    s0, s1 = Seq("s0"), Seq("s1")
    a = z3.Int("axis")
    r = z3.Length(s0)
    props = ["C08", "C13"]
    kids = [AbsBij(z3.Const("b0", BIJ), shape=SymTuple(s0)), AbsBij(z3.Const("b1", BIJ), shape=SymTuple(s1))]
    paths = it.explore(lambda: cls(kids, SV(a)))
    ok, bad = by_outcome(paths)
    valid_axis = z3.And(a >= -r, a < r, r >= 1)
    ap = norm_axis(a, r)
    compatible = z3.And(z3.Length(s1) == r, sub(s0, 0, ap) == sub(s1, 0, ap), sub(s0, ap + 1, r) == sub(s1, ap + 1, r))
    spec = z3.Concat(sub(s0, 0, ap), z3.Unit(s0[ap] + s1[ap]), sub(s0, ap + 1, r))  # jnp.concatenate: sizes add up along the axis
    rp = dict(kind="shapes", cls="Concatenate", vars=dict(axis=a, s0=s0, s1=s1))
    pos = [z3.And(*[s[z3.Int("j!b")] >= 0 for s in ()])]
    for i, p in enumerate(ok):
        o = p.value
        ctx.oblige(f"C08/Concatenate.__init__/post/shape#{i}", SymTuple.of(o.shape).s == spec, p.cond + [valid_axis], props, fn=q + ".__init__", replay=rp)
        ctx.oblige(f"C13/Concatenate.__init__/post/accepted_only_if_compatible#{i}", compatible, p.cond + [valid_axis], props, fn=q + ".__init__", replay=rp)
        ctx.oblige(f"C08/Concatenate.__init__/post/split_idxs#{i}", lift(o.split_idxs[0]) == s0[ap], p.cond + [valid_axis], props, fn=q + ".__init__", replay=rp)
    for i, p in enumerate(bad):
        # raises only for an invalid axis (IndexError) or incompatible shapes (ValueError)
        ctx.oblige(f"C13/Concatenate.__init__/post/raises_only_if#{i}", z3.Or(z3.Not(valid_axis), z3.Not(compatible)), p.cond, props, fn=q + ".__init__", replay=rp, note=f"raises {p.value.exc}")
    ctx.oblige("C08/Concatenate.__init__/struct/has_success_path", len(ok) >= 1, [], props, kind="struct", fn=q + ".__init__")
    if ok:
        ctx.cover("C08/Concatenate.__init__/cover/negative_axis", ok[0].cond + [valid_axis, a < 0, r >= 2], props, fn=q + ".__init__")
        ctx.control("C08/Concatenate.__init__/control/wrong_axis", SymTuple.of(ok[0].value.shape).s == z3.Concat(z3.Unit(s0[0] + s1[0]), sub(s0, 1, r)), ok[0].cond + [valid_axis, r >= 2], props, fn=q + ".__init__")


@family("shapes/Concatenate.__init__[k=3]", ["C08", "C13"])
def concatenate_init3(ctx):
    """three children: the split points handed to jnp.array_split are the CUMULATIVE sizes along the axis (T3: array_split(x, idxs)
    cuts before each index), the declared size along the axis is the sum of the three"""
    it = ctx.interp
    q = "flowjax.bijections.concatenate.Concatenate"
    cls = it.repo_class(q)
    s0, s1, s2 = Seq("s0"), Seq("s1"), Seq("s2")
    a = z3.Int("axis")
    r = z3.Length(s0)
    props = ["C08", "C13"]
    kids = [AbsBij(z3.Const(f"b{i}", BIJ), shape=SymTuple(s)) for i, s in enumerate((s0, s1, s2))]
    paths = it.explore(lambda: cls(kids, SV(a)))
    ok, bad = by_outcome(paths)
    valid_axis = z3.And(a >= -r, a < r, r >= 1)
    ap = norm_axis(a, r)
    compat = lambda s: z3.And(z3.Length(s) == r, sub(s0, 0, ap) == sub(s, 0, ap), sub(s0, ap + 1, r) == sub(s, ap + 1, r))  # noqa: E731
    compatible = z3.And(compat(s1), compat(s2))
    spec = z3.Concat(sub(s0, 0, ap), z3.Unit(s0[ap] + s1[ap] + s2[ap]), sub(s0, ap + 1, r))
    rp = dict(kind="shapes", cls="Concatenate", vars=dict(axis=a, s0=s0, s1=s1))
    ctx.oblige("C08/Concatenate.__init__[k=3]/struct/has_success_path", len(ok) >= 1, [], props, kind="struct", fn=q + ".__init__")
    for i, p in enumerate(ok):
        o = p.value
        ctx.oblige(f"C08/Concatenate.__init__[k=3]/post/shape#{i}", SymTuple.of(o.shape).s == spec, p.cond + [valid_axis], props, fn=q + ".__init__", replay=rp)
        ctx.oblige(f"C13/Concatenate.__init__[k=3]/post/accepted_only_if_compatible#{i}", compatible, p.cond + [valid_axis], props, fn=q + ".__init__", replay=rp)
        sp = list(o.split_idxs) if isinstance(o.split_idxs, (tuple, list)) else None
        ctx.oblige(f"C08/Concatenate.__init__[k=3]/struct/two_split_points#{i}", sp is not None and len(sp) == 2, [], props, kind="applicability", fn=q + ".__init__")
        if sp is not None and len(sp) == 2:
            ctx.oblige(f"C08/Concatenate.__init__[k=3]/post/split_points_are_cumulative_sizes#{i}", z3.And(lift(sp[0]) == s0[ap], lift(sp[1]) == s0[ap] + s1[ap]), p.cond + [valid_axis], props, fn=q + ".__init__", replay=rp,
                       note="child j then receives exactly its own size[axis] entries")
    for i, p in enumerate(bad):
        ctx.oblige(f"C13/Concatenate.__init__[k=3]/post/raises_only_if#{i}", z3.Or(z3.Not(valid_axis), z3.Not(compatible)), p.cond, props, fn=q + ".__init__", replay=rp, note=f"raises {p.value.exc}")


@family("shapes/Stack.__init__", ["C08", "C13"])
def stack_init(ctx):
    it = ctx.interp
    q = "flowjax.bijections.concatenate.Stack"
    cls = it.repo_class(q)
    s0, s1 = Seq("s0"), Seq("s1")
    a = z3.Int("axis")
    r = z3.Length(s0)
    props = ["C08", "C13"]
    kids = [AbsBij(z3.Const("b0", BIJ), shape=SymTuple(s0)), AbsBij(z3.Const("b1", BIJ), shape=SymTuple(s1))]
    paths = it.explore(lambda: cls(kids, SV(a)))
    ok, bad = by_outcome(paths)
    valid_axis = z3.And(a >= -(r + 1), a < r + 1)  # jnp.stack: the new axis index refers to the RESULT (rank r+1)
    ap = norm_axis(a, r + 1)
    spec = z3.Concat(sub(s0, 0, ap), z3.Unit(z3.IntVal(2)), sub(s0, ap, r))
    rp = dict(kind="shapes", cls="Stack", vars=dict(axis=a, s0=s0, s1=s1))
    for i, p in enumerate(ok):
        o = p.value
        ctx.oblige(f"C08/Stack.__init__/post/shape#{i}", SymTuple.of(o.shape).s == spec, p.cond + [valid_axis], props, fn=q + ".__init__", replay=rp)
        ctx.oblige(f"C13/Stack.__init__/post/accepted_only_if_same_shapes#{i}", s0 == s1, p.cond, props, fn=q + ".__init__", replay=rp)
    for i, p in enumerate(bad):
        ctx.oblige(f"C13/Stack.__init__/post/raises_only_if#{i}", z3.And(s0 != s1, z3.BoolVal(p.value.exc == "ValueError")), p.cond + [valid_axis], props, fn=q + ".__init__", replay=rp)
    ctx.oblige("C08/Stack.__init__/struct/has_success_path", len(ok) >= 1, [], props, kind="struct", fn=q + ".__init__")
    if ok:
        ctx.cover("C08/Stack.__init__/cover/negative_axis", ok[0].cond + [valid_axis, a < 0, r >= 1], props, fn=q + ".__init__")
        ctx.control("C08/Stack.__init__/control/append_last", SymTuple.of(ok[0].value.shape).s == z3.Concat(s0, z3.Unit(z3.IntVal(2))), ok[0].cond + [valid_axis, r >= 1], props, fn=q + ".__init__")


@family("shapes/Vmap", ["C08", "C13"])
def vmap_shapes(ctx):
    it = ctx.interp
    q = "flowjax.bijections.jax_transforms.Vmap"
    cls = it.repo_class(q)
    s, cs = Seq("inner_shape"), Seq("inner_cond_shape")
    ax, size = z3.Int("in_axes_condition"), z3.Int("axis_size")
    rc = z3.Length(cs)
    props = ["C08", "C13"]
    inner = AbsBij(z3.Const("b", BIJ), shape=SymTuple(s), cond_shape=SymTuple(cs))
    self = Obj(cls, bijection=inner, axis_size=SV(size), in_axes=(None, 0, SV(ax)))
    rp = dict(kind="shapes", cls="Vmap", vars=dict(in_axes_condition=ax, axis_size=size, inner_shape=s, inner_cond_shape=cs))
    paths = it.explore(lambda: method(cls, "get_cond_shape")(self, SV(ax)))
    valid = z3.And(ax >= -(rc + 1), ax < rc + 1)  # axis of the batched condition (rank rc+1) that is mapped over
    ap = norm_axis(ax, rc + 1)
    spec = z3.Concat(sub(cs, 0, ap), z3.Unit(size), sub(cs, ap, rc))
    for i, p in enumerate(p for p in paths if p.outcome == "return"):
        v = p.value
        got = SymTuple.of(v if isinstance(v, (SymTuple, tuple)) else tuple(v)).s
        ctx.oblige(f"C08/Vmap.get_cond_shape/post/cond_shape#{i}", got == spec, p.cond + [valid], props, fn=q + ".get_cond_shape", replay=rp)
    ctx.oblige("C08/Vmap.get_cond_shape/struct/returns", any(p.outcome == "return" for p in paths), [], props, kind="struct", fn=q + ".get_cond_shape")
    # mapped axis None or unconditional child: the child's cond_shape is declared unchanged
    for nm, slf, arg in (("no_mapped_axis", self, None), ("unconditional_child", Obj(cls, bijection=AbsBij(z3.Const("b", BIJ), shape=SymTuple(s), cond_shape=None), axis_size=SV(size), in_axes=(None, 0, None)), SV(ax))):
        ps = it.explore(lambda slf=slf, arg=arg: method(cls, "get_cond_shape")(slf, arg))
        ok = len(ps) == 1 and ps[0].outcome == "return" and ps[0].value is obj_or_attr(slf, "bijection").cond_shape
        ctx.oblige(f"C08/Vmap.get_cond_shape/post/{nm}", ok, [], props, kind="struct", fn=q + ".get_cond_shape")
    # shape property: (axis_size, *inner)
    ps = it.explore(lambda: self.shape)
    for i, p in enumerate(p for p in ps if p.outcome == "return"):
        v = p.value
        got = v.s if isinstance(v, SymTuple) else None
        if got is None:
            try:
                got = SymTuple.of(v).s
            except Exception:
                got = None
        ctx.oblige(f"C08/Vmap.shape/post/leading_axis#{i}", (got == z3.Concat(z3.Unit(size), s)) if got is not None else False, p.cond, props, fn=q + ".shape", replay=rp)


def obj_or_attr(o, name):
    return obj_fields(o)[name]


@family("shapes/Reshape", ["C08", "C13"])
def reshape_init(ctx):
    """Reshape only re-presents: declared shape/cond_shape are the requested ones (rank 0 included), defaults are the child's;
    __check_init__ raises iff the element count changes or an unconditional child gets a cond_shape."""
    it = ctx.interp
    q = "flowjax.bijections.utils.Reshape"
    cls = it.repo_class(q)
    props = ["C08", "C13"]
    n0, n1, m0, c0, d0 = z3.Ints("n0 n1 m0 c0 d0")
    pos = [n0 >= 1, n1 >= 1, m0 >= 1, c0 >= 1, d0 >= 1]
    inner_shapes = {"rank1": (SV(n0),), "rank2": (SV(n0), SV(n1))}
    targets = {"rank0": (), "rank1": (SV(m0),), "none": None}
    for iname, ish in inner_shapes.items():
        for tname, tsh in targets.items():
            for cname, (icond, tcond) in {"uncond": (None, None), "cond_default": ((SV(c0),), None), "cond_rank0": ((SV(c0),), ()), "cond_rank1": ((SV(c0),), (SV(d0),)), "cond_on_uncond": (None, (SV(d0),))}.items():
                inner = AbsBij(z3.Const("b", BIJ), shape=ish, cond_shape=icond)
                paths = it.explore(lambda inner=inner, tsh=tsh, tcond=tcond: cls(inner, tsh, tcond))
                ok, bad = by_outcome(paths)
                tag = f"{iname}->{tname},{cname}"
                prod_in = lift(ish[0]) if len(ish) == 1 else lift(ish[0]) * lift(ish[1])
                prod_t = z3.IntVal(1) if tsh == () else (lift(tsh[0]) if tsh else prod_in)
                same_count = prod_in == prod_t
                if icond is not None and tcond is not None:
                    pc_t = z3.IntVal(1) if tcond == () else lift(tcond[0])
                    same_count = z3.And(same_count, lift(icond[0]) == pc_t)
                illegal = icond is None and tcond is not None
                rp = dict(kind="shapes", cls="Reshape", case=tag, vars=dict(n0=n0, n1=n1, m0=m0, c0=c0, d0=d0))
                for i, p in enumerate(ok):
                    o = p.value
                    want_shape = tsh if tsh is not None else ish
                    want_cond = tcond if tcond is not None else icond
                    got_ok = _tuple_eq(o.shape, want_shape)
                    got_c = _tuple_eq(o.cond_shape, want_cond)
                    ctx.oblige(f"C08/Reshape.__init__[{tag}]/post/declared_shape#{i}", got_ok, p.cond + pos, props, fn=q + ".__init__", replay=rp)
                    ctx.oblige(f"C08/Reshape.__init__[{tag}]/post/declared_cond_shape#{i}", got_c, p.cond + pos, props, fn=q + ".__init__", replay=rp)
                    ctx.oblige(f"C13/Reshape.__check_init__[{tag}]/post/accepted_only_if_same_count#{i}", z3.And(same_count, z3.BoolVal(not illegal)), p.cond + pos, props, fn=q + ".__check_init__", replay=rp)
                for i, p in enumerate(bad):
                    ctx.oblige(f"C13/Reshape.__check_init__[{tag}]/post/raises_only_if#{i}", z3.And(z3.Or(z3.Not(same_count), z3.BoolVal(illegal)), z3.BoolVal(p.value.exc == "ValueError")), p.cond + pos, props, fn=q + ".__check_init__", replay=rp)


def _tuple_eq(got, want):
    """python-tuple equality as a z3 formula (False if kinds / lengths differ)"""
    if want is None or got is None:
        return z3.BoolVal(got is None and want is None)
    try:
        got, want = tuple(got), tuple(want)
    except TypeError:
        return z3.BoolVal(False)
    if len(got) != len(want):
        return z3.BoolVal(False)
    return z3.And(*[lift(g) == lift(w) for g, w in zip(got, want)]) if got else z3.BoolVal(True)


# --------------------------------------------------------------------------------------
@family("shapes/Chain", ["C08", "C13", "C03"])
def chain_ctor(ctx):
    """Chain.__init__ (real utils.check_shapes_match / merge_cond_shapes) for 2 and 3 children with shapes and condition shapes of
    any rank: accepted iff all shapes agree and the condition shapes of the conditional children agree; declared shape / cond_shape;
    indexing; merge_chains flattens nested chains in order (function preserved by the fold contract in combinators/Chain)."""
    props = ["C08", "C13", "C03"]
    q = "flowjax.bijections.chain.Chain"
    for k in (2, 3):
        shapes = [Seq(f"s{i}") for i in range(k)]
        for cpat in sorted({tuple(bool((m >> i) & 1) for i in range(k)) for m in range(2 ** k)}):
            it = ctx.new_interp()
            it.global_overrides["flowjax.bijections.chain"] = {"unwrap": lambda t: t}
            cls = it.repo_class(q)
            conds = [Seq(f"c{i}") if cpat[i] else None for i in range(k)]
            kids = [AbsBij(z3.Const(f"b{i}", BIJ), shape=SymTuple(shapes[i]), cond_shape=(SymTuple(conds[i]) if conds[i] is not None else None)) for i in range(k)]
            tag = f"k={k},cond={''.join('c' if c else 'u' for c in cpat)}"
            paths = it.explore(lambda: cls(list(kids)))
            ok, bad = by_outcome(paths)
            same_shape = z3.And(*[shapes[i] == shapes[0] for i in range(1, k)])
            cs = [c for c in conds if c is not None]
            same_cond = z3.And(*[c == cs[0] for c in cs[1:]]) if len(cs) > 1 else z3.BoolVal(True)
            rp = dict(kind="shapes", cls="Chain", vars={})
            ctx.oblige(f"C08/Chain.__init__[{tag}]/struct/has_success_path", len(ok) >= 1, [], props, kind="struct", fn=q + ".__init__")
            for i, p in enumerate(ok):
                o = p.value
                ctx.oblige(f"C13/Chain.__init__[{tag}]/post/accepted_only_if_compatible#{i}", z3.And(same_shape, same_cond), p.cond, props, fn=q + ".__init__", replay=rp)
                ctx.oblige(f"C08/Chain.__init__[{tag}]/post/shape#{i}", SymTuple.of(o.shape).s == shapes[0], p.cond, props, fn=q + ".__init__", replay=rp)
                if cs:
                    ctx.oblige(f"C08/Chain.__init__[{tag}]/post/cond_shape#{i}", z3.BoolVal(o.cond_shape is not None) if o.cond_shape is None else SymTuple.of(o.cond_shape).s == cs[0], p.cond, props, fn=q + ".__init__", replay=rp,
                               note="conditional iff a child is conditional (also for scalar conditions)")
                else:
                    ctx.oblige(f"C08/Chain.__init__[{tag}]/post/unconditional#{i}", o.cond_shape is None, [], props, kind="struct", fn=q + ".__init__", replay=rp)
                okb = isinstance(o.bijections, tuple) and len(o.bijections) == k and all(a is b_ for a, b_ in zip(o.bijections, kids))
                ctx.oblige(f"C08/Chain.__init__[{tag}]/post/children_kept_in_order#{i}", bool(okb), [], props, kind="struct", fn=q + ".__init__", replay=rp)
            for i, p in enumerate(bad):
                ctx.oblige(f"C13/Chain.__init__[{tag}]/post/raises_only_if_incompatible#{i}", z3.Not(z3.And(same_shape, same_cond)), p.cond, props, fn=q + ".__init__", replay=rp, note=f"raises {p.value.exc}")
    # ---- indexing and merge_chains on built chains (children abstract, shapes equal)
    it = ctx.new_interp()
    it.global_overrides["flowjax.bijections.chain"] = {"unwrap": lambda t: t}
    cls = it.repo_class(q)
    s = SymTuple(Seq("s"))
    mk = lambda name: AbsBij(z3.Const(name, BIJ), shape=s, cond_shape=None)  # noqa: E731
    a, b, c, d, e = (mk(n_) for n_ in "abcde")

    def build(parts):
        ps = [p for p in it.explore(lambda: cls(list(parts))) if p.outcome == "return"]
        return ps[0].value if len(ps) == 1 else None

    inner1, inner2 = build([b, c]), None
    if inner1 is not None:
        inner2 = build([inner1, d])
    outer = build([a, inner2, e]) if inner2 is not None else None
    ctx.oblige("C08/Chain.merge_chains/struct/nested_chain_built", outer is not None, [], props, kind="applicability", fn=q + ".merge_chains")
    if outer is not None:
        pm = [p for p in it.explore(lambda: cls.lookup("merge_chains")(outer)) if p.outcome == "return"]
        okm = len(pm) == 1 and len(pm[0].value.bijections) == 5 and all(x is y for x, y in zip(pm[0].value.bijections, (a, b, c, d, e)))
        ctx.oblige("C08/Chain.merge_chains/post/flattens_nested_chains_in_order", bool(okm), [], props, kind="struct", fn=q + ".merge_chains", replay=dict(kind="combinators", vars={}),
                   note="[a, [[b, c], d], e] -> [a, b, c, d, e]: the same left-to-right fold (combinators/Chain), hence the same function and log-det")
        flat = build([a, b, c])
        if flat is not None:
            pg = it.explore(lambda: cls.lookup("__getitem__")(flat, 1))
            ctx.oblige("C08/Chain.__getitem__/post/integer_index_is_the_child", len(pg) == 1 and pg[0].outcome == "return" and pg[0].value is b, [], props, kind="struct", fn=q + ".__getitem__")
            pg = it.explore(lambda: cls.lookup("__getitem__")(flat, slice(1, None)))
            oks = len(pg) == 1 and pg[0].outcome == "return" and isinstance(pg[0].value, Obj) and tuple(pg[0].value.bijections) == (b, c)
            ctx.oblige("C08/Chain.__getitem__/post/slice_is_the_chain_of_the_slice", bool(oks), [], props, kind="struct", fn=q + ".__getitem__")
            # sequence protocol of a chain: len and iteration enumerate exactly the children, in order (what users loop over / count layers with)
            pl = it.explore(lambda: cls.lookup("__len__")(flat))
            okl = len(pl) == 1 and pl[0].outcome == "return" and isinstance(pl[0].value, int) and not isinstance(pl[0].value, bool) and pl[0].value == 3
            ctx.oblige("C08/Chain.__len__/post/number_of_children", bool(okl), [], props, kind="struct", fn=q + ".__len__")
            pi = it.explore(lambda: list(cls.lookup("__iter__")(flat)))
            oki = len(pi) == 1 and pi[0].outcome == "return" and len(pi[0].value) == 3 and all(x is y for x, y in zip(pi[0].value, (a, b, c)))
            ctx.oblige("C08/Chain.__iter__/post/yields_the_children_in_order", bool(oki), [], props, kind="struct", fn=q + ".__iter__")


@family("shapes/Partial.__check_init__", ["C13", "C08"])
def partial_check(ctx):
    """Partial rejects a child whose shape is not the shape of x[idxs] (numpy's indexing result shape, T3: uninterpreted)"""
    it = ctx.interp
    props = ["C13", "C08"]
    q = "flowjax.bijections.utils.Partial"
    cls = it.repo_class(q)
    sub, child = Seq("shape_of_x_at_idxs"), Seq("child_shape")

    class Zeros:
        def __init__(self, shape):
            self.shape_arg = shape

        def __getitem__(self, idx):
            class R:
                shape = SymTuple(sub)
            self.idx = idx
            return R()

    made = []
    it.lib.overrides["jax.numpy.zeros"] = lambda shape, **k: made.append(Zeros(shape)) or made[-1]
    # T3 numpy: np.add.at(counts, idxs, 1) raises IndexError iff the index does not fit the shape (jax would clamp it silently);
    # afterwards counts.max() is the largest number of times one element is selected
    FITS, MAXC = z3.Bool("index_fits_the_shape"), z3.Int("max_times_an_element_is_indexed")

    class Counts:
        def __init__(self, shape):
            self.shape_arg = shape

        def max(self, *a, **k):
            return SV(MAXC)

    def add_at(arr, idx, v):
        if not (isinstance(arr, Counts) and idx == "idxs"):
            raise Untranslatable("np.add.at on something other than the index counter")
        if not it.truth(SV(FITS)):
            raise PyRaise("IndexError", "index out of bounds")

    from fjvc.interp import Untranslatable
    it.lib.overrides["numpy.zeros"] = lambda shape, *a, **k: Counts(shape)
    it.lib.overrides["numpy.add.at"] = add_at
    shp = SymTuple(Seq("shape"))
    o = Obj(cls, bijection=AbsBij(z3.Const("b", BIJ), shape=SymTuple(child)), idxs="idxs", shape=shp)
    paths = it.explore(lambda: cls.lookup("__check_init__")(o))
    ok, bad = by_outcome(paths)
    ctx.oblige("C13/Partial.__check_init__/struct/both_outcomes", len(ok) >= 1 and len(bad) >= 1, [], props, kind="applicability", fn=q + ".__check_init__")
    if not (len(made) >= 1 and all(z.shape_arg is shp and getattr(z, "idx", None) == "idxs" for z in made)):
        from fjvc.interp import Untranslatable
        raise Untranslatable("Partial.__check_init__ computes the indexed shape in a way the contract does not model")
    for i, p in enumerate(ok):
        ctx.oblige(f"C13/Partial.__check_init__/post/accepted_only_if_child_shape_is_the_indexed_shape#{i}", child == sub, p.cond, props, fn=q + ".__check_init__", replay=dict(kind="shapes", cls="Partial", vars={}))
        ctx.oblige(f"C13/Partial.__check_init__/post/accepted_only_if_the_index_set_fits#{i}", z3.And(FITS, MAXC <= 1), p.cond, props, fn=q + ".__check_init__", replay=dict(kind="shapes", cls="Partial", vars={}),
                   note="every index in range and no element selected twice (jax indexing would clamp / merge silently)")
    for i, p in enumerate(bad):
        ctx.oblige(f"C13/Partial.__check_init__/post/raises_only_on_mismatch#{i}", z3.And(z3.Or(child != sub, z3.Not(FITS), MAXC > 1), z3.BoolVal(p.value.exc in ("ValueError", "IndexError"))), p.cond, props, fn=q + ".__check_init__", replay=dict(kind="shapes", cls="Partial", vars={}))


@family("shapes/Partial.__check_init__[integer_index]", ["C13", "C08", "C02"])
def partial_check_integer_index(ctx):
    """`an index set that does not fit Partial` is rejected: an integer index into a rank-1 shape (n,) is accepted only if it is in
    range (-n <= i < n).  T3 as MEASURED: jnp.zeros((n,))[i] never raises (jax clamps out-of-range indices) and has shape ();
    numpy indexing (np.zeros / np.add.at / x[i]) raises IndexError for an out-of-range index."""
    it = ctx.interp
    props = ["C13", "C08", "C02"]
    q = "flowjax.bijections.utils.Partial"
    cls = it.repo_class(q)
    n, i = z3.Ints("n i")
    inb = z3.And(i >= -n, i < n)

    class JaxZeros:  # jnp.zeros(shape)
        def __init__(self, shape):
            self.shape = shape

        def __getitem__(self, idx):
            class Rz:
                shape = ()
            return Rz()

    class NpArray:  # np.zeros(shape, dtype): numpy semantics
        def __init__(self, shape):
            self.shape, self.hits = shape, 0

        def _check(self, idx):
            if not it.truth(SV(z3.And(lift(idx) >= -n, lift(idx) < n))):
                raise PyRaise("IndexError", "index out of bounds")

        def __getitem__(self, idx):
            self._check(idx)
            return NpArray(())

        def max(self, *a, **k):
            return SV(z3.IntVal(self.hits))

        def sum(self, *a, **k):
            return SV(z3.IntVal(self.hits))

    def add_at(arr, idx, v):
        arr._check(idx)
        arr.hits += 1

    lib = it.lib.overrides
    lib["jax.numpy.zeros"] = lambda shape, *a, **k: JaxZeros(shape)
    lib["numpy.zeros"] = lambda shape, *a, **k: NpArray(shape)
    lib["numpy.add.at"] = add_at
    o = Obj(cls, bijection=AbsBij(z3.Const("b", BIJ), shape=()), idxs=SV(i), shape=(SV(n),))
    paths = it.explore(lambda: cls.lookup("__check_init__")(o))
    ok, bad = by_outcome(paths)
    fq = q + ".__check_init__"
    rp = dict(kind="shapes", cls="Partial", vars=dict(n=n, i=i))
    ctx.oblige("C13/Partial.__check_init__[integer_index]/struct/has_success_path", len(ok) >= 1, [], props, kind="struct", fn=fq)
    for k_, p in enumerate(ok):
        ctx.oblige(f"C13/Partial.__check_init__[integer_index]/post/accepted_only_if_the_index_is_in_range#{k_}", inb, p.cond + [n >= 1], props, fn=fq, replay=rp)
    for k_, p in enumerate(bad):
        ctx.oblige(f"C13/Partial.__check_init__[integer_index]/post/raises_only_if_out_of_range#{k_}", z3.Not(inb), p.cond + [n >= 1], props, fn=fq, replay=rp)


@family("shapes/declared_shapes_of_wrappers", ["C08", "C13"])
def declared_shapes(ctx):
    """the declared shape / cond_shape of the thin wrappers are the child's (or the stated raw condition shape)"""
    it = ctx.interp
    props = ["C08", "C13"]
    s, c, raw = SymTuple(Seq("child_shape")), SymTuple(Seq("child_cond_shape")), SymTuple(Seq("raw_cond_shape"))
    for cond_name, cs in (("conditional", c), ("unconditional", None)):
        child = AbsBij(z3.Const("b", BIJ), shape=s, cond_shape=cs)
        for qual, fields, want_shape, want_cond in (
            ("flowjax.bijections.utils.Invert", dict(bijection=child), s, cs),
            ("flowjax.bijections.jax_transforms.Scan", dict(bijection=child), s, cs),
        ):
            cls = it.repo_class(qual)
            o = Obj(cls, **fields)
            name = qual.rsplit(".", 1)[1]
            for attr, want in (("shape", want_shape), ("cond_shape", want_cond)):
                ps = it.explore(lambda o=o, attr=attr: getattr(o, attr))
                ok = len(ps) == 1 and ps[0].outcome == "return" and ps[0].value is want
                ctx.oblige(f"C08/{name}.{attr}[{cond_name}]/post/is_the_childs", bool(ok), [], props, kind="struct", fn=f"{qual}.{attr}", replay=dict(kind="shapes", cls=name, vars={}))
        pcls = it.repo_class("flowjax.bijections.utils.Partial")
        o = Obj(pcls, bijection=child, idxs="idxs", shape=SymTuple(Seq("outer_shape")))
        ps = it.explore(lambda: o.cond_shape)
        ctx.oblige(f"C08/Partial.cond_shape[{cond_name}]/post/is_the_childs", len(ps) == 1 and ps[0].outcome == "return" and ps[0].value is cs, [], props, kind="struct", fn="flowjax.bijections.utils.Partial.cond_shape")
        ecls = it.repo_class("flowjax.bijections.utils.EmbedCondition")
        ps = [p for p in it.explore(lambda: ecls(child, "embedding_net", raw)) if p.outcome == "return"]
        ok = len(ps) == 1
        ctx.oblige(f"C08/EmbedCondition.__init__[{cond_name}]/struct/constructs", ok, [], props, kind="applicability", fn="flowjax.bijections.utils.EmbedCondition.__init__")
        if ok:
            e = ps[0].value
            pe = it.explore(lambda: e.shape)
            ctx.oblige(f"C08/EmbedCondition[{cond_name}]/post/shape_is_the_childs_and_cond_shape_is_the_raw_one", len(pe) == 1 and pe[0].value is s and e.cond_shape is raw and e.bijection is child and e.embedding_net == "embedding_net", [], props, kind="struct",
                       fn="flowjax.bijections.utils.EmbedCondition.__init__")
    # Loc / AdditiveCondition constructors declare the shapes they are given
    it.global_overrides["flowjax.bijections.affine"] = {"arraylike_to_array": lambda a, *r, **k: a}
    lcls = it.repo_class("flowjax.bijections.affine.Loc")

    class Arr:
        shape = SymTuple(Seq("loc_shape"))

    arr = Arr()
    ps = [p for p in it.explore(lambda: lcls(arr)) if p.outcome == "return"]
    ctx.oblige("C08/Loc.__init__/post/shape_of_loc", len(ps) == 1 and ps[0].value.shape is Arr.shape and ps[0].value.loc is arr, [], props, kind="struct", fn="flowjax.bijections.affine.Loc.__init__")
    acls = it.repo_class("flowjax.bijections.affine.AdditiveCondition")
    sh, cs_ = SymTuple(Seq("shape")), SymTuple(Seq("cond_shape"))
    ps = [p for p in it.explore(lambda: acls("module", sh, cs_)) if p.outcome == "return"]
    ctx.oblige("C08/AdditiveCondition.__init__/post/declares_the_given_shapes", len(ps) == 1 and ps[0].value.shape is sh and ps[0].value.cond_shape is cs_ and ps[0].value.module == "module", [], props, kind="struct",
               fn="flowjax.bijections.affine.AdditiveCondition.__init__")


@family("shapes/constructors_store_children_as_given", ["C12", "C08", "C13"])
def constructors_store_children(ctx):
    """no combinator constructor stores an unwrapped copy of a child: the object kept in the field is the very object passed in
    (its NonTrainable / reparameterisation wrappers stay in the tree, so frozen leaves stay frozen and constraints stay applied)"""
    props = ["C12", "C08", "C13"]
    sh = SymTuple(Seq("s"))
    unwrapped_marker = []

    def mk_it():
        it = ctx.new_interp()

        def fake_unwrap(t):
            # the real unwrap returns a NEW tree; modelled by a distinct stand-in so that storing it is visible
            u = AbsBij(z3.Const("unwrapped_copy", BIJ), shape=getattr(t, "shape", sh), cond_shape=getattr(t, "cond_shape", None)) if isinstance(t, AbsBij) else ([fake_unwrap(x) for x in t] if isinstance(t, (list, tuple)) else t)
            unwrapped_marker.append(u)
            return u

        return it, fake_unwrap

    # ---- Vmap: both ways of giving the axis size
    q = "flowjax.bijections.jax_transforms"
    for tag, kw in (("axis_size", dict(axis_size=SV(z3.Int("axis_size")))), ("in_axes", dict(in_axes="in_axes_spec")), ("both", dict(axis_size=SV(z3.Int("axis_size")), in_axes="in_axes_spec")), ("neither", dict())):
        it, fake_unwrap = mk_it()

        class W:
            unwrap = staticmethod(fake_unwrap)

        it.global_overrides[q] = {"wrappers": W, "_check_no_unwrappables": lambda spec: None, "_infer_axis_size_from_params": lambda tree, in_axes: SV(z3.Int("inferred_axis_size"))}
        cls = it.repo_class(f"{q}.Vmap")
        child = AbsBij(z3.Const("child", BIJ), shape=sh, cond_shape=None)
        paths = it.explore(lambda: cls(child, **kw))
        okp = [p for p in paths if p.outcome == "return"]
        fq = f"{q}.Vmap.__init__"
        if tag in ("both", "neither"):
            ctx.oblige(f"C13/Vmap.__init__[{tag}]/post/rejected", len(okp) == 0 and all(p.value.exc == "ValueError" for p in paths), [], props, kind="struct", fn=fq, replay=dict(kind="shapes", cls="Vmap", vars={}))
            continue
        ctx.oblige(f"C12/Vmap.__init__[{tag}]/struct/constructs", len(okp) == 1, [], props, kind="applicability", fn=fq)
        if len(okp) == 1:
            o = okp[0].value
            ctx.oblige(f"C12/Vmap.__init__[{tag}]/post/stores_the_child_it_was_given", o.bijection is child, [], props, kind="struct", fn=fq, replay=dict(kind="c12", vars={}),
                       note="an unwrapped copy would drop NonTrainable / reparameterisation wrappers of the child")
            if tag == "in_axes":
                ctx.oblige("C08/Vmap.__init__[in_axes]/post/axis_size_inferred_from_the_mapped_parameters", isinstance(o.axis_size, SV) and o.axis_size.e.eq(z3.Int("inferred_axis_size")), [], props, kind="struct", fn=fq)
    # ---- Concatenate / Stack / Reshape
    cq = "flowjax.bijections.concatenate"
    for cname in ("Concatenate", "Stack"):
        it, fake_unwrap = mk_it()
        cls = it.repo_class(f"{cq}.{cname}")
        kids = [AbsBij(z3.Const(f"k{i}", BIJ), shape=sh, cond_shape=None) for i in range(2)]
        paths = [p for p in it.explore(lambda: cls(list(kids), 0)) if p.outcome == "return"]
        ctx.oblige(f"C12/{cname}.__init__/struct/constructs", len(paths) >= 1, [], props, kind="applicability", fn=f"{cq}.{cname}.__init__")
        for n_, p in enumerate(paths):
            stored = list(p.value.bijections)
            ctx.oblige(f"C12/{cname}.__init__/post/stores_the_children_it_was_given#{n_}", len(stored) == 2 and all(a is b_ for a, b_ in zip(stored, kids)), [], props, kind="struct", fn=f"{cq}.{cname}.__init__", replay=dict(kind="c12", vars={}))
    uq = "flowjax.bijections.utils"
    it, fake_unwrap = mk_it()
    cls = it.repo_class(f"{uq}.Reshape")
    child = AbsBij(z3.Const("child", BIJ), shape=(SV(z3.Int("n")),), cond_shape=None)
    paths = [p for p in it.explore(lambda: cls(child, None, None)) if p.outcome == "return"]
    ctx.oblige("C12/Reshape.__init__/struct/constructs", len(paths) >= 1, [], props, kind="applicability", fn=f"{uq}.Reshape.__init__")
    for n_, p in enumerate(paths):
        ctx.oblige(f"C12/Reshape.__init__/post/stores_the_child_it_was_given#{n_}", p.value.bijection is child, [], props, kind="struct", fn=f"{uq}.Reshape.__init__", replay=dict(kind="c12", vars={}))


@family("shapes/Vmap._infer_axis_size_from_params", ["C08", "C13"])
def vmap_infer_axis_size(ctx):
    """the axis size a Vmap declares is the length of the mapped axis of the child's mapped array leaves (so that the declared
    shape (axis_size, *child.shape) is the shape the vmapped methods accept); ValueError iff in_axes maps no leaf"""
    it = ctx.interp
    props = ["C08", "C13"]
    q = "flowjax.bijections.jax_transforms"
    fn = it.repo_function(f"{q}._infer_axis_size_from_params")
    a, k = z3.Ints("axis_size k")

    class Arr:
        is_array = True

        def __init__(self, shape):
            self.shape = shape

    cls = it.repo_class("flowjax.bijections.affine.Loc")  # any module class: only the pytree structure matters
    leaf1, leaf2 = Arr((SV(a), SV(k))), Arr((SV(a),))
    tree = Obj(cls, loc=leaf1, shape=())
    tree2 = Obj(cls, loc=(leaf1, leaf2), shape=())
    rp = dict(kind="shapes", cls="Vmap", vars={})
    if_array0 = lambda leaf: 0 if isinstance(leaf, Arr) else None  # noqa: E731  (eqx.if_array(0))
    for tag, tr, spec, want in (("int_0", tree, 0, a), ("callable_if_array_0", tree, if_array0, a), ("int_1", tree, 1, k), ("two_leaves_callable", tree2, if_array0, a)):
        paths = it.explore(lambda tr=tr, spec=spec: fn(tr, spec))
        okp = [p for p in paths if p.outcome == "return"]
        ctx.oblige(f"C08/_infer_axis_size_from_params[{tag}]/post/returns_for_a_spec_that_maps_a_leaf", len(okp) >= 1, [], props, kind="struct", fn=f"{q}._infer_axis_size_from_params", replay=rp,
                   note=f"outcomes: {[(p.outcome, getattr(p.value, 'exc', None)) for p in paths][:4]}")
        for n_, p in enumerate(okp):
            ctx.oblige(f"C08/_infer_axis_size_from_params[{tag}]/post/size_of_the_mapped_axis#{n_}", lift(p.value) == want, p.cond, props, fn=f"{q}._infer_axis_size_from_params", replay=rp)
    paths = it.explore(lambda: fn(tree, None))
    ctx.oblige("C13/_infer_axis_size_from_params[none]/post/raises_when_nothing_is_mapped", len(paths) >= 1 and all(p.outcome == "raise" and p.value.exc == "ValueError" for p in paths), [], props, kind="struct",
               fn=f"{q}._infer_axis_size_from_params", replay=rp)


@family("shapes/Vmap._check_no_unwrappables", ["C12", "C13", "C08"])
def vmap_check_no_unwrappables(ctx):
    """in_axes is matched against the UNWRAPPED child (Vmap.__init__ infers the axis size from wrappers.unwrap(bijection)), so an
    in_axes tree that itself contains a wrapper node cannot be a prefix of it: the real `_check_no_unwrappables` raises ValueError iff
    some node of the in_axes pytree (root, field of a module, element of a container, nested below another wrapper's siblings) is an
    AbstractUnwrappable, and returns None otherwise; Vmap.__init__ calls it before anything is inferred"""
    it = ctx.new_interp()
    props = ["C12", "C13", "C08"]
    q = "flowjax.bijections.jax_transforms"
    fq = f"{q}._check_no_unwrappables"
    fn = it.repo_function(fq)
    loc_cls = it.repo_class("flowjax.bijections.affine.Loc")
    wrappers_ = {n: it.repo_class(f"flowjax.wrappers.{n}") for n in ("NonTrainable", "Lambda", "Where", "WeightNormalization")}

    def wrap(n, payload):
        c = wrappers_[n]
        if n == "NonTrainable":
            return Obj(c, tree=payload)
        if n == "Lambda":
            return Obj(c, fn="fn", args=(payload,), kwargs={})
        if n == "Where":
            return Obj(c, cond=payload, if_true=payload, if_false=payload)
        return Obj(c, weight=payload, scale=payload)

    rp = dict(kind="c12", vars={})
    clean = {
        "none": None,
        "int": 0,
        "module_of_ints": Obj(loc_cls, loc=0, shape=()),
        "module_with_containers": Obj(loc_cls, loc=(0, [None, 1], {"a": 0}), shape=()),
    }
    for tag, tree in clean.items():
        paths = it.explore(lambda tree=tree: fn(tree))
        ctx.oblige(f"C12/_check_no_unwrappables[clean:{tag}]/post/accepts_a_tree_without_wrappers", len(paths) >= 1 and all(p.outcome == "return" and p.value is None for p in paths), [], props, kind="struct", fn=fq, replay=rp,
                   note=f"outcomes: {[(p.outcome, getattr(p.value, 'exc', None)) for p in paths][:4]}")
    for wn in wrappers_:
        dirty = {
            "root": wrap(wn, 0),
            "module_field": Obj(loc_cls, loc=wrap(wn, 0), shape=()),
            "inside_tuple_in_module": Obj(loc_cls, loc=(0, wrap(wn, None)), shape=()),
            "inside_list_and_dict": [0, {"a": (None, wrap(wn, 1))}],
            "last_of_several_fields": Obj(loc_cls, loc=0, shape=wrap(wn, 0)),
        }
        for tag, tree in dirty.items():
            paths = it.explore(lambda tree=tree: fn(tree))
            ctx.oblige(f"C13/_check_no_unwrappables[{wn}:{tag}]/post/rejects_a_tree_with_a_wrapper_node", len(paths) >= 1 and all(p.outcome == "raise" and p.value.exc == "ValueError" for p in paths), [], props, kind="struct", fn=fq, replay=rp,
                       note=f"outcomes: {[(p.outcome, getattr(p.value, 'exc', None)) for p in paths][:4]}")
    # ---- the constructor consults it on the in_axes it was given, before the axis size is inferred
    it2 = ctx.new_interp()
    seen = []

    class W:
        unwrap = staticmethod(lambda t: seen.append(("unwrap", t)) or t)
        AbstractUnwrappable = it2.repo_class("flowjax.wrappers.AbstractUnwrappable")

    it2.global_overrides[q] = {"wrappers": W, "_infer_axis_size_from_params": lambda tree, in_axes: seen.append(("infer", in_axes)) or SV(z3.Int("inferred_axis_size"))}
    cls = it2.repo_class(f"{q}.Vmap")
    nt2 = it2.repo_class("flowjax.wrappers.NonTrainable")
    child = AbsBij(z3.Const("child", BIJ), shape=SymTuple(Seq("s")), cond_shape=None)
    spec = Obj(it2.repo_class("flowjax.bijections.affine.Loc"), loc=Obj(nt2, tree=0), shape=())
    paths = it2.explore(lambda: cls(child, in_axes=spec))
    ctx.oblige("C13/Vmap.__init__[in_axes_with_wrapper]/post/rejected_before_inference", len(paths) >= 1 and all(p.outcome == "raise" and p.value.exc == "ValueError" for p in paths) and not any(k == "infer" for k, _ in seen), [], props, kind="struct",
               fn=f"{q}.Vmap.__init__", replay=rp, note=f"outcomes: {[(p.outcome, getattr(p.value, 'exc', None)) for p in paths][:4]}, calls: {[k for k, _ in seen]}")
