"""Shape algebra of the combinators for EVERY rank and EVERY valid axis, negative ones included (C08, C13).

Shapes are z3 sequences of integers of unknown length; the real constructors / properties are executed on them and the
declared shape is compared with the shape jnp.concatenate / jnp.stack / vmap produce (spec written from their docs).
"""
import z3

from fjvc.core import family
from fjvc.interp import Obj, obj_fields
from fjvc.values import SV, SymTuple, IntSeq, lift, I

from .abstract import AbsBij, BIJ
from .leaves import method

Seq = lambda name: z3.Const(name, IntSeq)  # noqa: E731


def norm_axis(a, r):
    return z3.If(a < 0, a + r, a)


def sub(s, lo_, hi_):
    return z3.SubSeq(s, lo_, hi_ - lo_)


def by_outcome(paths):
    return [p for p in paths if p.outcome == "return"], [p for p in paths if p.outcome == "raise"]


# --------------------------------------------------------------------------------------
@family("shapes/Concatenate.__init__", ["C08", "C13"])
def concatenate_init(ctx):
    it = ctx.interp
    q = "flowjax.bijections.concatenate.Concatenate"
    cls = it.repo_class(q)
    s0, s1 = Seq("s0"), Seq("s1")
    a = z3.Int("axis")
    r = z3.Length(s0)
    props = ["C08", "C13"]
    kids = [AbsBij(z3.Const("b0", BIJ), shape=SymTuple(s0)), AbsBij(z3.Const("b1", BIJ), shape=SymTuple(s1))]
    paths = it.explore(lambda: cls(kids, SV(a)))
    ok, bad = by_outcome(paths)
    valid_axis = z3.And(a >= -r, a < r, r >= 1)
    ap = norm_axis(a, r)
    compatible = z3.And(z3.Length(s1) == r, sub(s0, 0, ap) == sub(s1, 0, ap), sub(s0, ap + 1, r) == sub(s1, ap + 1, r))
    spec = z3.Concat(sub(s0, 0, ap), z3.Unit(s0[ap] + s1[ap]), sub(s0, ap + 1, r))  # jnp.concatenate: sizes add up along the axis
    rp = dict(kind="shapes", cls="Concatenate", vars=dict(axis=a, s0=s0, s1=s1))
    pos = [z3.And(*[s[z3.Int("j!b")] >= 0 for s in ()])]
    for i, p in enumerate(ok):
        o = p.value
        ctx.oblige(f"C08/Concatenate.__init__/post/shape#{i}", SymTuple.of(o.shape).s == spec, p.cond + [valid_axis], props, fn=q + ".__init__", replay=rp)
        ctx.oblige(f"C13/Concatenate.__init__/post/accepted_only_if_compatible#{i}", compatible, p.cond + [valid_axis], props, fn=q + ".__init__", replay=rp)
        ctx.oblige(f"C08/Concatenate.__init__/post/split_idxs#{i}", lift(o.split_idxs[0]) == s0[ap], p.cond + [valid_axis], props, fn=q + ".__init__", replay=rp)
    for i, p in enumerate(bad):
        # raises only for an invalid axis (IndexError) or incompatible shapes (ValueError)
        ctx.oblige(f"C13/Concatenate.__init__/post/raises_only_if#{i}", z3.Or(z3.Not(valid_axis), z3.Not(compatible)), p.cond, props, fn=q + ".__init__", replay=rp, note=f"raises {p.value.exc}")
    ctx.oblige("C08/Concatenate.__init__/struct/has_success_path", len(ok) >= 1, [], props, kind="struct", fn=q + ".__init__")
    if ok:
        ctx.cover("C08/Concatenate.__init__/cover/negative_axis", ok[0].cond + [valid_axis, a < 0, r >= 2], props, fn=q + ".__init__")
        ctx.control("C08/Concatenate.__init__/control/wrong_axis", SymTuple.of(ok[0].value.shape).s == z3.Concat(z3.Unit(s0[0] + s1[0]), sub(s0, 1, r)), ok[0].cond + [valid_axis, r >= 2], props, fn=q + ".__init__")


@family("shapes/Stack.__init__", ["C08", "C13"])
def stack_init(ctx):
    it = ctx.interp
    q = "flowjax.bijections.concatenate.Stack"
    cls = it.repo_class(q)
    s0, s1 = Seq("s0"), Seq("s1")
    a = z3.Int("axis")
    r = z3.Length(s0)
    props = ["C08", "C13"]
    kids = [AbsBij(z3.Const("b0", BIJ), shape=SymTuple(s0)), AbsBij(z3.Const("b1", BIJ), shape=SymTuple(s1))]
    paths = it.explore(lambda: cls(kids, SV(a)))
    ok, bad = by_outcome(paths)
    valid_axis = z3.And(a >= -(r + 1), a < r + 1)  # jnp.stack: the new axis index refers to the RESULT (rank r+1)
    ap = norm_axis(a, r + 1)
    spec = z3.Concat(sub(s0, 0, ap), z3.Unit(z3.IntVal(2)), sub(s0, ap, r))
    rp = dict(kind="shapes", cls="Stack", vars=dict(axis=a, s0=s0, s1=s1))
    for i, p in enumerate(ok):
        o = p.value
        ctx.oblige(f"C08/Stack.__init__/post/shape#{i}", SymTuple.of(o.shape).s == spec, p.cond + [valid_axis], props, fn=q + ".__init__", replay=rp)
        ctx.oblige(f"C13/Stack.__init__/post/accepted_only_if_same_shapes#{i}", s0 == s1, p.cond, props, fn=q + ".__init__", replay=rp)
    for i, p in enumerate(bad):
        ctx.oblige(f"C13/Stack.__init__/post/raises_only_if#{i}", z3.And(s0 != s1, z3.BoolVal(p.value.exc == "ValueError")), p.cond + [valid_axis], props, fn=q + ".__init__", replay=rp)
    ctx.oblige("C08/Stack.__init__/struct/has_success_path", len(ok) >= 1, [], props, kind="struct", fn=q + ".__init__")
    if ok:
        ctx.cover("C08/Stack.__init__/cover/negative_axis", ok[0].cond + [valid_axis, a < 0, r >= 1], props, fn=q + ".__init__")
        ctx.control("C08/Stack.__init__/control/append_last", SymTuple.of(ok[0].value.shape).s == z3.Concat(s0, z3.Unit(z3.IntVal(2))), ok[0].cond + [valid_axis, r >= 1], props, fn=q + ".__init__")


@family("shapes/Vmap", ["C08", "C13"])
def vmap_shapes(ctx):
    it = ctx.interp
    q = "flowjax.bijections.jax_transforms.Vmap"
    cls = it.repo_class(q)
    s, cs = Seq("inner_shape"), Seq("inner_cond_shape")
    ax, size = z3.Int("in_axes_condition"), z3.Int("axis_size")
    rc = z3.Length(cs)
    props = ["C08", "C13"]
    inner = AbsBij(z3.Const("b", BIJ), shape=SymTuple(s), cond_shape=SymTuple(cs))
    self = Obj(cls, bijection=inner, axis_size=SV(size), in_axes=(None, 0, SV(ax)))
    rp = dict(kind="shapes", cls="Vmap", vars=dict(in_axes_condition=ax, axis_size=size, inner_shape=s, inner_cond_shape=cs))
    paths = it.explore(lambda: method(cls, "get_cond_shape")(self, SV(ax)))
    valid = z3.And(ax >= -(rc + 1), ax < rc + 1)  # axis of the batched condition (rank rc+1) that is mapped over
    ap = norm_axis(ax, rc + 1)
    spec = z3.Concat(sub(cs, 0, ap), z3.Unit(size), sub(cs, ap, rc))
    for i, p in enumerate(p for p in paths if p.outcome == "return"):
        v = p.value
        got = SymTuple.of(v if isinstance(v, (SymTuple, tuple)) else tuple(v)).s
        ctx.oblige(f"C08/Vmap.get_cond_shape/post/cond_shape#{i}", got == spec, p.cond + [valid], props, fn=q + ".get_cond_shape", replay=rp)
    ctx.oblige("C08/Vmap.get_cond_shape/struct/returns", any(p.outcome == "return" for p in paths), [], props, kind="struct", fn=q + ".get_cond_shape")
    # mapped axis None or unconditional child: the child's cond_shape is declared unchanged
    for nm, slf, arg in (("no_mapped_axis", self, None), ("unconditional_child", Obj(cls, bijection=AbsBij(z3.Const("b", BIJ), shape=SymTuple(s), cond_shape=None), axis_size=SV(size), in_axes=(None, 0, None)), SV(ax))):
        ps = it.explore(lambda slf=slf, arg=arg: method(cls, "get_cond_shape")(slf, arg))
        ok = len(ps) == 1 and ps[0].outcome == "return" and ps[0].value is obj_or_attr(slf, "bijection").cond_shape
        ctx.oblige(f"C08/Vmap.get_cond_shape/post/{nm}", ok, [], props, kind="struct", fn=q + ".get_cond_shape")
    # shape property: (axis_size, *inner)
    ps = it.explore(lambda: self.shape)
    for i, p in enumerate(p for p in ps if p.outcome == "return"):
        v = p.value
        got = v.s if isinstance(v, SymTuple) else None
        if got is None:
            try:
                got = SymTuple.of(v).s
            except Exception:
                got = None
        ctx.oblige(f"C08/Vmap.shape/post/leading_axis#{i}", (got == z3.Concat(z3.Unit(size), s)) if got is not None else False, p.cond, props, fn=q + ".shape", replay=rp)


def obj_or_attr(o, name):
    return obj_fields(o)[name]


@family("shapes/Reshape", ["C08", "C13"])
def reshape_init(ctx):
    """Reshape only re-presents: declared shape/cond_shape are the requested ones (rank 0 included), defaults are the child's;
    __check_init__ raises iff the element count changes or an unconditional child gets a cond_shape."""
    it = ctx.interp
    q = "flowjax.bijections.utils.Reshape"
    cls = it.repo_class(q)
    props = ["C08", "C13"]
    n0, n1, m0, c0, d0 = z3.Ints("n0 n1 m0 c0 d0")
    pos = [n0 >= 1, n1 >= 1, m0 >= 1, c0 >= 1, d0 >= 1]
    inner_shapes = {"rank1": (SV(n0),), "rank2": (SV(n0), SV(n1))}
    targets = {"rank0": (), "rank1": (SV(m0),), "none": None}
    for iname, ish in inner_shapes.items():
        for tname, tsh in targets.items():
            for cname, (icond, tcond) in {"uncond": (None, None), "cond_default": ((SV(c0),), None), "cond_rank0": ((SV(c0),), ()), "cond_rank1": ((SV(c0),), (SV(d0),)), "cond_on_uncond": (None, (SV(d0),))}.items():
                inner = AbsBij(z3.Const("b", BIJ), shape=ish, cond_shape=icond)
                paths = it.explore(lambda inner=inner, tsh=tsh, tcond=tcond: cls(inner, tsh, tcond))
                ok, bad = by_outcome(paths)
                tag = f"{iname}->{tname},{cname}"
                prod_in = lift(ish[0]) if len(ish) == 1 else lift(ish[0]) * lift(ish[1])
                prod_t = z3.IntVal(1) if tsh == () else (lift(tsh[0]) if tsh else prod_in)
                same_count = prod_in == prod_t
                if icond is not None and tcond is not None:
                    pc_t = z3.IntVal(1) if tcond == () else lift(tcond[0])
                    same_count = z3.And(same_count, lift(icond[0]) == pc_t)
                illegal = icond is None and tcond is not None
                rp = dict(kind="shapes", cls="Reshape", case=tag, vars=dict(n0=n0, n1=n1, m0=m0, c0=c0, d0=d0))
                for i, p in enumerate(ok):
                    o = p.value
                    want_shape = tsh if tsh is not None else ish
                    want_cond = tcond if tcond is not None else icond
                    got_ok = _tuple_eq(o.shape, want_shape)
                    got_c = _tuple_eq(o.cond_shape, want_cond)
                    ctx.oblige(f"C08/Reshape.__init__[{tag}]/post/declared_shape#{i}", got_ok, p.cond + pos, props, fn=q + ".__init__", replay=rp)
                    ctx.oblige(f"C08/Reshape.__init__[{tag}]/post/declared_cond_shape#{i}", got_c, p.cond + pos, props, fn=q + ".__init__", replay=rp)
                    ctx.oblige(f"C13/Reshape.__check_init__[{tag}]/post/accepted_only_if_same_count#{i}", z3.And(same_count, z3.BoolVal(not illegal)), p.cond + pos, props, fn=q + ".__check_init__", replay=rp)
                for i, p in enumerate(bad):
                    ctx.oblige(f"C13/Reshape.__check_init__[{tag}]/post/raises_only_if#{i}", z3.And(z3.Or(z3.Not(same_count), z3.BoolVal(illegal)), z3.BoolVal(p.value.exc == "ValueError")), p.cond + pos, props, fn=q + ".__check_init__", replay=rp)


def _tuple_eq(got, want):
    """python-tuple equality as a z3 formula (False if kinds / lengths differ)"""
    if want is None or got is None:
        return z3.BoolVal(got is None and want is None)
    try:
        got, want = tuple(got), tuple(want)
    except TypeError:
        return z3.BoolVal(False)
    if len(got) != len(want):
        return z3.BoolVal(False)
    return z3.And(*[lift(g) == lift(w) for g, w in zip(got, want)]) if got else z3.BoolVal(True)
