"""C13: malformed inputs are rejected.  (i) the argument-checking wrapper raises iff the documented conditions hold, for
shapes of ANY rank (rank 0 included); (ii) struct/wrapped: the real __init_subclass__ hook is executed on the class
table of /repo: every concrete bijection class ends up with all four public methods wrapped."""
import ast

import z3

from fjvc.core import family
from fjvc.interp import Obj, RepoClass, Closure, _MISSING
from fjvc.lib import TypeMarker
from fjvc.values import SV, SymTuple, IntSeq, lift

from .leaves import method

MOD = "flowjax.bijections.bijection"


class Arr:
    def __init__(self, shape, tag):
        self.shape, self.tag = shape, tag


@family("wrappers13/_unwrap_check_and_cast", ["C13", "C12"])
def unwrap_check_and_cast(ctx):
    it = ctx.interp
    fnq = f"{MOD}._unwrap_check_and_cast"
    it.global_overrides[MOD] = {"unwrap": lambda b: ("unwrapped", b)}
    it.lib.overrides["jaxtyping.ArrayLike"] = TypeMarker("ArrayLike", check=lambda v: isinstance(v, Arr))
    it.lib.overrides["jax.numpy.asarray"] = lambda a, **k: a
    props = ["C13", "C12"]
    S, CS, XS, CXS = (z3.Const(n, IntSeq) for n in ("shape", "cond_shape", "x_shape", "condition_shape"))
    called = {}

    def raw_method(b, x, condition):
        called["args"] = (b, x, condition)
        return "result"

    deco = it.repo_function(fnq)
    for cname, cs, cond in (("unconditional,no_condition", None, None), ("unconditional,condition_given", None, Arr(SymTuple(CXS), "c")),
                            ("conditional,condition_given", SymTuple(CS), Arr(SymTuple(CXS), "c")), ("conditional,condition_missing", SymTuple(CS), None)):
        bij = Obj.__new__(Obj)
        object.__setattr__(bij, "_cls", it.repo_class(f"{MOD}.AbstractBijection"))
        object.__setattr__(bij, "_fields", dict(shape=SymTuple(S), cond_shape=cs))
        object.__setattr__(bij, "_frozen", True)
        x = Arr(SymTuple(XS), "x")
        called.clear()
        paths = it.explore(lambda: deco(raw_method)(bij, x, cond))
        should_raise = XS != S
        if cs is not None:
            should_raise = z3.Or(should_raise, z3.BoolVal(cond is None), (CXS != CS) if cond is not None else z3.BoolVal(True))
        rp = dict(kind="wrapper13", case=cname, vars=dict(shape=S, cond_shape=CS, x_shape=XS, condition_shape=CXS))
        for i, p in enumerate(paths):
            if p.outcome == "raise":
                ctx.oblige(f"C13/_unwrap_check_and_cast[{cname}]/post/raises_only_if#{i}", z3.And(should_raise, z3.BoolVal(p.value.exc == "ValueError")), p.cond, props, fn=fnq, replay=rp)
            else:
                ctx.oblige(f"C13/_unwrap_check_and_cast[{cname}]/post/accepts_only_exact_shapes#{i}", z3.Not(should_raise), p.cond, props, fn=fnq, replay=rp)
        ok_paths = [p for p in paths if p.outcome == "return"]
        ctx.oblige(f"C13/_unwrap_check_and_cast[{cname}]/struct/calls_method_on_unwrapped_self", (cs is not None and cond is None) or (len(ok_paths) >= 1 and all(p.value == "result" for p in ok_paths)), [], props, kind="struct", fn=fnq)
    ctx.cover("C13/_unwrap_check_and_cast/cover/rank0_cond_shape", [z3.Length(CS) == 0, z3.Length(CXS) == 1], props, fn=fnq)


@family("wrappers13/struct_wrapped", ["C13", "C12"])
def struct_wrapped(ctx):
    """run the real AbstractBijection.__init_subclass__ on every bijection class of /repo (class table from the AST)"""
    it = ctx.interp
    props = ["C13", "C12"]
    base = it.repo_class(f"{MOD}.AbstractBijection")
    hook = base.members.get("__init_subclass__")
    names = ["transform", "transform_and_log_det", "inverse", "inverse_and_log_det"]
    wrapped = {}

    def fake_deco(m):
        return ("wrapped", m)

    it.global_overrides[MOD] = {"_unwrap_check_and_cast": fake_deco}
    # re-resolve the hook in an env where the decorator is the marker
    it.module_envs.pop(MOD, None)
    base = it.repo_class(f"{MOD}.AbstractBijection")
    hook = base.members.get("__init_subclass__")
    ctx.oblige("C13/struct/init_subclass_hook_exists", hook is not None, [], props, kind="struct", fn=f"{MOD}.AbstractBijection.__init_subclass__")
    if hook is None:
        return
    classes = []
    for modname, (path, tree) in sorted(it.source.modules.items()):
        if not modname.startswith("flowjax.bijections") and modname not in ("flowjax.bisection_search",):
            continue
        for node in tree.body:
            if isinstance(node, ast.ClassDef):
                try:
                    c = it.module_env(modname).resolve(node.name)
                except Exception:
                    continue
                if isinstance(c, RepoClass) and c is not base and c.issubclass_of(base):
                    classes.append(c)
    # class creation order: bases first
    classes.sort(key=lambda c: len(c.mro()))
    setattr_log = {}

    def b_setattr(o, n, v):
        setattr_log.setdefault(o.qual, {})[n] = v

    it.builtins["setattr"] = b_setattr
    for c in classes:
        paths = it.explore(lambda c=c: hook(c))
        ctx.oblige(f"C13/struct/init_subclass_runs[{c.__name__}]", len(paths) == 1 and paths[0].outcome == "return", [], props, kind="struct", fn=c.qual)
    for c in classes:
        if any(isinstance(c.lookup(nm), Closure) and c.lookup(nm).is_abstract for nm in names) or any(c.lookup(nm) is _MISSING for nm in names):
            continue  # abstract class
        for nm in names:
            # the function Python resolves for `nm` on class c: first class in the MRO whose body defines it; it must have been wrapped there
            owner = next(k for k in c.mro() if nm in k.members)
            ok = nm in setattr_log.get(owner.qual, {}) and setattr_log[owner.qual][nm][0] == "wrapped" and setattr_log[owner.qual][nm][1] is owner.members[nm]
            ctx.oblige(f"C13/struct/wrapped[{c.__name__}.{nm}]", ok, [], props, kind="struct", fn=f"{c.qual}.{nm}", note=f"defined in {owner.qual}")
    ctx.oblige("C13/struct/classes_found", len(classes) >= 25, [], props, kind="struct", fn=MOD, note=f"{len(classes)} bijection classes")
