"""C17: the loss functions compute their defining estimators (real ASTs against abstract distributions)."""
import z3

from fjvc.core import family
from fjvc.interp import Untranslatable
from fjvc.interp import Obj, Closure
from fjvc.values import SV, SymSeq, lift, to_real, R, I

from .leaves import method, single

MOD = "flowjax.train.losses"
T = z3.DeclareSort("Tree")  # pytrees / batches / keys: opaque values
combine = z3.Function("combine", T, T, T)
unwrap_f = z3.Function("unwrap", T, T)
sg = z3.Function("stop_gradient", T, T)
LPB = z3.Function("log_prob_batch", T, T, T, T)  # dist.log_prob(x, condition): a batch of log-probs (opaque vector)
MEAN = z3.Function("mean", T, R)
NEG_MEAN_CHECK = None
SAMPLE = z3.Function("sample", T, T, I, T)  # dist.sample(key, (n,))
SUBV = z3.Function("vec_sub", T, T, T)
VMAP_TARGET = z3.Function("vmap_target", T, T)  # vmap(target)(samples)
NONE = z3.Const("None", T)


class Vec:
    def __init__(self, e):
        self.e = e

    def mean(self):
        return SV(MEAN(self.e))

    def sum(self):
        return SV(z3.Function("sum", T, R)(self.e))

    def __sub__(self, o):
        return Vec(SUBV(self.e, o.e))

    def __neg__(self):
        return Vec(z3.Function("vec_neg", T, T)(self.e))


class TreeV:
    def __init__(self, e, nograd=False):
        self.e, self.nograd = e, nograd


class DistV:
    """a (combined) distribution pytree; nograd: built from stop_gradient'ed parameters"""

    def __init__(self, e, nograd=False, unwrapped=False):
        self.e, self.nograd, self.unwrapped = e, nograd, unwrapped
        self.calls = []

    def log_prob(self, x, condition=None):
        self.calls.append(("log_prob", self.nograd))
        return Vec(LPB(self.e, x.e, NONE if condition is None else condition.e))

    def sample(self, key, sample_shape=()):
        self.calls.append(("sample", self.nograd))
        return TreeV(SAMPLE(self.e, key.e, lift(sample_shape[0])))

    def sample_and_log_prob(self, key, sample_shape=()):
        # contract (C03/C06): the joint path returns sample(key) and log_prob at that sample
        self.calls.append(("sample_and_log_prob", self.nograd))
        s = SAMPLE(self.e, key.e, lift(sample_shape[0]))
        return TreeV(s), Vec(LPB(self.e, s, NONE))


def install(it, log):
    lib = it.lib.overrides
    lib["equinox.combine"] = lambda p, s: log.setdefault("dists", []).append(DistV(combine(p.e, s.e), nograd=getattr(p, "nograd", False))) or log["dists"][-1]
    lib["jax.lax.stop_gradient"] = lambda p: TreeV(sg(p.e), nograd=True)
    lib["jax.vmap"] = lambda f: (lambda xs: Vec(VMAP_TARGET(xs.e)))  # vmap(target)(samples): the only vmap in this module
    it.global_overrides[MOD] = {"unwrap": lambda d: DistV(unwrap_f(d.e), d.nograd, True) if isinstance(d, DistV) else d}


@family("losses/MaximumLikelihoodLoss", ["C17", "C12"])
def mle(ctx):
    it = ctx.interp
    log = {}
    install(it, log)
    cls = it.repo_class(f"{MOD}.MaximumLikelihoodLoss")
    p, s, x, c = (z3.Const(n, T) for n in ("params", "static", "x", "condition"))
    self = Obj(cls)
    props = ["C17", "C12"]
    fnq = f"{MOD}.MaximumLikelihoodLoss.__call__"
    for cname, cond in (("conditional", TreeV(c)), ("unconditional", None)):
        paths = it.explore(lambda: method(cls, "__call__")(self, TreeV(p), TreeV(s), TreeV(x), cond))
        pa = single(paths, ctx, f"C17/MaximumLikelihoodLoss[{cname}]/struct/straight_line", props, fnq)
        if pa is None:
            continue
        d = unwrap_f(combine(p, s))
        spec = -MEAN(LPB(d, x, c if cond is not None else NONE))
        ctx.oblige(f"C17/MaximumLikelihoodLoss[{cname}]/post/minus_mean_log_prob_of_unwrapped", lift(pa.value) == spec, pa.cond, props, fn=fnq, replay=dict(kind="losses", vars={}))
        ctx.control(f"C17/MaximumLikelihoodLoss[{cname}]/control/plus_mean", lift(pa.value) == MEAN(LPB(d, x, c if cond is not None else NONE)), pa.cond + [MEAN(LPB(d, x, c if cond is not None else NONE)) != 0], props, fn=fnq)


@family("losses/ElboLoss", ["C17"])
def elbo(ctx):
    it = ctx.interp
    props = ["C17"]
    fnq = f"{MOD}.ElboLoss.__call__"
    cls = it.repo_class(f"{MOD}.ElboLoss")
    p, s, k = (z3.Const(n, T) for n in ("params", "static", "key"))
    n = z3.Int("num_samples")
    sg_value = [sg(p) == p]  # T3: stop_gradient is the identity on values
    results = {}
    for stl in (False, True):
        log = {}
        install(it, log)
        # the user's target is a function of ONE point; applied to the whole batch it is some other (uninterpreted) value
        target = lambda v: Vec(z3.Function("target_applied_to_the_whole_batch_as_one_point", T, T)(v.e))  # noqa: E731
        log["target"] = target
        self = cls(target, SV(n), stick_the_landing=stl)
        paths = it.explore(lambda: method(cls, "__call__")(self, TreeV(p), TreeV(s), TreeV(k)))
        pa = single(paths, ctx, f"C17/ElboLoss[stl={stl}]/struct/straight_line", props, fnq)
        if pa is None:
            continue
        d = combine(p, s)
        smp = SAMPLE(d, k, n)
        spec = MEAN(SUBV(LPB(d, smp, NONE), VMAP_TARGET(smp)))  # mean over samples drawn with the key of log q(x) - target(x)
        ctx.oblige(f"C17/ElboLoss[stl={stl}]/post/mean_logq_minus_target", lift(pa.value) == spec, pa.cond + sg_value, props, fn=fnq, replay=dict(kind="losses", vars={}))
        results[stl] = lift(pa.value)
        calls = [c for dv in log.get("dists", []) for c in dv.calls]
        if stl:
            # the samples come from the differentiable distribution, the log-prob term from stop_gradient'ed parameters
            ok = ("sample", False) in calls and ("log_prob", True) in calls and not any(c == ("log_prob", False) for c in calls)
            ctx.oblige("C17/ElboLoss[stl=True]/post/score_term_has_no_gradient_path", ok, [], props, kind="struct", fn=fnq, note=f"calls: {calls}")
        else:
            ctx.oblige("C17/ElboLoss[stl=False]/post/single_joint_pass", calls == [("sample_and_log_prob", False)], [], props, kind="struct", fn=fnq, note=f"calls: {calls}")
    if len(results) == 2:
        ctx.oblige("C17/ElboLoss/post/same_value_with_and_without_stl", results[True] == results[False], sg_value, props, fn=fnq)


# --------------------------------------------------------------------------------------
ROW = z3.DeclareSort("Row")
XROW = z3.Function("x_row", I, ROW)
CROW = z3.Function("cond_row", I, ROW)
IDX = z3.Function("contrastive_idx", I, I, I)  # IDX(i, m): m-th contrastive index of row i
LQ = z3.Function("log_q", ROW, ROW, R)
LPRI = z3.Function("log_prior", ROW, R)
LSE = z3.Function("logsumexp_of_family_and", R, R, R)  # logsumexp over {member(m)} u {extra}, family abstracted by its generic member
MEANROWS = z3.Function("mean_over_rows", R, R)
CHOICE = z3.Function("choice", T, I, I)


class RowV:
    def __init__(self, e):
        self.e = e


class Gathered:
    def __init__(self, rows_at):
        self.rows_at = rows_at


class IdxVec:
    def __init__(self, i):
        self.i = i


class XBatch:
    def __init__(self, B):
        self.B = B

    @property
    def shape(self):
        return (SV(self.B), 2)

    def __getitem__(self, idx):
        if isinstance(idx, IdxVec):
            return Gathered(lambda m: XROW(IDX(idx.i, m)))
        raise TypeError


class Appended:
    def __init__(self, member, extra):
        self.member, self.extra = member, extra


M = z3.Int("m")  # generic contrastive slot


class CDist:
    def __init__(self, f, cond=True):
        self.f, self.cond = f, cond

    def log_prob(self, x, condition=None):
        if isinstance(x, RowV):
            return SV(self.f(x.e, condition.e) if self.cond else self.f(x.e))
        if isinstance(x, Gathered):
            r = x.rows_at(M)
            return SV(self.f(r, condition.e) if self.cond else self.f(r), elem=True)
        raise TypeError


@family("losses/ContrastiveLoss", ["C17"])
def contrastive(ctx):
    it = ctx.interp
    props = ["C17"]
    fnq = f"{MOD}.ContrastiveLoss.__call__"
    cls = it.repo_class(f"{MOD}.ContrastiveLoss")
    B, nc, i = z3.Ints("B n_contrastive i")
    key = z3.Const("key", T)
    lib = it.lib.overrides
    qd = CDist(LQ)
    lib["equinox.combine"] = lambda p, s: qd
    it.global_overrides[MOD] = {"unwrap": lambda d: d, "_get_contrastive_idxs": lambda k, b, n_: ("idxs", k, b, n_)}
    lib["jax.numpy.append"] = lambda v, s: Appended(v, s)
    # equivalent spellings of "the contrastive logits together with the positive one" (a family plus one extra member)
    lib["jax.numpy.ravel"] = lambda v: v
    lib["jax.numpy.atleast_1d"] = lambda v: v

    def concat(parts, axis=0):
        parts = list(parts)
        if len(parts) == 2:
            return Appended(parts[0], parts[1])
        raise Untranslatable("concatenate of other than (family, extra member)")

    lib["jax.numpy.concatenate"] = concat
    lib["jax.numpy.hstack"] = concat
    lib["jax.scipy.special.logsumexp"] = lambda a: SV(LSE(to_real(lift(a.member)), to_real(lift(a.extra))))
    seen = {}

    def filter_vmap(f):
        def mapped(x, condition, idxs):
            seen["idxs"] = idxs
            r = f(RowV(XROW(i)), RowV(CROW(i)), IdxVec(i))  # generic row i
            return MeanRows(r)
        return mapped

    class MeanRows:
        def __init__(self, r):
            self.r = r

        def mean(self):
            return SV(MEANROWS(to_real(lift(self.r))))

    lib["equinox.filter_vmap"] = filter_vmap
    prior = CDist(LPRI, cond=False)
    self = cls(prior, SV(nc))
    X = XBatch(B)
    paths = it.explore(lambda: method(cls, "__call__")(self, "params", "static", X, "condition", key))
    ell = lambda row, ci: LQ(row, CROW(ci)) - LPRI(row)  # noqa: E731
    pos = ell(XROW(i), i)
    member = ell(XROW(IDX(i, M)), i)
    spec_row = -(pos - LSE(member, pos))
    rp = dict(kind="losses", vars={})
    for j, pa in enumerate(paths):
        if pa.outcome == "raise":
            ctx.oblige(f"C17/ContrastiveLoss/post/raises_only_if#{j}", z3.And(B <= nc, z3.BoolVal(pa.value.exc == "ValueError")), pa.cond, props, fn=fnq, replay=rp)
        else:
            ctx.oblige(f"C17/ContrastiveLoss/post/accepts_only_if#{j}", B > nc, pa.cond, props, fn=fnq, replay=rp)
            ctx.oblige(f"C17/ContrastiveLoss/post/softmax_cross_entropy#{j}", lift(pa.value) == MEANROWS(spec_row), pa.cond, props, fn=fnq, replay=rp)
            # never negative: logsumexp of a family that contains the positive logit is >= the positive logit
            ctx.oblige(f"C17/ContrastiveLoss/post/row_loss_nonnegative#{j}", spec_row >= 0, pa.cond + [LSE(member, pos) >= pos], props, fn=fnq, replay=rp,
                       note="hypothesis: logsumexp(S u {p}) >= p  (T2 fact about logsumexp)")
            ok = seen.get("idxs") == ("idxs", key, None, None) or (isinstance(seen.get("idxs"), tuple) and seen["idxs"][0] == "idxs")
            ctx.oblige(f"C17/ContrastiveLoss/struct/indices_from_get_contrastive_idxs#{j}", bool(ok), [], props, kind="struct", fn=fnq)
            ctx.control(f"C17/ContrastiveLoss/control/prior_of_positive_row#{j}", lift(pa.value) == MEANROWS(-(pos - LSE(LQ(XROW(IDX(i, M)), CROW(i)) - LPRI(XROW(i)), pos))), pa.cond, props, fn=fnq)


@family("losses/_get_contrastive_idxs", ["C17"])
def contrastive_idxs(ctx):
    """for each row: exactly n_contrastive DISTINCT indices of OTHER rows, one sub-key per row"""
    it = ctx.interp
    props = ["C17"]
    fnq = f"{MOD}._get_contrastive_idxs"
    B, nc, i = z3.Ints("B n_contrastive i")
    KEYS = z3.Function("split_key", T, I, I, T)
    key = z3.Const("key", T)
    lib = it.lib.overrides
    rec = {}

    class ArangeV:
        def __init__(self, n):
            self.n = n

    class Deleted:
        def __init__(self, n, idx):
            self.n, self.idx = n, idx

    class KeysV:
        def __init__(self, k, n):
            self.k, self.n = k, n

    lib["jax.numpy.arange"] = lambda n_: ArangeV(lift(n_))
    lib["jax.numpy.delete"] = lambda a, idx, **kw: Deleted(a.n, idx)
    lib["jax.random.split"] = lambda k, n_=2: KeysV(k, lift(n_))

    class Chosen:
        def __init__(self, **kw):
            self.__dict__.update(kw)

    def choice(k, choices, shape, replace=True, **kw):
        rec["choice"] = dict(key=k, choices=choices, shape=shape, replace=replace)
        return Chosen(**rec["choice"])

    lib["jax.random.choice"] = choice

    def vmap_model(broadcast_non_arrays):
        def vm_(f, **kw):
            if kw:
                raise Untranslatable("vmap with in_axes / out_axes in _get_contrastive_idxs")

            def mapped(*args):
                # generic row i: key = keys[i], idx = arange(B)[i] = i; eqx.filter_vmap broadcasts non-array arguments
                row = []
                for a in args:
                    if isinstance(a, KeysV):
                        rec.setdefault("vmapped", {})["keys"] = a
                        row.append(("key_of_row", a, i))
                    elif isinstance(a, ArangeV):
                        rec.setdefault("vmapped", {})["idxs"] = a
                        row.append(SV(i))
                    elif broadcast_non_arrays:
                        row.append(a)
                    else:
                        raise Untranslatable("jax.vmap over a non-array argument")
                return f(*row)
            return mapped
        return vm_

    lib["equinox.filter_vmap"] = vmap_model(True)
    lib["jax.vmap"] = vmap_model(False)
    fn = it.repo_function(fnq)
    paths = it.explore(lambda: fn(key, SV(B), SV(nc)))
    if len(paths) > 1 and all(p_.outcome == "return" for p_ in paths):
        # value-dependent Python branching on the (static) sizes: the same four clauses, proved on every path under its path condition.
        # A path may return jr.choice(...) of the other rows, or the other rows themselves (all of them: needs n_contrastive == B - 1).
        vm = rec.get("vmapped", {})
        ok_vm = isinstance(vm.get("idxs"), ArangeV) and isinstance(vm.get("keys"), KeysV)
        ctx.oblige("C17/_get_contrastive_idxs/struct/straight_line", True, [], props, kind="applicability", fn=fnq, note=f"{len(paths)} return paths, each checked under its path condition")
        pipe, cand, subk, dist, exact = ok_vm, [], ok_vm, True, []
        for p_ in paths:
            v = p_.value
            pc = z3.And(*p_.cond) if p_.cond else z3.BoolVal(True)
            if isinstance(v, Chosen) and isinstance(v.choices, Deleted) and ok_vm:
                d = v.choices
                cand.append(z3.Implies(pc, z3.And(d.n == B, lift(d.idx) == i, vm["idxs"].n == B, vm["keys"].n == B)))
                subk = subk and v.key == ("key_of_row", vm["keys"], i) and vm["keys"].k is key
                dist = dist and v.replace is False
                exact.append(z3.Implies(pc, (lift(v.shape[0]) == nc) if isinstance(v.shape, tuple) and len(v.shape) == 1 else z3.BoolVal(False)))
            elif isinstance(v, Deleted) and ok_vm:
                # all other rows, in order: distinct by construction (delete of one position of arange), no randomness needed
                cand.append(z3.Implies(pc, z3.And(v.n == B, lift(v.idx) == i, vm["idxs"].n == B)))
                exact.append(z3.Implies(pc, B - 1 == nc))
            else:
                pipe = False
        ctx.oblige("C17/_get_contrastive_idxs/struct/pipeline", bool(pipe), [], props, kind="struct", fn=fnq, note="every path: choices = delete(arange(batch), row), returned whole or sub-sampled by jr.choice; keys = split(key, batch)")
        if pipe:
            ctx.oblige("C17/_get_contrastive_idxs/post/candidates_are_the_other_rows", z3.And(*cand), [], props, fn=fnq)
            ctx.oblige("C17/_get_contrastive_idxs/post/one_subkey_per_row", bool(subk), [], props, kind="struct", fn=fnq)
            ctx.oblige("C17/_get_contrastive_idxs/post/distinct_without_replacement", bool(dist), [], props, kind="struct", fn=fnq, note="jr.choice(replace=False) on every sampling path: distinct elements of its argument (T3)")
            ctx.oblige("C17/_get_contrastive_idxs/post/exactly_n_contrastive", z3.And(*exact), [], props, fn=fnq)
        return
    pa = single(paths, ctx, "C17/_get_contrastive_idxs/struct/straight_line", props, fnq)
    if pa is None:
        return
    ch = rec.get("choice", {})
    vm = rec.get("vmapped", {})
    ok_src = isinstance(ch.get("choices"), Deleted) and isinstance(vm.get("idxs"), ArangeV) and isinstance(vm.get("keys"), KeysV)
    ctx.oblige("C17/_get_contrastive_idxs/struct/pipeline", ok_src, [], props, kind="struct", fn=fnq, note="choices = delete(arange(batch), row); keys = split(key, batch)")
    if ok_src:
        d = ch["choices"]
        ctx.oblige("C17/_get_contrastive_idxs/post/candidates_are_the_other_rows", z3.And(d.n == B, lift(d.idx) == i, vm["idxs"].n == B, vm["keys"].n == B), pa.cond, props, fn=fnq)
        ctx.oblige("C17/_get_contrastive_idxs/post/one_subkey_per_row", ch["key"] == ("key_of_row", vm["keys"], i) and vm["keys"].k is key, [], props, kind="struct", fn=fnq)
        ctx.oblige("C17/_get_contrastive_idxs/post/distinct_without_replacement", ch.get("replace") is False, [], props, kind="struct", fn=fnq, note="jr.choice(replace=False): distinct elements of its argument (T3)")
        shp = ch.get("shape")
        ctx.oblige("C17/_get_contrastive_idxs/post/exactly_n_contrastive", (lift(shp[0]) == nc) if isinstance(shp, tuple) and len(shp) == 1 else z3.BoolVal(False), pa.cond, props, fn=fnq)
