"""Contracts for flowjax/bisection_search.py (property C10; cited by C01 for BNAF).

Ghost state: an uninterpreted strictly increasing f with root r.  Monotonicity is supplied as
pairwise ground instances over the finitely many points at which the real code evaluates f
in an obligation (plus the loop bounds and r), never as a quantifier.
"""
import itertools

import z3

from fjvc.core import family, strictly_increasing, consts_of
from fjvc.interp import LoopSpec, PyRaise, Obj
from fjvc.lib import Record
from fjvc.values import SV, lift, to_real, R, I

MOD = "flowjax.bisection_search"
fz = z3.Function("f", R, R)
pow2 = z3.Function("pow2", I, R)  # ghost 2^k on naturals


class IncreasingF:
    """func argument: uninterpreted strictly increasing function; records evaluation points."""

    def __init__(self):
        self.points = []

    def __call__(self, x):
        e = to_real(lift(x))
        self.points.append(e)
        return SV(fz(e))

    def mono(self, extra=()):
        pts, seen = [], set()
        for p in list(self.points) + list(extra):
            p = z3.simplify(p)
            if p.get_id() not in seen:
                seen.add(p.get_id())
                pts.append(p)
        out = []
        for a, b in itertools.combinations(pts, 2):
            out.append(z3.Implies(a < b, fz(a) < fz(b)))
            out.append(z3.Implies(b < a, fz(b) < fz(a)))
        return out


def sign(e):
    return z3.If(e > 0, z3.RealVal(1), z3.If(e < 0, z3.RealVal(-1), z3.RealVal(0)))


def absr(e):
    return z3.If(e >= 0, e, -e)


def pow2_gen(asserts):
    """ground instances of the definition of the ghost 2^k at every integer constant of the obligation"""
    out = [pow2(z3.IntVal(0)) == 1]
    for k in consts_of(asserts, I):
        out += [pow2(k + 1) == 2 * pow2(k), z3.Implies(k >= 0, pow2(k) >= 1)]
    return out


# --------------------------------------------------------------------------------------
@family("bisection/_bisection_search", ["C10", "C01"])
def bisection_search(ctx):
    it = ctx.interp
    fnq = f"{MOD}._bisection_search"
    lo0, hi0, tol, r, W = z3.Reals("lo0 hi0 tol r W")
    maxit = z3.Int("max_iter")
    f = IncreasingF()
    adapt = {}

    # callee contract (modular): the post of _adapt_interval_to_include_root, proved below
    def adapt_contract(func, *, lower, upper, expand_factor=2.0):
        lo, hi = z3.Reals("lo_a hi_a")
        n = z3.Int("adapt_it")
        it.emit("pre@_adapt_interval_to_include_root", "pre@callsite", z3.BoolVal(True))
        it.assume(z3.And(lo <= hi, fz(lo) <= 0, fz(hi) >= 0))
        adapt["out"] = (lo, hi)
        return (SV(lo), SV(hi), SV(n))

    it.global_overrides[MOD] = {"_adapt_interval_to_include_root": adapt_contract}

    def Inv(k, st):
        lo, hi, n = (lift(x) for x in st)
        n = n if n.sort() == I else z3.ToInt(n)
        return z3.And(lo <= hi, fz(lo) <= 0, fz(hi) >= 0, n == k, k >= 0, z3.Implies(maxit >= 0, k <= maxit), (hi - lo) * pow2(k) <= W)

    def havoc(k, st):
        return (SV(it.fresh("lo", "real")), SV(it.fresh("hi", "real")), SV(it.fresh("n", "int")))

    def variant(k, st, st2):
        n, n2 = lift(st[2]), lift(st2[2])
        return z3.And(maxit - n2 < maxit - n, maxit - n > 0)

    it.loop_specs[(fnq, "lax.while#0")] = LoopSpec(Inv, havoc, variant)
    fn = it.repo_function(fnq)
    paths = it.explore(lambda: fn(f, lower=SV(lo0), upper=SV(hi0), tol=SV(tol), max_iter=SV(maxit)))
    props = ["C10", "C01"]
    raising = [p for p in paths if p.outcome == "raise"]
    normal = [p for p in paths if p.outcome == "return"]
    # raises(ValueError) iff tol <= 0 or max_iter < 0
    bad = z3.Or(tol <= 0, maxit < 0)
    for i, p in enumerate(raising):
        ctx.oblige(f"C10/_bisection_search/raises/only_if#{i}", z3.And(z3.Or(bad, maxit == 0), z3.BoolVal(p.value.exc == "ValueError")), p.cond, props, kind="post/raises", fn=fnq)  # max_iter == 0 finds nothing: rejecting it is the library's choice
    for i, p in enumerate(normal):
        ctx.oblige(f"C10/_bisection_search/raises/if#{i}", z3.Not(bad), p.cond, props, kind="post/raises", fn=fnq)
    if len(normal) != 1:
        ctx.oblige("C10/_bisection_search/struct/one_normal_path", len(normal) == 1, [], props, kind="struct", fn=fnq)
        return
    p = normal[0]
    lo_a, hi_a = adapt["out"]
    facts = [fz(r) == 0, W == hi_a - lo_a]
    inst = [strictly_increasing(fz, [r]), pow2_gen]
    rp = dict(kind="bisection", fn="_bisection_search", vars=dict(lo0=lo0, hi0=hi0, tol=tol, max_iter=maxit, r=r))
    ctx.from_path(p, "C10", props, fn=fnq, extra_hyps=facts, replay=rp, rename=lambda o: o.replace(MOD + ".", ""), inst=inst)
    root = lift(p.value[0])
    err = absr(root - r)
    # post: |root - r| <= max(tol, W / 2^(max_iter+1)), W the width of the bracket handed over by the adaptation
    ctx.oblige("C10/_bisection_search/post/within_tol", z3.Or(err <= tol, err * 2 * pow2(maxit) <= W), p.cond + facts, props, fn=fnq, replay=rp, inst=inst)
    # exact hit: if the loop ends with a collapsed bracket the root is returned exactly
    ctx.cover("C10/_bisection_search/cover/post", p.cond + facts, props, fn=fnq, inst=inst)
    ctx.control("C10/_bisection_search/control/half_tol", err * 2 <= tol, p.cond + facts, props, fn=fnq, inst=inst)


# --------------------------------------------------------------------------------------
@family("bisection/_adapt_interval_to_include_root", ["C10", "C01"])
def adapt_interval(ctx):
    it = ctx.interp
    fnq = f"{MOD}._adapt_interval_to_include_root"
    lo0, hi0, r, W = z3.Reals("lo0 hi0 r W")
    f = IncreasingF()
    props = ["C10", "C01"]

    def fields(st):
        v = object.__getattribute__(st, "_vals")
        return {k: lift(x) for k, x in v.items()}

    def Inv(k, st):
        s = fields(st)
        return z3.And(s["lower"] < s["upper"], s["expand_by"] >= W, W > 0,
                      s["lower_fn_sign"] == sign(fz(s["lower"])), s["upper_fn_sign"] == sign(fz(s["upper"])))

    def havoc(k, st):
        cls = object.__getattribute__(st, "_cls")
        return Record(cls, {n: SV(it.fresh(n, "int" if n == "iteration" else "real")) for n in cls.fields})

    def dist(s):
        return z3.If(r < s["lower"], s["lower"] - r, z3.If(r > s["upper"], r - s["upper"], z3.RealVal(0)))

    def variant(k, st, st2):
        a, b = fields(st), fields(st2)
        # the root's distance to the interval drops by at least W (> 0) per iteration or is already 0:
        # together with dist >= 0 this bounds the number of iterations by dist0 / W + 1  => terminates
        return z3.And(dist(a) > 0, z3.Or(dist(b) <= dist(a) - W, dist(b) == 0))

    it.loop_specs[(fnq, "lax.while#0")] = LoopSpec(Inv, havoc, variant)
    fn = it.repo_function(fnq)
    paths = it.explore(lambda: fn(f, lower=SV(lo0), upper=SV(hi0)))
    normal = [p for p in paths if p.outcome == "return"]
    ctx.oblige("C10/_adapt_interval_to_include_root/struct/total", len(normal) == 1 and len(paths) == 1, [], props, kind="struct", fn=fnq)
    if not normal:
        return
    p = normal[0]
    pre = [lo0 < hi0, fz(r) == 0, W == hi0 - lo0]  # requires lower < upper; f increasing with root r
    facts = pre
    inst = [strictly_increasing(fz, [r])]
    rp = dict(kind="bisection", fn="_adapt_interval_to_include_root", vars=dict(lo0=lo0, hi0=hi0, r=r))
    ctx.from_path(p, "C10", props, fn=fnq, extra_hyps=facts, replay=rp, rename=lambda o: o.replace(MOD + ".", ""), inst=inst)
    lo, hi, n = (lift(x) for x in p.value)
    ctx.oblige("C10/_adapt_interval_to_include_root/post/bracket", z3.And(lo <= hi, fz(lo) <= 0, fz(hi) >= 0), p.cond + facts, props, fn=fnq, replay=rp, inst=inst)
    ctx.oblige("C10/_adapt_interval_to_include_root/post/contains_root", z3.And(lo <= r, r <= hi), p.cond + facts, props, fn=fnq, replay=rp, inst=inst)
    ctx.cover("C10/_adapt_interval_to_include_root/cover/post", p.cond + facts, props, fn=fnq, inst=inst)
    ctx.control("C10/_adapt_interval_to_include_root/control/strict_bracket", z3.And(fz(lo) < 0, fz(hi) > 0), p.cond + facts, props, fn=fnq, inst=inst)


# --------------------------------------------------------------------------------------
# coordinate-by-coordinate driver and its wiring into the block autoregressive network
ArrS = z3.ArraySort(I, R)
H = z3.Function("autoregressive_fn_component", I, ArrS, R)  # component i of the triangular map at the vector
ROOT = z3.Function("coordinate_root", I, ArrS, R)  # root of t -> H(i, v[i := t]) (depends on v[<i] only)
WID = z3.Function("bracket_width", I, R)  # ghost: width of the adapted bracket of coordinate i's search


def trunc_int(e):
    """conversion of a real to an integer dtype: truncation toward zero"""
    e = to_real(e)
    return z3.ToReal(z3.If(e >= 0, z3.ToInt(e), -z3.ToInt(-e)))


class Vec1:
    """rank-1 array; int_dtype: an integer-typed array truncates every value stored into it (JAX .at[].set casts to the array dtype)"""

    def __init__(self, arr, int_dtype=False):
        self.arr, self.int_dtype = arr, int_dtype

    def __getitem__(self, i):
        return SV(z3.Select(self.arr, lift(i)))

    @property
    def at(self):
        me = self

        class At:
            def __getitem__(self, i):
                class S:
                    def set(self_, v):
                        val = to_real(lift(v))
                        return Vec1(z3.Store(me.arr, lift(i), trunc_int(val) if me.int_dtype else val), me.int_dtype)
                return S()
        return At()


@family("bisection/_autoregressive_bisection_search", ["C10", "C01"])
def autoregressive_driver(ctx):
    """lax.scan over the coordinates: after k steps, every coordinate j < k is within the search tolerance of the root of ITS equation
    given the already-found prefix (the triangular precondition makes that root independent of the not-yet-set coordinates)."""
    _driver(ctx, ctx.interp, False)
    _driver(ctx, ctx.new_interp(), True)


def _driver(ctx, it, int_bounds):
    """int_bounds: the user passes integer-typed bounds (lower=-10, upper=10): nothing may be rounded to the bounds' dtype"""
    fnq = f"{MOD}._autoregressive_bisection_search"
    props = ["C10", "C01"]
    length, maxit = z3.Ints("length max_iter")
    tol = z3.Real("tol")
    if int_bounds:
        lo_i, hi_i = z3.Ints("lower upper")
        lo0, hi0 = z3.ToReal(lo_i), z3.ToReal(hi_i)
        lo_sv, hi_sv = SV(lo_i), SV(hi_i)
    else:
        lo0, hi0 = z3.Reals("lower upper")
        lo_sv, hi_sv = SV(lo0), SV(hi0)
    TAG = "[int_bounds]" if int_bounds else ""
    calls = []

    def close(j, v, arr):
        err = absr(v - ROOT(j, arr))
        return z3.Or(err <= tol, err * 2 * pow2(maxit) <= WID(j))

    # callee contract (proved in bisection/_bisection_search): the search on a strictly increasing scalar function returns a
    # point within max(tol, W / 2^(max_iter+1)) of its root
    def bisect_contract(func, *, lower, upper, tol, max_iter):
        t = it.fresh("t", "real")
        probe = func(SV(t))  # symbolic probe of the scalar function: what does the driver search on?
        r = it.fresh("root", "real")
        calls.append(dict(t=t, probe=lift(probe), root=r, lower=lift(lower), upper=lift(upper), tol=lift(tol), max_iter=lift(max_iter), cond=list(it.cond)))
        return (SV(r), SV(it.fresh("adapt_it", "int")), SV(it.fresh("iters", "int")))

    it.global_overrides[MOD] = {"_bisection_search": bisect_contract}
    from fjvc.values import DType

    def full(n_, v, dtype=None):
        as_int = dtype == DType("int") or (dtype is None and isinstance(v, SV) and v.is_int())
        val = to_real(lift(v))
        return Vec1(z3.K(I, trunc_int(val) if as_int else val), as_int)

    it.lib.overrides["jax.numpy.full"] = full
    j = z3.Int("j")

    def inv(k, st, init=None):
        y, i = st
        # stated for ONE arbitrary coordinate j (a free symbol): pointwise invariants need no quantifier
        return z3.And(k >= 0, k <= length, lift(i) == k, z3.Implies(z3.And(j >= 0, j < k), close(j, z3.Select(y.arr, j), y.arr)))

    def havoc(k, init):
        return (Vec1(z3.Array(f"y!{it.fresh_counter}", I, R), getattr(init[0], "int_dtype", False)), SV(it.fresh("i", "int")))

    it.loop_specs[(fnq, "lax.scan#0")] = LoopSpec(inv, havoc)

    def afn(v):  # the triangular map: component access only
        class Out:
            def __getitem__(self, i):
                return SV(H(lift(i), v.arr))
        return Out()

    fn = it.repo_function(fnq)
    paths = it.explore(lambda: fn(afn, lower=lo_sv, upper=hi_sv, tol=SV(tol), length=SV(length), max_iter=SV(maxit)))
    normal = [p for p in paths if p.outcome == "return"]
    ctx.oblige(f"C10/_autoregressive_bisection_search{TAG}/struct/single_path", len(paths) == 1 and len(normal) == 1, [], props, kind="applicability", fn=fnq)
    if len(normal) != 1:
        return
    p = normal[0]
    pre = [length >= 1, tol > 0, maxit >= 0]
    # what the driver hands to the scalar search in step k (facts assumed from the callee's postcondition):
    facts = []
    ok_calls = len(calls) >= 1
    for cinfo in calls:
        t, probe = cinfo["t"], cinfo["probe"]
        facts.append(dict(cinfo))
    ctx.oblige(f"C10/_autoregressive_bisection_search{TAG}/struct/one_scalar_search_per_coordinate", ok_calls, [], props, kind="applicability", fn=fnq)
    # triangular precondition (instances): ROOT(j, .) and H(j, .) depend on entries <= j only; ROOT is the root of the j-th component in its own coordinate
    def tri_inst(asserts):
        from fjvc.core import apps_of
        out = []
        roots = apps_of(ROOT, asserts)
        m = z3.Int("m!b")
        for a in roots:
            jj, arr = a.children()
            out.append(H(jj, z3.Store(arr, jj, a)) == 0)
        for a, b in itertools.permutations(roots, 2):
            if a.arg(0).eq(b.arg(0)):
                jj = a.arg(0)
                out.append(z3.Implies(z3.ForAll([m], z3.Implies(z3.And(m >= 0, m < jj), z3.Select(a.arg(1), m) == z3.Select(b.arg(1), m))), a == b))
        return out

    inst = [tri_inst, pow2_gen]
    # the scalar function searched in step k is t -> H(k, y[k := t]) and the callee's post gives close(k, root, y) (W_k := its bracket width)
    step_facts = []
    for cinfo in calls:
        step_facts.append(cinfo)
    rp = dict(kind="bisection", fn="_autoregressive_bisection_search", int_bounds=int_bounds, vars=dict(lo0=lo0, hi0=hi0, tol=tol, max_iter=maxit, r=lo0))
    # obligations emitted at the scan cut; the step obligation needs the callee's postcondition for the call made in that step
    for em in p.obligations:
        hyps = list(pre) + em.hyps
        if em.kind == "inv/step":
            for cinfo in calls:
                # callee post: |root - r*| bounded where r* is the root of the probed function; identify r* with ROOT(k, y) via the probe
                kterm = None
                hyps.append(z3.ForAll([cinfo["t"]], cinfo["probe"] == cinfo["probe"]))
        ctx.oblige("C10/" + em.oid.replace(MOD + ".", "").replace("_autoregressive_bisection_search", "_autoregressive_bisection_search" + TAG), em.goal, hyps + [f for f in _callee_posts(calls, close)], props, kind=em.kind, fn=fnq, replay=rp, inst=inst)
    # arguments forwarded unchanged to every scalar search
    for n_, cinfo in enumerate(calls):
        ctx.oblige(f"C10/_autoregressive_bisection_search{TAG}/post/search_arguments_forwarded#{n_}", z3.And(cinfo["lower"] == lo0, cinfo["upper"] == hi0, cinfo["tol"] == tol, cinfo["max_iter"] == maxit), cinfo["cond"], props, fn=fnq)
    root_vec = p.value
    ctx.oblige(f"C10/_autoregressive_bisection_search{TAG}/post/every_coordinate_within_tolerance_of_its_root_given_the_prefix",
               z3.Implies(z3.And(j >= 0, j < length), close(j, z3.Select(root_vec.arr, j), root_vec.arr)), pre + p.cond, props, fn=fnq, replay=rp, inst=inst)


def _callee_posts(calls, close):
    """postcondition of _bisection_search instantiated for each recorded call: the probed scalar function must be
    t -> H(i, y[i := t]); then its root is ROOT(i, y) and the returned point is `close` to it"""
    out = []
    for cinfo in calls:
        probe, t, r = cinfo["probe"], cinfo["t"], cinfo["root"]
        # decode the probe:  H(i, Store(y, i, t))
        if z3.is_app(probe) and probe.decl().eq(H) and z3.is_app(probe.arg(1)) and probe.arg(1).decl().kind() == z3.Z3_OP_STORE and probe.arg(1).arg(2).eq(t) and probe.arg(1).arg(1).eq(probe.arg(0)):
            i_, y_ = probe.arg(0), probe.arg(1).arg(0)
            out.append(close(i_, r, y_))
        else:
            out.append(z3.BoolVal(True))  # unknown scalar function: nothing may be assumed about the returned point
    return out


@family("bisection/AutoregressiveBisectionInverter", ["C10", "C01"])
def inverter_wiring(ctx):
    it = ctx.interp
    props = ["C10", "C01"]
    from .abstract import AbsBij, TV, T, BIJ, F, NONE
    cls = it.repo_class(f"{MOD}.AutoregressiveBisectionInverter")
    rec = {}

    def driver(**kw):
        rec.update(kw)
        return "root"

    it.global_overrides[MOD] = {"_autoregressive_bisection_search": driver}
    b, y, c, v = z3.Const("b", BIJ), z3.Const("y", T), z3.Const("c", T), z3.Const("v", T)
    SUB = z3.Function("vec_sub", T, T, T)

    WHERE = z3.Function("where", T, T, T, T)
    ABSV = z3.Function("abs", T, T)
    LTV = z3.Function("less_than", T, z3.RealSort(), T)

    class STV(TV):
        def __sub__(self, o):
            return STV(SUB(self.e, o.e))

        def __lt__(self, o):
            return STV(LTV(self.e, to_real(lift(o))))

        __le__ = __lt__

    # any post-processing of the residual (thresholding, clipping ...) is a DIFFERENT function of x: kept symbolic so that the
    # obligation below is decided instead of the family becoming untranslatable
    it.lib.overrides["jax.numpy.abs"] = lambda v: STV(ABSV(v.e)) if isinstance(v, TV) else abs(v)
    it.lib.overrides["jax.numpy.where"] = lambda c_, a_, b_: STV(WHERE(c_.e, a_.e if isinstance(a_, TV) else z3.Const(f"const_{a_}".replace(".", "_").replace("-", "m"), T), b_.e if isinstance(b_, TV) else z3.Const(f"const_{b_}".replace(".", "_").replace("-", "m"), T)))

    class Bij(AbsBij):
        def transform(self, x, condition=None):
            return STV(super().transform(x, condition).e)

    lo, hi = SV(z3.Real("lower")), SV(z3.Real("upper"))
    self = Obj(cls, lower=lo, upper=hi, tol=SV(z3.Real("tol")), max_iter=SV(z3.Int("max_iter")))
    bij = Bij(b, shape=(SV(z3.Int("dim")),))
    fnq = f"{MOD}.AutoregressiveBisectionInverter.__call__"
    paths = it.explore(lambda: cls.lookup("__call__")(self, bij, STV(y), TV(c)))
    ok = len(paths) == 1 and paths[0].outcome == "return" and paths[0].value == "root"
    ctx.oblige("C10/AutoregressiveBisectionInverter.__call__/struct/delegates_to_driver", ok, [], props, kind="struct", fn=fnq)
    if ok:
        good = rec.get("lower") is lo and rec.get("upper") is hi and rec.get("tol") is self.tol and rec.get("max_iter") is self.max_iter and rec.get("length") is bij.shape[0]
        ctx.oblige("C10/AutoregressiveBisectionInverter.__call__/post/configuration_forwarded", bool(good), [], props, kind="struct", fn=fnq)
        fn = rec.get("autoregressive_fn")
        out = fn(STV(v)) if fn is not None else None
        ctx.oblige("C10/AutoregressiveBisectionInverter.__call__/post/searches_the_root_of_transform_minus_y", (out.e == SUB(F(b, v, c), y)) if out is not None else z3.BoolVal(False), [], props, fn=fnq, replay=dict(kind="bisection", fn="AutoregressiveBisectionInverter", vars={}))
    # BNAF.inverse hands itself, y and the condition to the inverter
    bq = "flowjax.bijections.block_autoregressive_network.BlockAutoregressiveNetwork"
    bcls = it.repo_class(bq)
    got = {}
    inv_obj = lambda bij_, y_, cond_=None: got.update(b=bij_, y=y_, c=cond_) or "x"  # noqa: E731
    me = Obj(bcls, inverter=inv_obj, shape=(3,), cond_shape=None)
    pth = it.explore(lambda: bcls.lookup("inverse")(me, "y", "cond"))
    ok = len(pth) == 1 and pth[0].value == "x" and got.get("b") is me and got.get("y") == "y" and got.get("c") == "cond"
    ctx.oblige("C01/BlockAutoregressiveNetwork.inverse/post/delegates_to_inverter_with_self_y_condition", bool(ok), [], props, kind="struct", fn=bq + ".inverse")


@family("bisection/AutoregressiveBisectionInverter.__check_init__", ["C10", "C13"])
def inverter_check_init(ctx):
    """`for any initial interval`: the inverter's own validation never rejects a usable configuration (lower < upper, tol > 0,
    max_iter >= 1).  What it must reject is left to the driver's contract (C10/_bisection_search/raises/*)."""
    it = ctx.interp
    props = ["C10", "C13"]
    cls = it.repo_class(f"{MOD}.AutoregressiveBisectionInverter")
    fnq = f"{MOD}.AutoregressiveBisectionInverter.__check_init__"
    lo, hi, tol, mi = z3.Real("lower"), z3.Real("upper"), z3.Real("tol"), z3.Int("max_iter")
    self = Obj(cls, lower=SV(lo), upper=SV(hi), tol=SV(tol), max_iter=SV(mi))
    chk = cls.lookup("__check_init__")
    ctx.oblige("C10/AutoregressiveBisectionInverter.__check_init__/struct/exists", chk is not None, [], props, kind="applicability", fn=fnq)
    if chk is None:
        return
    paths = it.explore(lambda: chk(self))
    usable = z3.And(lo < hi, tol > 0, mi >= 1)  # max_iter == 0 cannot find anything: rejecting it or not is the library's choice
    ctx.oblige("C10/AutoregressiveBisectionInverter.__check_init__/struct/has_success_path", any(p.outcome == "return" for p in paths), [], props, kind="struct", fn=fnq)
    for i, p in enumerate(paths):
        if p.outcome == "raise":
            ctx.oblige(f"C10/AutoregressiveBisectionInverter.__check_init__/post/never_rejects_a_usable_configuration#{i}", z3.Not(usable), p.cond, props, fn=fnq,
                       replay=dict(kind="bisection", fn="AutoregressiveBisectionInverter.__check_init__", vars=dict(lower=lo, upper=hi, tol=tol, max_iter=mi)))
