"""Contracts for flowjax/bisection_search.py (property C10; cited by C01 for BNAF).

Ghost state: an uninterpreted strictly increasing f with root r.  Monotonicity is supplied as
pairwise ground instances over the finitely many points at which the real code evaluates f
in an obligation (plus the loop bounds and r), never as a quantifier.
"""
import itertools

import z3

from fjvc.core import family, strictly_increasing, consts_of
from fjvc.interp import LoopSpec, PyRaise
from fjvc.lib import Record
from fjvc.values import SV, lift, to_real, R, I

MOD = "flowjax.bisection_search"
fz = z3.Function("f", R, R)
pow2 = z3.Function("pow2", I, R)  # ghost 2^k on naturals


class IncreasingF:
    """func argument: uninterpreted strictly increasing function; records evaluation points."""

    def __init__(self):
        self.points = []

    def __call__(self, x):
        e = to_real(lift(x))
        self.points.append(e)
        return SV(fz(e))

    def mono(self, extra=()):
        pts, seen = [], set()
        for p in list(self.points) + list(extra):
            p = z3.simplify(p)
            if p.get_id() not in seen:
                seen.add(p.get_id())
                pts.append(p)
        out = []
        for a, b in itertools.combinations(pts, 2):
            out.append(z3.Implies(a < b, fz(a) < fz(b)))
            out.append(z3.Implies(b < a, fz(b) < fz(a)))
        return out


def sign(e):
    return z3.If(e > 0, z3.RealVal(1), z3.If(e < 0, z3.RealVal(-1), z3.RealVal(0)))


def absr(e):
    return z3.If(e >= 0, e, -e)


def pow2_gen(asserts):
    """ground instances of the definition of the ghost 2^k at every integer constant of the obligation"""
    out = [pow2(z3.IntVal(0)) == 1]
    for k in consts_of(asserts, I):
        out += [pow2(k + 1) == 2 * pow2(k), z3.Implies(k >= 0, pow2(k) >= 1)]
    return out


# --------------------------------------------------------------------------------------
@family("bisection/_bisection_search", ["C10", "C01"])
def bisection_search(ctx):
    it = ctx.interp
    fnq = f"{MOD}._bisection_search"
    lo0, hi0, tol, r, W = z3.Reals("lo0 hi0 tol r W")
    maxit = z3.Int("max_iter")
    f = IncreasingF()
    adapt = {}

    # callee contract (modular): the post of _adapt_interval_to_include_root, proved below
    def adapt_contract(func, *, lower, upper, expand_factor=2.0):
        lo, hi = z3.Reals("lo_a hi_a")
        n = z3.Int("adapt_it")
        it.emit("pre@_adapt_interval_to_include_root", "pre@callsite", z3.BoolVal(True))
        it.assume(z3.And(lo <= hi, fz(lo) <= 0, fz(hi) >= 0))
        adapt["out"] = (lo, hi)
        return (SV(lo), SV(hi), SV(n))

    it.global_overrides[MOD] = {"_adapt_interval_to_include_root": adapt_contract}

    def Inv(k, st):
        lo, hi, n = (lift(x) for x in st)
        n = n if n.sort() == I else z3.ToInt(n)
        return z3.And(lo <= hi, fz(lo) <= 0, fz(hi) >= 0, n == k, k >= 0, z3.Implies(maxit >= 0, k <= maxit), (hi - lo) * pow2(k) <= W)

    def havoc(k, st):
        return (SV(it.fresh("lo", "real")), SV(it.fresh("hi", "real")), SV(it.fresh("n", "int")))

    def variant(k, st, st2):
        n, n2 = lift(st[2]), lift(st2[2])
        return z3.And(maxit - n2 < maxit - n, maxit - n > 0)

    it.loop_specs[(fnq, "lax.while#0")] = LoopSpec(Inv, havoc, variant)
    fn = it.repo_function(fnq)
    paths = it.explore(lambda: fn(f, lower=SV(lo0), upper=SV(hi0), tol=SV(tol), max_iter=SV(maxit)))
    props = ["C10", "C01"]
    raising = [p for p in paths if p.outcome == "raise"]
    normal = [p for p in paths if p.outcome == "return"]
    # raises(ValueError) iff tol <= 0 or max_iter < 0
    bad = z3.Or(tol <= 0, maxit < 0)
    for i, p in enumerate(raising):
        ctx.oblige(f"C10/_bisection_search/raises/only_if#{i}", z3.And(bad, z3.BoolVal(p.value.exc == "ValueError")), p.cond, props, kind="post/raises", fn=fnq)
    for i, p in enumerate(normal):
        ctx.oblige(f"C10/_bisection_search/raises/if#{i}", z3.Not(bad), p.cond, props, kind="post/raises", fn=fnq)
    if len(normal) != 1:
        ctx.oblige("C10/_bisection_search/struct/one_normal_path", len(normal) == 1, [], props, kind="struct", fn=fnq)
        return
    p = normal[0]
    lo_a, hi_a = adapt["out"]
    facts = [fz(r) == 0, W == hi_a - lo_a]
    inst = [strictly_increasing(fz, [r]), pow2_gen]
    rp = dict(kind="bisection", fn="_bisection_search", vars=dict(lo0=lo0, hi0=hi0, tol=tol, max_iter=maxit, r=r))
    ctx.from_path(p, "C10", props, fn=fnq, extra_hyps=facts, replay=rp, rename=lambda o: o.replace(MOD + ".", ""), inst=inst)
    root = lift(p.value[0])
    err = absr(root - r)
    # post: |root - r| <= max(tol, W / 2^(max_iter+1)), W the width of the bracket handed over by the adaptation
    ctx.oblige("C10/_bisection_search/post/within_tol", z3.Or(err <= tol, err * 2 * pow2(maxit) <= W), p.cond + facts, props, fn=fnq, replay=rp, inst=inst)
    # exact hit: if the loop ends with a collapsed bracket the root is returned exactly
    ctx.cover("C10/_bisection_search/cover/post", p.cond + facts, props, fn=fnq, inst=inst)
    ctx.control("C10/_bisection_search/control/half_tol", err * 2 <= tol, p.cond + facts, props, fn=fnq, inst=inst)


# --------------------------------------------------------------------------------------
@family("bisection/_adapt_interval_to_include_root", ["C10", "C01"])
def adapt_interval(ctx):
    it = ctx.interp
    fnq = f"{MOD}._adapt_interval_to_include_root"
    lo0, hi0, r, W = z3.Reals("lo0 hi0 r W")
    f = IncreasingF()
    props = ["C10", "C01"]

    def fields(st):
        v = object.__getattribute__(st, "_vals")
        return {k: lift(x) for k, x in v.items()}

    def Inv(k, st):
        s = fields(st)
        return z3.And(s["lower"] < s["upper"], s["expand_by"] >= W, W > 0,
                      s["lower_fn_sign"] == sign(fz(s["lower"])), s["upper_fn_sign"] == sign(fz(s["upper"])))

    def havoc(k, st):
        cls = object.__getattribute__(st, "_cls")
        return Record(cls, {n: SV(it.fresh(n, "int" if n == "iteration" else "real")) for n in cls.fields})

    def dist(s):
        return z3.If(r < s["lower"], s["lower"] - r, z3.If(r > s["upper"], r - s["upper"], z3.RealVal(0)))

    def variant(k, st, st2):
        a, b = fields(st), fields(st2)
        # the root's distance to the interval drops by at least W (> 0) per iteration or is already 0:
        # together with dist >= 0 this bounds the number of iterations by dist0 / W + 1  => terminates
        return z3.And(dist(a) > 0, z3.Or(dist(b) <= dist(a) - W, dist(b) == 0))

    it.loop_specs[(fnq, "lax.while#0")] = LoopSpec(Inv, havoc, variant)
    fn = it.repo_function(fnq)
    paths = it.explore(lambda: fn(f, lower=SV(lo0), upper=SV(hi0)))
    normal = [p for p in paths if p.outcome == "return"]
    ctx.oblige("C10/_adapt_interval_to_include_root/struct/total", len(normal) == 1 and len(paths) == 1, [], props, kind="struct", fn=fnq)
    if not normal:
        return
    p = normal[0]
    pre = [lo0 < hi0, fz(r) == 0, W == hi0 - lo0]  # requires lower < upper; f increasing with root r
    facts = pre
    inst = [strictly_increasing(fz, [r])]
    rp = dict(kind="bisection", fn="_adapt_interval_to_include_root", vars=dict(lo0=lo0, hi0=hi0, r=r))
    ctx.from_path(p, "C10", props, fn=fnq, extra_hyps=facts, replay=rp, rename=lambda o: o.replace(MOD + ".", ""), inst=inst)
    lo, hi, n = (lift(x) for x in p.value)
    ctx.oblige("C10/_adapt_interval_to_include_root/post/bracket", z3.And(lo <= hi, fz(lo) <= 0, fz(hi) >= 0), p.cond + facts, props, fn=fnq, replay=rp, inst=inst)
    ctx.oblige("C10/_adapt_interval_to_include_root/post/contains_root", z3.And(lo <= r, r <= hi), p.cond + facts, props, fn=fnq, replay=rp, inst=inst)
    ctx.cover("C10/_adapt_interval_to_include_root/cover/post", p.cond + facts, props, fn=fnq, inst=inst)
    ctx.control("C10/_adapt_interval_to_include_root/control/strict_bracket", z3.And(fz(lo) < 0, fz(hi) > 0), p.cond + facts, props, fn=fnq, inst=inst)
