"""C15: fit_to_data never loses, duplicates or misaligns data (row provenance through permute / slice / reshape).

A dataset array is modelled by its length and a provenance map  position -> original row index.  jr.permutation is the T3
contract  out[i] = a[PERM(key, n, i)]  with PERM(key, n, .) a bijection of [0, n) (PINV its inverse); keys form a free
algebra: child(k, n, i) is injective and one level deeper than k (ghost depth).
"""
import itertools

import z3

from fjvc.core import family, apps_of
from fjvc.interp import LoopSpec, Env, PyRaise
from fjvc.lib import TypeMarker
from fjvc.values import SV, SymSeq, SymList, Opaque, lift, to_real, I, R

KEY = z3.DeclareSort("PRNGKey")
PERM = z3.Function("PERM", KEY, I, I, I)
PINV = z3.Function("PINV", KEY, I, I, I)
child = z3.Function("child", KEY, I, I, KEY)
depth = z3.Function("depth", KEY, I)
MOD_U = "flowjax.train.train_utils"
MOD_F = "flowjax.train.data_fit"


class Key:
    def __init__(self, e):
        self.e = e


class DataArr:
    """rows of a dataset: length n (z3 Int), prov(i) = original row index of the row at position i, tag = which dataset"""

    def __init__(self, n, prov, tag, rest=(3,)):
        self.n, self.prov, self.tag, self.rest = n, prov, tag, rest

    @property
    def shape(self):
        return (SV(self.n),) + tuple(self.rest)

    def __getitem__(self, s):
        if isinstance(s, slice) and s.step is None:
            for bnd in (s.start, s.stop):
                if bnd is not None and not isinstance(bnd, int) and lift(bnd).sort() != I:
                    raise PyRaise("TypeError", "slice indices must be integers")  # e.g. a true division in a slice bound
            lo = z3.IntVal(0) if s.start is None else clampi(lift(s.start), self.n)
            hi = self.n if s.stop is None else clampi(lift(s.stop), self.n)
            return DataArr(z3.If(hi > lo, hi - lo, z3.IntVal(0)), lambda i, lo=lo: self.prov(i + lo), self.tag, self.rest)
        raise TypeError("row indexing of DataArr")

    def reshape(self, *shape):
        if len(shape) == 1 and isinstance(shape[0], (tuple, list)):
            shape = tuple(shape[0])  # arr.reshape((a, b, ...)) and arr.reshape(a, b, ...) are the same call
        nb, bs = shape[0], shape[1]
        from fjvc import values as _V
        it_ = _V.cur()
        if it_ is not None:
            # reshape requires the same number of rows (otherwise JAX raises): an obligation at the call site
            it_.emit("reshape/requires/same_number_of_rows", "pre", self.n == lift(nb) * lift(bs))
        return Batched(lift(nb), lift(bs), self)


def clampi(e, n):
    e = z3.If(e < 0, e + n, e)
    return z3.If(e < 0, z3.IntVal(0), z3.If(e > n, n, e))


class Batched:
    def __init__(self, nb, bs, base):
        self.nb, self.bs, self.base = nb, bs, base

    def sym_len(self):
        return SV(self.nb)

    def batch(self, k):
        return Batch(self, k)


class Batch:
    def __init__(self, parent, k):
        self.parent, self.k = parent, k

    def row(self, j):
        p = self.parent
        return p.base.prov(self.k * p.bs + j)


def perm_facts(asserts):
    """bijection facts of PERM / PINV at the ground index terms of the obligation"""
    out = []
    apps = apps_of(PERM, asserts)
    for a in apps:
        k, n, i = a.children()
        out += [z3.Implies(z3.And(i >= 0, i < n), z3.And(a >= 0, a < n, PINV(k, n, a) == i))]
    for a, b in itertools.combinations(apps, 2):
        if a.arg(0).eq(b.arg(0)) and a.arg(1).eq(b.arg(1)):
            out.append(z3.Implies(a == b, a.arg(2) == b.arg(2)))
    for a in apps_of(PINV, asserts):
        k, n, j = a.children()
        out += [z3.Implies(z3.And(j >= 0, j < n), z3.And(a >= 0, a < n, PERM(k, n, a) == j))]
    return out


def key_facts(asserts):
    out = []
    apps = apps_of(child, asserts)
    for a in apps:
        out.append(depth(a) == depth(a.arg(0)) + 1)
    for a, b in itertools.combinations(apps, 2):
        out.append(z3.Implies(a == b, z3.And(a.arg(0) == b.arg(0), a.arg(1) == b.arg(1), a.arg(2) == b.arg(2))))
    return out


def _sat(fs):
    s = z3.Solver()
    s.set("timeout", 3000)
    s.add(*fs)
    return s.check() == z3.sat


def install_lib(it):
    lib = it.lib.overrides

    def permutation(key, a, **kw):
        if isinstance(a, DataArr):
            return DataArr(a.n, lambda i: a.prov(PERM(key.e, a.n, i)), a.tag, a.rest)
        raise TypeError("permutation of a non-dataset value")

    def split(key, n=2):
        if isinstance(n, int):
            return tuple(Key(child(key.e, z3.IntVal(n), z3.IntVal(i))) for i in range(n))
        raise TypeError("symbolic split count")

    def resize(a, new_shape):
        """numpy/jax resize: the flattened array is repeated cyclically (or truncated) to fill the new shape"""
        if isinstance(a, DataArr) and isinstance(new_shape, (tuple, list)) and len(new_shape) >= 2:
            nb, bs = lift(new_shape[0]), lift(new_shape[1])
            cyc = DataArr(nb * bs, lambda i: a.prov(i % a.n), a.tag, a.rest)
            return Batched(nb, bs, cyc)
        raise TypeError("resize of a non-dataset value")

    lib["jax.numpy.resize"] = resize
    lib["jax.random.permutation"] = permutation
    lib["jax.random.split"] = split
    lib["jaxtyping.Shaped"] = TypeMarker("Shaped", check=lambda v: isinstance(v, DataArr))
    lib["jaxtyping.Array"] = TypeMarker("Array", check=lambda v: isinstance(v, DataArr))
    lib["jax.numpy.asarray"] = lambda a, *r, **k: a


# --------------------------------------------------------------------------------------
@family("datafit/train_val_split", ["C15"])
def train_val_split(ctx):
    it = ctx.interp
    install_lib(it)
    fnq = f"{MOD_U}.train_val_split"
    n, j = z3.Ints("n j")
    p = z3.Real("val_prop")
    key = z3.Const("key", KEY)
    X = DataArr(n, lambda i: i, "x")
    C = DataArr(n, lambda i: i, "condition")
    fn = it.repo_function(fnq)
    paths = it.explore(lambda: fn(Key(key), [X, C], val_prop=SV(p)))
    props = ["C15"]
    pre = [n >= 2]
    inst = [perm_facts]
    rp = dict(kind="train_val_split", vars=dict(n=n, val_prop=p))
    valid = z3.And(p >= 0, p <= 1)
    for i, pa in enumerate(paths):
        if pa.outcome == "raise":
            ctx.oblige(f"C15/train_val_split/post/raises_only_if#{i}", z3.And(z3.Not(valid), z3.BoolVal(pa.value.exc == "ValueError")), pre + pa.cond, props, fn=fnq, replay=rp)
            continue
        tr, va = pa.value
        hyp = pre + pa.cond + [valid]
        ntr, nva = tr[0].n, va[0].n
        # sizes: n_train = n - round(val_prop * n) (documented), both parts together are the dataset
        ctx.oblige(f"C15/train_val_split/post/sizes#{i}", z3.And(ntr + nva == n, ntr >= 0, nva >= 0, tr[1].n == ntr, va[1].n == nva), hyp, props, fn=fnq, replay=rp)
        nround = z3.Int("rnd")
        ctx.oblige(f"C15/train_val_split/post/n_val_is_rounded_proportion#{i}", z3.And(to_real(nva) >= p * n - z3.RealVal("1/2"), to_real(nva) <= p * n + z3.RealVal("1/2")), hyp, props, fn=fnq, replay=rp)
        # partition: every original row j is in exactly one part (witness position from the inverse permutation)
        w = PINV(key, n, j)
        # membership needs SOME position; candidates: the row's position in the shuffled array, offset by either part's length
        # (which part comes first in the shuffled array is an implementation choice)
        def member(part, cnt):
            return z3.Or(*[z3.And(c_ >= 0, c_ < cnt, part[0].prov(c_) == j) for c_ in (w, w - ntr, w - nva)])
        ctx.oblige(f"C15/train_val_split/post/every_row_in_a_part#{i}", z3.Or(member(tr, ntr), member(va, nva)), hyp + [j >= 0, j < n], props, fn=fnq, replay=rp, inst=inst)
        a, b = z3.Ints("a b")
        ctx.oblige(f"C15/train_val_split/post/parts_disjoint#{i}", tr[0].prov(a) != va[0].prov(b), hyp + [a >= 0, a < ntr, b >= 0, b < nva], props, fn=fnq, replay=rp, inst=inst)
        ctx.oblige(f"C15/train_val_split/post/no_duplicates_within_train#{i}", tr[0].prov(a) != tr[0].prov(b), hyp + [a >= 0, a < ntr, b >= 0, b < ntr, a != b], props, fn=fnq, replay=rp, inst=inst)
        ctx.oblige(f"C15/train_val_split/post/no_duplicates_within_val#{i}", va[0].prov(a) != va[0].prov(b), hyp + [a >= 0, a < nva, b >= 0, b < nva, a != b], props, fn=fnq, replay=rp, inst=inst)
        # alignment: x and condition rows at the same position come from the same original row
        ctx.oblige(f"C15/train_val_split/post/aligned#{i}", z3.And(z3.Implies(z3.And(a >= 0, a < ntr), tr[0].prov(a) == tr[1].prov(a)), z3.Implies(z3.And(a >= 0, a < nva), va[0].prov(a) == va[1].prov(a))), hyp, props, fn=fnq, replay=rp, inst=inst)
        ctx.oblige(f"C15/train_val_split/post/rows_in_range#{i}", z3.And(tr[0].prov(a) >= 0, tr[0].prov(a) < n), hyp + [a >= 0, a < ntr], props, fn=fnq, replay=rp, inst=inst)
        ctx.cover(f"C15/train_val_split/cover#{i}", hyp + [n == 10, p == z3.RealVal("1/4")], props, fn=fnq, inst=inst)
        ctx.control(f"C15/train_val_split/control/identity_split#{i}", tr[0].prov(a) == a, hyp + [a >= 0, a < ntr, ntr >= 2], props, fn=fnq, inst=inst)


# --------------------------------------------------------------------------------------
@family("datafit/get_batches", ["C15"])
def get_batches(ctx):
    it = ctx.interp
    install_lib(it)
    fnq = f"{MOD_U}.get_batches"
    n, bs = z3.Ints("n batch_size")
    X = DataArr(n, lambda i: i, "x")
    C = DataArr(n, lambda i: i, "condition")
    fn = it.repo_function(fnq)
    paths = it.explore(lambda: fn([X, C], SV(bs)))
    props = ["C15"]
    pre = [n >= 1, bs >= 1]
    rp = dict(kind="get_batches", vars=dict(n=n, batch_size=bs))
    ok = [p for p in paths if p.outcome == "return"]
    ctx.oblige("C15/get_batches/struct/returns", len(ok) >= 1, [], props, kind="struct", fn=fnq)
    for i, pa in enumerate(paths):
        if pa.outcome == "raise":
            ctx.oblige(f"C15/get_batches/post/no_exception#{i}", z3.BoolVal(False), pre + pa.cond, props, fn=fnq, replay=rp, note=f"raises {pa.value.exc}")
            continue
        bx, bc = pa.value
        hyp = pre + pa.cond
        k1, j1, k2, j2 = z3.Ints("k1 j1 k2 j2")
        ebs = bx.bs  # effective batch size
        in1 = z3.And(k1 >= 0, k1 < bx.nb, j1 >= 0, j1 < ebs)
        in2 = z3.And(k2 >= 0, k2 < bx.nb, j2 >= 0, j2 < ebs)
        ctx.oblige(f"C15/get_batches/post/clamped_batch_size#{i}", z3.And(ebs == z3.If(bs < n, bs, n), ebs >= 1, bc.nb == bx.nb, bc.bs == ebs), hyp, props, fn=fnq, replay=rp)
        ctx.oblige(f"C15/get_batches/post/each_row_at_most_once#{i}", z3.Implies(bx.batch(k1).row(j1) == bx.batch(k2).row(j2), z3.And(k1 == k2, j1 == j2)), hyp + [in1, in2], props, fn=fnq, replay=rp)
        ctx.oblige(f"C15/get_batches/post/rows_in_range#{i}", z3.And(bx.batch(k1).row(j1) >= 0, bx.batch(k1).row(j1) < n), hyp + [in1], props, fn=fnq, replay=rp)
        # only a trailing remainder smaller than one batch is skipped: the used positions are exactly [0, nb*bs)
        pos = z3.Int("pos")
        ctx.oblige(f"C15/get_batches/post/only_trailing_remainder_skipped#{i}", z3.And(n - bx.nb * ebs >= 0, n - bx.nb * ebs < ebs,
                   z3.Implies(z3.And(pos >= 0, pos < bx.nb * ebs), bx.batch(pos / ebs).row(pos % ebs) == pos)), hyp, props, fn=fnq, replay=rp)
        ctx.oblige(f"C15/get_batches/post/aligned#{i}", bx.batch(k1).row(j1) == bc.batch(k1).row(j1), hyp + [in1], props, fn=fnq, replay=rp)
        ctx.cover(f"C15/get_batches/cover#{i}", hyp, props, fn=fnq)
        if _sat(hyp + [n == 7, bs == 3]):
            ctx.control(f"C15/get_batches/control/all_rows_used#{i}", bx.nb * ebs == n, hyp, props, fn=fnq)


# --------------------------------------------------------------------------------------
class BatchedSeq(SymSeq):
    """get_batches' result for one array, iterable batch by batch (zip(*get_batches(...)))"""

    def __init__(self, b):
        super().__init__(b.nb, lambda k: b.batch(k), "batch")
        self.b = b


@family("datafit/fit_to_data_loops", ["C15"])
def fit_to_data_loops(ctx):
    """the real epoch / batch loops with row provenance and a ghost clock for PRNG keys:
    every call of step / loss_fn pairs x rows with their own condition rows, gradient steps only see training rows, and the key
    handed over is strictly 'newer' (deeper in the split tree) than every key handed out before (fresh), all derived from `key`."""
    it = ctx.interp
    install_lib(it)
    MOD = MOD_F
    fnq = f"{MOD}.fit_to_data"
    props = ["C15"]
    n, bs, me, mp = z3.Ints("n batch_size max_epochs max_patience")
    p_ = z3.Real("val_prop")
    key0 = z3.Const("key", KEY)
    ghost = {"last": depth(key0)}
    jj = z3.Int("j_in_batch")
    emitted = []
    inst = [perm_facts, key_facts]

    def check_call(kind, batch, key, allowed_tag):
        xb, cb = batch
        ebs = xb.parent.bs
        hyp = [jj >= 0, jj < ebs]
        it.emit(f"call/{kind}/aligned", "post", xb.row(jj) == cb.row(jj), hyp)
        it.emit(f"call/{kind}/rows_from_{allowed_tag}_part_only", "post", z3.BoolVal(xb.parent.base.tag == (allowed_tag, "x") and cb.parent.base.tag == (allowed_tag, "condition")))
        it.emit(f"call/{kind}/fresh_key", "post", depth(key.e) > ghost["last"])
        ghost["last"] = depth(key.e)

    def step(params, static, *batch, optimizer=None, opt_state=None, loss_fn=None, key=None):
        check_call("step", batch, key, "train")
        return Opaque("params"), Opaque("opt_state"), SV(it.fresh("loss", "real"))

    class LossFn:
        def __call__(self, params, static, *batch, key=None):
            check_call("validation_loss", batch, key, "val")
            return SV(it.fresh("val_loss", "real"))

    menv = it.module_env(MOD_U)
    from fjvc.interp import find_def
    real_split = it.make_function(find_def(menv.tree, "train_val_split"), menv, f"{MOD_U}.train_val_split")
    real_batches = it.make_function(find_def(menv.tree, "get_batches"), menv, f"{MOD_U}.get_batches")

    def split_wrapper(key, arrays, val_prop=0.1):
        tr, va = real_split(key, arrays, val_prop=val_prop)
        for part, tag in ((tr, "train"), (va, "val")):
            for a in part:
                a.tag = (tag, a.tag)
        return tr, va

    def batches_wrapper(arrays, batch_size):
        out = real_batches(arrays, batch_size)
        return tuple(BatchedSeq(b) for b in out)

    it.global_overrides[MOD] = {"step": step, "train_val_split": split_wrapper, "get_batches": batches_wrapper}
    it.lib.overrides.update({"optax.adam": lambda lr: Opaque("adam"), "equinox.partition": lambda *a, **k: (Opaque("params"), Opaque("static")), "equinox.combine": lambda p, s: Opaque("dist"),
                             "equinox.is_inexact_array": "f", "jax.numpy.array": lambda a, *r, **k: SymList.of(a) if isinstance(a, (SymList, list)) else a, "jax.numpy.argmin": lambda a, **k: SymList.of(a).argmin()})

    class Tq(SymSeq):
        postfix = ""

        def set_postfix(self, *a, **k):
            pass

        def set_postfix_str(self, *a, **k):
            pass

    it.lib.overrides["tqdm.tqdm"] = lambda seq, **k: Tq(seq.length, seq._at, seq.elem)
    q = z3.Int("q!b")
    q2 = z3.Int("q2!b")
    cnt = [0]

    def fresh_data(like, who):
        """arbitrary re-shuffling history: an uninterpreted provenance map per array, constrained by the invariant"""
        cnt[0] += 1
        out = []
        for a in like:
            Mf = z3.Function(f"prov_{who}_{a.tag[1]}_{cnt[0]}", I, I)
            out.append(DataArr(a.n, (lambda i, Mf=Mf: Mf(i)), a.tag, a.rest))
        return out

    def data_inv(arrs):
        xa, ca = arrs
        return z3.And(xa.n == ca.n, z3.ForAll([q], z3.Implies(z3.And(q >= 0, q < xa.n), xa.prov(q) == ca.prov(q))),
                      z3.ForAll([q, q2], z3.Implies(z3.And(q >= 0, q2 >= 0, q < xa.n, q2 < xa.n, q != q2), xa.prov(q) != xa.prov(q2))))

    def outer_inv(e, env, entry=None):
        return z3.And(e >= 0, ghost["last"] <= depth(env["key"].e), data_inv(env["train_data"]), data_inv(env["val_data"]),
                      z3.BoolVal(all(a.tag[0] == "train" for a in env["train_data"]) and all(a.tag[0] == "val" for a in env["val_data"])),
                      env["train_data"][0].n == entry["train_data"][0].n if entry else z3.BoolVal(True), env["val_data"][0].n == entry["val_data"][0].n if entry else z3.BoolVal(True))

    def havoc_outer(e, env):
        h = Env(env.parent)
        h.update(env)
        h["key"] = Key(z3.Const(f"key!{it.fresh('c', 'int')}", KEY))
        ghost["last"] = it.fresh("last", "int")
        h["train_data"] = fresh_data(env["train_data"], "train")
        h["val_data"] = fresh_data(env["val_data"], "val")
        c_ = it.fresh_counter
        h["losses"] = {"train": SymList(it.fresh("n_tr", "int"), z3.Array(f"train!{c_}", I, R)), "val": SymList(it.fresh("n_va", "int"), z3.Array(f"val!{c_}", I, R))}
        for name in ("params", "opt_state", "subkey", "subkeys", "batch_losses", "loss_i", "batch", "best_params", "_"):
            h[name] = Key(z3.Const(f"{name}!{it.fresh('c', 'int')}", KEY)) if isinstance(env.get(name), Key) else Opaque(name)
        return h

    def inner_inv(b, env, entry=None):
        return z3.And(b >= 0, ghost["last"] <= depth(env["key"].e))

    def havoc_inner(b, env):
        h = Env(env.parent)
        h.update(env)
        h["key"] = Key(z3.Const(f"key!{it.fresh('c', 'int')}", KEY))
        ghost["last"] = it.fresh("last", "int")
        h["batch_losses"] = SymList(it.fresh("n_bl", "int"), z3.Array(f"bl!{it.fresh_counter}", I, R))
        for name in ("params", "opt_state", "subkey", "loss_i", "batch"):
            h[name] = Key(z3.Const(f"{name}!{it.fresh('c', 'int')}", KEY)) if isinstance(env.get(name), Key) else Opaque(name)
        return h

    it.loop_specs[(fnq, "for#0")] = LoopSpec(outer_inv, havoc_outer, break_inv=lambda e, env, entry=None: z3.BoolVal(True))
    it.loop_specs[(fnq, "for#1")] = LoopSpec(inner_inv, havoc_inner, name="inv_train")
    it.loop_specs[(fnq, "for#2")] = LoopSpec(inner_inv, havoc_inner, name="inv_val")
    X = DataArr(n, lambda i: i, "x")
    C = DataArr(n, lambda i: i, "condition")
    fn = it.repo_function(fnq)
    def run_once():
        ghost["last"] = depth(key0)  # the ghost clock restarts with every explored path
        return fn(Key(key0), Opaque("dist"), X, condition=C, loss_fn=LossFn(), max_epochs=SV(me), max_patience=SV(mp), batch_size=SV(bs), val_prop=SV(p_),
                  optimizer=Opaque("opt"), return_best=False, show_progress=False)

    paths = it.explore(run_once, max_paths=64)
    kq, nq, iq = z3.Const("k!b", KEY), z3.Int("n!b"), z3.Int("i!b")
    t3 = [z3.ForAll([kq, nq, iq], z3.Implies(z3.And(iq >= 0, iq < nq), z3.And(PERM(kq, nq, iq) >= 0, PERM(kq, nq, iq) < nq, PINV(kq, nq, PERM(kq, nq, iq)) == iq)), patterns=[PERM(kq, nq, iq)]),
          z3.ForAll([kq, nq, iq], depth(child(kq, nq, iq)) == depth(kq) + 1, patterns=[child(kq, nq, iq)])]  # T3 contracts of jr.permutation / jr.split, quantified form
    pre = [n >= 2, bs >= 1, p_ > 0, p_ < 1, me >= 0, mp >= 0]

    def has_quant(e, seen_=None):
        seen_ = set() if seen_ is None else seen_
        if e.get_id() in seen_:
            return False
        seen_.add(e.get_id())
        return z3.is_quantifier(e) or any(has_quant(c, seen_) for c in e.children())

    normal = [p for p in paths if p.outcome == "return"]
    ctx.oblige("C15/fit_to_data/struct/returns", len(normal) >= 1, [], props, kind="struct", fn=fnq)
    seen = set()
    rp = dict(kind="fit_rows", vars={})
    for p in paths:
        for em in p.obligations:
            sig = (em.oid, em.goal.get_id() if hasattr(em.goal, 'get_id') else str(em.goal), tuple(h.get_id() for h in em.hyps))
            if sig in seen:
                continue
            seen.add(sig)
            nm = em.oid.replace(MOD + ".", "")
            parts = em.goal.children() if z3.is_and(em.goal) and "/inv" in nm else [em.goal]
            for ci, g_ in enumerate(parts):
                if z3.is_true(g_):
                    continue
                ctx.oblige(f"C15/fit_to_data/{nm}" + (f"/c{ci}" if len(parts) > 1 else ""), g_, pre + (t3 if has_quant(g_) else []) + em.hyps, props, kind=em.kind, fn=fnq, replay=rp, inst=inst)  # quantified goals (data_inv) need the quantified T3 form; the rest use ground instances (inst)
    ctx.oblige("C15/fit_to_data/struct/both_call_sites_reached", any("call/step/" in s_[0] for s_ in seen) and any("call/validation_loss/" in s_[0] for s_ in seen), [], props, kind="struct", fn=fnq)
    # determinism: no other source of randomness than `key` (no PRNGKey / key / seed construction, no numpy / python random)
    import ast as _ast
    node = find_def(it.module_env(MOD).tree, "fit_to_data")
    srcs = [_ast.unparse(c.func) for c in _ast.walk(node) if isinstance(c, _ast.Call)]
    bad = [s_ for s_ in srcs if any(t in s_ for t in ("PRNGKey", "jr.key", "random.seed", "np.random", "numpy.random", "time."))]
    ctx.oblige("C15/fit_to_data/struct/all_randomness_derives_from_key", not bad, [], props, kind="struct", fn=fnq, note=f"random sources found: {bad}")
