"""C15: fit_to_data never loses, duplicates or misaligns data (row provenance through permute / slice / reshape).

A dataset array is modelled by its length and a provenance map  position -> original row index.  jr.permutation is the T3
contract  out[i] = a[PERM(key, n, i)]  with PERM(key, n, .) a bijection of [0, n) (PINV its inverse); keys form a free
algebra: child(k, n, i) is injective and one level deeper than k (ghost depth).
"""
import itertools

import z3

from fjvc.core import family, apps_of
from fjvc.interp import LoopSpec, Env, PyRaise
from fjvc.lib import TypeMarker
from fjvc.values import SV, SymSeq, SymList, Opaque, lift, to_real, I, R

KEY = z3.DeclareSort("PRNGKey")
PERM = z3.Function("PERM", KEY, I, I, I)
PINV = z3.Function("PINV", KEY, I, I, I)
child = z3.Function("child", KEY, I, I, KEY)
depth = z3.Function("depth", KEY, I)
MOD_U = "flowjax.train.train_utils"
MOD_F = "flowjax.train.data_fit"


class Key:
    def __init__(self, e):
        self.e = e


class DataArr:
    """rows of a dataset: length n (z3 Int), prov(i) = original row index of the row at position i, tag = which dataset"""

    def __init__(self, n, prov, tag, rest=(3,)):
        self.n, self.prov, self.tag, self.rest = n, prov, tag, rest

    @property
    def shape(self):
        return (SV(self.n),) + tuple(self.rest)

    def __getitem__(self, s):
        if isinstance(s, slice) and s.step is None:
            lo = z3.IntVal(0) if s.start is None else clampi(lift(s.start), self.n)
            hi = self.n if s.stop is None else clampi(lift(s.stop), self.n)
            return DataArr(z3.If(hi > lo, hi - lo, z3.IntVal(0)), lambda i, lo=lo: self.prov(i + lo), self.tag, self.rest)
        raise TypeError("row indexing of DataArr")

    def reshape(self, nb, bs, *rest):
        return Batched(lift(nb), lift(bs), self)


def clampi(e, n):
    e = z3.If(e < 0, e + n, e)
    return z3.If(e < 0, z3.IntVal(0), z3.If(e > n, n, e))


class Batched:
    def __init__(self, nb, bs, base):
        self.nb, self.bs, self.base = nb, bs, base

    def sym_len(self):
        return SV(self.nb)

    def batch(self, k):
        return Batch(self, k)


class Batch:
    def __init__(self, parent, k):
        self.parent, self.k = parent, k

    def row(self, j):
        p = self.parent
        return p.base.prov(self.k * p.bs + j)


def perm_facts(asserts):
    """bijection facts of PERM / PINV at the ground index terms of the obligation"""
    out = []
    apps = apps_of(PERM, asserts)
    for a in apps:
        k, n, i = a.children()
        out += [z3.Implies(z3.And(i >= 0, i < n), z3.And(a >= 0, a < n, PINV(k, n, a) == i))]
    for a, b in itertools.combinations(apps, 2):
        if a.arg(0).eq(b.arg(0)) and a.arg(1).eq(b.arg(1)):
            out.append(z3.Implies(a == b, a.arg(2) == b.arg(2)))
    for a in apps_of(PINV, asserts):
        k, n, j = a.children()
        out += [z3.Implies(z3.And(j >= 0, j < n), z3.And(a >= 0, a < n, PERM(k, n, a) == j))]
    return out


def key_facts(asserts):
    out = []
    apps = apps_of(child, asserts)
    for a in apps:
        out.append(depth(a) == depth(a.arg(0)) + 1)
    for a, b in itertools.combinations(apps, 2):
        out.append(z3.Implies(a == b, z3.And(a.arg(0) == b.arg(0), a.arg(1) == b.arg(1), a.arg(2) == b.arg(2))))
    return out


def _sat(fs):
    s = z3.Solver()
    s.set("timeout", 3000)
    s.add(*fs)
    return s.check() == z3.sat


def install_lib(it):
    lib = it.lib.overrides

    def permutation(key, a, **kw):
        if isinstance(a, DataArr):
            return DataArr(a.n, lambda i: a.prov(PERM(key.e, a.n, i)), a.tag, a.rest)
        raise TypeError("permutation of a non-dataset value")

    def split(key, n=2):
        if isinstance(n, int):
            return tuple(Key(child(key.e, z3.IntVal(n), z3.IntVal(i))) for i in range(n))
        raise TypeError("symbolic split count")

    lib["jax.random.permutation"] = permutation
    lib["jax.random.split"] = split
    lib["jaxtyping.Shaped"] = TypeMarker("Shaped", check=lambda v: isinstance(v, DataArr))
    lib["jaxtyping.Array"] = TypeMarker("Array", check=lambda v: isinstance(v, DataArr))
    lib["jax.numpy.asarray"] = lambda a, *r, **k: a


# --------------------------------------------------------------------------------------
@family("datafit/train_val_split", ["C15"])
def train_val_split(ctx):
    it = ctx.interp
    install_lib(it)
    fnq = f"{MOD_U}.train_val_split"
    n, j = z3.Ints("n j")
    p = z3.Real("val_prop")
    key = z3.Const("key", KEY)
    X = DataArr(n, lambda i: i, "x")
    C = DataArr(n, lambda i: i, "condition")
    fn = it.repo_function(fnq)
    paths = it.explore(lambda: fn(Key(key), [X, C], val_prop=SV(p)))
    props = ["C15"]
    pre = [n >= 2]
    inst = [perm_facts]
    rp = dict(kind="train_val_split", vars=dict(n=n, val_prop=p))
    valid = z3.And(p >= 0, p <= 1)
    for i, pa in enumerate(paths):
        if pa.outcome == "raise":
            ctx.oblige(f"C15/train_val_split/post/raises_only_if#{i}", z3.And(z3.Not(valid), z3.BoolVal(pa.value.exc == "ValueError")), pre + pa.cond, props, fn=fnq, replay=rp)
            continue
        tr, va = pa.value
        hyp = pre + pa.cond + [valid]
        ntr, nva = tr[0].n, va[0].n
        # sizes: n_train = n - round(val_prop * n) (documented), both parts together are the dataset
        ctx.oblige(f"C15/train_val_split/post/sizes#{i}", z3.And(ntr + nva == n, ntr >= 0, nva >= 0, tr[1].n == ntr, va[1].n == nva), hyp, props, fn=fnq, replay=rp)
        nround = z3.Int("rnd")
        ctx.oblige(f"C15/train_val_split/post/n_val_is_rounded_proportion#{i}", z3.And(to_real(nva) >= p * n - z3.RealVal("1/2"), to_real(nva) <= p * n + z3.RealVal("1/2")), hyp, props, fn=fnq, replay=rp)
        # partition: every original row j is in exactly one part (witness position from the inverse permutation)
        w = PINV(key, n, j)
        in_tr = z3.And(w >= 0, w < ntr, tr[0].prov(w) == j)
        in_va = z3.And(w - ntr >= 0, w - ntr < nva, va[0].prov(w - ntr) == j)
        ctx.oblige(f"C15/train_val_split/post/every_row_in_a_part#{i}", z3.Or(in_tr, in_va), hyp + [j >= 0, j < n], props, fn=fnq, replay=rp, inst=inst)
        a, b = z3.Ints("a b")
        ctx.oblige(f"C15/train_val_split/post/parts_disjoint#{i}", tr[0].prov(a) != va[0].prov(b), hyp + [a >= 0, a < ntr, b >= 0, b < nva], props, fn=fnq, replay=rp, inst=inst)
        ctx.oblige(f"C15/train_val_split/post/no_duplicates_within_train#{i}", tr[0].prov(a) != tr[0].prov(b), hyp + [a >= 0, a < ntr, b >= 0, b < ntr, a != b], props, fn=fnq, replay=rp, inst=inst)
        ctx.oblige(f"C15/train_val_split/post/no_duplicates_within_val#{i}", va[0].prov(a) != va[0].prov(b), hyp + [a >= 0, a < nva, b >= 0, b < nva, a != b], props, fn=fnq, replay=rp, inst=inst)
        # alignment: x and condition rows at the same position come from the same original row
        ctx.oblige(f"C15/train_val_split/post/aligned#{i}", z3.And(z3.Implies(z3.And(a >= 0, a < ntr), tr[0].prov(a) == tr[1].prov(a)), z3.Implies(z3.And(a >= 0, a < nva), va[0].prov(a) == va[1].prov(a))), hyp, props, fn=fnq, replay=rp, inst=inst)
        ctx.oblige(f"C15/train_val_split/post/rows_in_range#{i}", z3.And(tr[0].prov(a) >= 0, tr[0].prov(a) < n), hyp + [a >= 0, a < ntr], props, fn=fnq, replay=rp, inst=inst)
        ctx.cover(f"C15/train_val_split/cover#{i}", hyp + [n == 10, p == z3.RealVal("1/4")], props, fn=fnq, inst=inst)
        ctx.control(f"C15/train_val_split/control/identity_split#{i}", tr[0].prov(a) == a, hyp + [a >= 0, a < ntr, ntr >= 2], props, fn=fnq, inst=inst)


# --------------------------------------------------------------------------------------
@family("datafit/get_batches", ["C15"])
def get_batches(ctx):
    it = ctx.interp
    install_lib(it)
    fnq = f"{MOD_U}.get_batches"
    n, bs = z3.Ints("n batch_size")
    X = DataArr(n, lambda i: i, "x")
    C = DataArr(n, lambda i: i, "condition")
    fn = it.repo_function(fnq)
    paths = it.explore(lambda: fn([X, C], SV(bs)))
    props = ["C15"]
    pre = [n >= 1, bs >= 1]
    rp = dict(kind="get_batches", vars=dict(n=n, batch_size=bs))
    ok = [p for p in paths if p.outcome == "return"]
    ctx.oblige("C15/get_batches/struct/returns", len(ok) >= 1, [], props, kind="struct", fn=fnq)
    for i, pa in enumerate(paths):
        if pa.outcome == "raise":
            ctx.oblige(f"C15/get_batches/post/no_exception#{i}", z3.BoolVal(False), pre + pa.cond, props, fn=fnq, replay=rp, note=f"raises {pa.value.exc}")
            continue
        bx, bc = pa.value
        hyp = pre + pa.cond
        k1, j1, k2, j2 = z3.Ints("k1 j1 k2 j2")
        ebs = bx.bs  # effective batch size
        in1 = z3.And(k1 >= 0, k1 < bx.nb, j1 >= 0, j1 < ebs)
        in2 = z3.And(k2 >= 0, k2 < bx.nb, j2 >= 0, j2 < ebs)
        ctx.oblige(f"C15/get_batches/post/clamped_batch_size#{i}", z3.And(ebs == z3.If(bs < n, bs, n), ebs >= 1, bc.nb == bx.nb, bc.bs == ebs), hyp, props, fn=fnq, replay=rp)
        ctx.oblige(f"C15/get_batches/post/each_row_at_most_once#{i}", z3.Implies(bx.batch(k1).row(j1) == bx.batch(k2).row(j2), z3.And(k1 == k2, j1 == j2)), hyp + [in1, in2], props, fn=fnq, replay=rp)
        ctx.oblige(f"C15/get_batches/post/rows_in_range#{i}", z3.And(bx.batch(k1).row(j1) >= 0, bx.batch(k1).row(j1) < n), hyp + [in1], props, fn=fnq, replay=rp)
        # only a trailing remainder smaller than one batch is skipped: the used positions are exactly [0, nb*bs)
        pos = z3.Int("pos")
        ctx.oblige(f"C15/get_batches/post/only_trailing_remainder_skipped#{i}", z3.And(n - bx.nb * ebs >= 0, n - bx.nb * ebs < ebs,
                   z3.Implies(z3.And(pos >= 0, pos < bx.nb * ebs), bx.batch(pos / ebs).row(pos % ebs) == pos)), hyp, props, fn=fnq, replay=rp)
        ctx.oblige(f"C15/get_batches/post/aligned#{i}", bx.batch(k1).row(j1) == bc.batch(k1).row(j1), hyp + [in1], props, fn=fnq, replay=rp)
        ctx.cover(f"C15/get_batches/cover#{i}", hyp, props, fn=fnq)
        if _sat(hyp + [n == 7, bs == 3]):
            ctx.control(f"C15/get_batches/control/all_rows_used#{i}", bx.nb * ebs == n, hyp, props, fn=fnq)
