"""Contracts for the training loops (property C16; step also cited by C12/C15).

Ghost state: parameter *versions* (version(P') = version(P) + 1 for every optimiser update) and an
arbitrary loss history L: version -> real (uninterpreted): `for any sequence of losses`.
"""
import z3

from fjvc.core import family
from fjvc.interp import LoopSpec, Env
from fjvc.values import SV, SymList, SymSeq, Opaque, lift, I, R

L = z3.Function("L", I, R)  # ghost: loss_fn evaluated at the parameters with this version


class Params:
    """the trainable partition of the model, identified by its ghost version"""

    def __init__(self, ver):
        self.ver = ver if isinstance(ver, z3.ExprRef) else z3.IntVal(ver)


class LossVal(SV):
    """jax scalar returned by step: .item() gives the Python float; usable directly in arithmetic / comparisons"""

    def item(self):
        return SV(self.e)


class Dist:
    def __init__(self, params, static):
        self.params, self.static = params, static


class Tqdm(SymSeq):
    def set_postfix(self, *a, **k):
        return None

    def set_postfix_str(self, *a, **k):
        return None

    postfix = "<postfix>"


def _sat(fs):
    s = z3.Solver()
    s.set("timeout", 5000)
    s.add(*fs)
    return s.check() == z3.sat


def argmin_set(m, t, f):
    """m is an index in [0,t) at which f attains its minimum over [0,t)"""
    q = z3.Int("q!b")
    return z3.And(m >= 0, m < t, z3.ForAll([q], z3.Implies(z3.And(q >= 0, q < t), f(q) >= f(m))))


def common_lib(it, static):
    P0 = Params(0)
    lib = it.lib.overrides
    lib["optax.adam"] = lambda lr: Opaque("adam")
    lib["equinox.partition"] = lambda tree, spec=None, is_leaf=None, **k: (P0, static)
    lib["equinox.combine"] = lambda p, s: Dist(p, s)
    lib["equinox.is_inexact_array"] = "is_inexact_array"
    lib["tqdm.tqdm"] = lambda seq, disable=False, **k: Tqdm(seq.length, seq._at, seq.elem) if isinstance(seq, SymSeq) else seq
    return P0


# --------------------------------------------------------------------------------------
@family("train/step", ["C16", "C12", "C15"])
def step_contract(ctx):
    """step returns (apply_updates(P, update(grad loss(P))), S', loss(P)): the loss of the PRE-update parameters,
    every argument after (params, static) is forwarded to the loss unchanged, only `params` is updated."""
    it = ctx.interp
    fnq = "flowjax.train.train_utils.step"
    T = z3.DeclareSort("Tree")
    lossf = z3.Function("lossf", T, T, T, T, R)  # loss_fn(params, static, arg, key)
    gradf = z3.Function("gradf", T, T, T, T, T)
    upd = z3.Function("upd", T, T, T, T)  # optimizer.update(grads, opt_state, params)[0]
    upd_state = z3.Function("upd_state", T, T, T, T)
    apply = z3.Function("apply_updates", T, T, T)
    p, s, a, key, os_ = (z3.Const(n, T) for n in ("params", "static", "arg", "key", "opt_state"))
    seen = {}

    def loss_fn(params, static, *args, **kw):
        seen["loss_args"] = (params, static, args, kw)
        return SV(lossf(params, static, args[0], kw["key"]))

    class VG:
        def __init__(self, f):
            self.f = f

        def __call__(self, *args, **kw):
            v = self.f(*args, **kw)
            return v, gradf(args[0], args[1], args[2], kw["key"])

    class Optim:
        def update(self, grads, state, params=None):
            seen["upd_params"] = params
            return upd(grads, state, params), upd_state(grads, state, params)

    it.lib.overrides["equinox.filter_value_and_grad"] = lambda f: VG(f)
    it.lib.overrides["equinox.apply_updates"] = lambda pp, u: apply(pp, u)
    fn = it.repo_function(fnq)
    paths = it.explore(lambda: fn(p, s, a, optimizer=Optim(), opt_state=os_, loss_fn=loss_fn, key=key))
    props = ["C16", "C12", "C15"]
    ctx.oblige("C16/step/struct/one_path", len(paths) == 1 and paths[0].outcome == "return", [], props, kind="applicability", fn=fnq)
    if len(paths) != 1 or paths[0].outcome != "return":
        return
    new_p, new_os, loss = paths[0].value
    g = gradf(p, s, a, key)
    ctx.oblige("C16/step/post/loss_of_pre_update_params", lift(loss) == lossf(p, s, a, key), paths[0].cond, props, fn=fnq)
    ctx.oblige("C16/step/post/params_updated_once", new_p == apply(p, upd(g, os_, p)), paths[0].cond, props, fn=fnq)
    ctx.oblige("C16/step/post/opt_state", new_os == upd_state(g, os_, p), paths[0].cond, props, fn=fnq)
    ctx.control("C16/step/control/loss_of_post_update_params", lift(loss) == lossf(new_p, s, a, key), paths[0].cond, props, fn=fnq)


# --------------------------------------------------------------------------------------
@family("train/fit_to_variational_target", ["C16"])
def fit_to_variational_target(ctx):
    it = ctx.interp
    MOD = "flowjax.train.variational_fit"
    fnq = f"{MOD}.fit_to_variational_target"
    steps = z3.Int("steps")
    return_best = z3.Bool("return_best")
    static = Opaque("static")
    common_lib(it, static)
    it.lib.overrides["jax.random.split"] = lambda key, n=2: SymSeq(lift(n), lambda k: ("key", k), "key")

    # callee contract (proved in train/step): new version, loss evaluated at the version passed in
    def step(params, static_, *args, optimizer=None, opt_state=None, loss_fn=None, **kw):
        return (Params(params.ver + 1), Opaque("opt_state"), LossVal(L(params.ver)))

    it.global_overrides[MOD] = {"step": step}

    def as_list(v):
        return SymList.of(v)

    def Inv(t, env, entry=None):
        losses = as_list(env["losses"])
        q = z3.Int("q!b")
        return z3.And(t >= 0, t <= steps, losses.n == t, env["params"].ver == t,
                      z3.ForAll([q], z3.Implies(z3.And(q >= 0, q < t), z3.Select(losses.arr, q) == L(q))),
                      z3.If(t > 0, argmin_set(env["best_params"].ver, t, L), env["best_params"].ver == 0))

    def havoc(t, env):
        h = Env(env.parent)
        h.update(env)
        h["losses"] = SymList(it.fresh("n_losses", "int"), z3.Array(f"losses!{it.fresh_counter}", I, R))
        h["params"] = Params(it.fresh("pver", "int"))
        h["best_params"] = Params(it.fresh("bver", "int"))
        h["opt_state"] = Opaque("opt_state")
        h["loss"] = None
        h["key"] = None
        return h

    it.loop_specs[(fnq, "for#0")] = LoopSpec(Inv, havoc)
    fn = it.repo_function(fnq)
    paths = it.explore(lambda: fn("key0", Opaque("dist"), Opaque("loss_fn"), steps=SV(steps), return_best=SV(return_best), show_progress=False))
    props = ["C16"]
    pre = [steps >= 0]
    rp = dict(kind="variational_fit", vars=dict(steps=steps, return_best=return_best), funcs=dict(L=L))
    normal = [p for p in paths if p.outcome == "return"]
    ctx.oblige("C16/fit_to_variational_target/struct/returns", len(normal) >= 1, [], props, kind="struct", fn=fnq)
    for i, p in enumerate(p for p in paths if p.outcome == "raise"):
        ctx.oblige(f"C16/fit_to_variational_target/post/no_exception#{i}", z3.BoolVal(False), pre + p.cond, props, fn=fnq, note=f"raises {p.value.exc}")
    seen_inv = set()
    for i, p in enumerate(normal):
        ctx.from_path(p, "C16", props, fn=fnq, extra_hyps=pre, replay=rp, rename=lambda o: o.replace(MOD + ".", ""))
        dist, losses = p.value
        losses = as_list(losses)
        q = z3.Int("q!b")
        hyp = pre + p.cond
        ctx.oblige("C16/fit_to_variational_target/post/one_loss_per_step", z3.And(losses.n == steps, z3.ForAll([q], z3.Implies(z3.And(q >= 0, q < steps), z3.Select(losses.arr, q) == L(q)))), hyp, props, fn=fnq, replay=rp)
        ver = dist.params.ver
        ctx.oblige("C16/fit_to_variational_target/post/exactly_steps_updates", z3.Implies(z3.Not(return_best), ver == steps), hyp, props, fn=fnq, replay=rp)
        ctx.oblige("C16/fit_to_variational_target/post/best_version", z3.Implies(return_best, z3.If(steps > 0, argmin_set(ver, steps, L), ver == 0)), hyp, props, fn=fnq, replay=rp)
        ctx.cover(f"C16/fit_to_variational_target/cover/post#{i}", hyp + [steps > 2], props, fn=fnq)
        if _sat(hyp + [return_best, steps > 1]):
            ctx.control(f"C16/fit_to_variational_target/control/returns_last_when_best#{i}", ver == steps, hyp + [return_best, steps > 1], props, fn=fnq)


# --------------------------------------------------------------------------------------
V = z3.Function("V", I, R)  # ghost: validation loss of epoch q
PV = z3.Function("PV", I, I)  # ghost: version of the parameters after q epochs of training (PV(0) = 0)
FA = z3.Function("FA", I, I)  # ghost: index of the (unique) minimum of V over [0, q]


def fa_facts(q):
    """definition of FA at q (ground instance): first argmin of V over [0, q]"""
    j = z3.Int("j!b")
    return z3.And(FA(q) >= 0, FA(q) <= q, z3.ForAll([j], z3.Implies(z3.And(j >= 0, j <= q), V(FA(q)) <= V(j))),
                  z3.ForAll([j], z3.Implies(z3.And(j >= 0, j < FA(q)), V(j) > V(FA(q)))))


def stop_at(q, max_patience):
    """property clause: more than max_patience epochs have passed since the best validation loss"""
    return q - FA(q) > max_patience


@family("train/fit_to_data", ["C16"])
def fit_to_data(ctx):
    it = ctx.interp
    MOD = "flowjax.train.data_fit"
    fnq = f"{MOD}.fit_to_data"
    max_epochs, max_patience = z3.Int("max_epochs"), z3.Int("max_patience")
    return_best = z3.Bool("return_best")
    static = Opaque("static")
    common_lib(it, static)
    lib = it.lib.overrides

    def split(key, n=2):
        if isinstance(n, int):
            return tuple(Opaque(f"key{i}") for i in range(n))
        raise NotImplementedError

    lib["jax.random.split"] = split
    lib["jax.random.permutation"] = lambda k, a, **kw: Opaque("permuted")
    lib["jax.numpy.asarray"] = lambda a, *r, **k: a
    lib["jax.numpy.array"] = lambda a, *r, **k: SymList.of(a) if isinstance(a, (SymList, list)) else a
    lib["jax.numpy.argmin"] = lambda a, **k: SymList.of(a).argmin()
    nb = []

    def get_batches(arrays, batch_size):
        # contract (C15 proves the real one): every array is cut into the same symbolic number of batches
        n = it.fresh("n_batches", "int")
        nb.append(n)
        it.assume(n >= 1)  # requires: both parts non-empty (property C15's domain); otherwise the mean divides by zero
        return tuple(SymSeq(n, (lambda k, a=a: ("batch", a, k)), "batch") for a in arrays)

    def train_val_split(key, arrays, val_prop=0.1):
        return [Opaque("train") for _ in arrays], [Opaque("val") for _ in arrays]

    def step(params, static_, *args, optimizer=None, opt_state=None, loss_fn=None, **kw):
        return (Params(params.ver + 1), Opaque("opt_state"), SV(it.fresh("batch_loss", "real")))

    it.global_overrides[MOD] = {"step": step, "get_batches": get_batches, "train_val_split": train_val_split}

    class LossFn:
        def __call__(self, params, static_, *batch, key=None):
            return SV(it.fresh("val_batch_loss", "real"))

    def lists(env):
        d = env["losses"]
        return SymList.of(d["train"]), SymList.of(d["val"])

    q = z3.Int("q!inv")

    def Inv(e, env, entry=None):
        tr, va = lists(env)
        m = env.get("__m", z3.IntVal(0))
        return z3.And(e >= 0, e <= max_epochs, tr.n == e, va.n == e, env["params"].ver == PV(e),
                      z3.ForAll([q], z3.Implies(z3.And(q >= 0, q < e), z3.Select(va.arr, q) == V(q))),
                      z3.ForAll([q], z3.Implies(z3.And(q >= 0, q < e), z3.Not(stop_at(q, max_patience)))),
                      z3.If(e > 0, z3.And(argmin_set(m, e, V), env["best_params"].ver == PV(m + 1)), env["best_params"].ver == 0))

    def BreakInv(e, env, entry=None):
        # state right after a `break` in epoch e (e+1 epochs were run)
        tr, va = lists(env)
        m = env.get("__m", z3.IntVal(0))
        return z3.And(e >= 0, e < max_epochs, tr.n == e + 1, va.n == e + 1, env["params"].ver == PV(e + 1),
                      z3.ForAll([q], z3.Implies(z3.And(q >= 0, q <= e), z3.Select(va.arr, q) == V(q))),
                      z3.ForAll([q], z3.Implies(z3.And(q >= 0, q < e), z3.Not(stop_at(q, max_patience)))),
                      stop_at(e, max_patience),
                      argmin_set(m, e + 1, V), env["best_params"].ver == PV(m + 1))

    def havoc(e, env):
        h = Env(env.parent)
        h.update(env)
        c = it.fresh_counter
        h["losses"] = {"train": SymList(it.fresh("n_tr", "int"), z3.Array(f"train!{c}", I, R)), "val": SymList(it.fresh("n_va", "int"), z3.Array(f"val!{c}", I, R))}
        h["params"] = Params(it.fresh("pver", "int"))
        h["best_params"] = Params(it.fresh("bver", "int"))
        h["__m"] = it.fresh("m", "int")
        for name in ("opt_state", "key", "subkey", "subkeys", "train_data", "val_data", "batch_losses", "loss_i", "batch"):
            if name in ("train_data", "val_data"):
                h[name] = [Opaque(name) for _ in env[name]]
            else:
                h[name] = Opaque(name)
        return h

    def after_body(e, henv, entry, broke):
        tr, va = lists(henv)
        # definitional extensions of the ghost functions at the new index (V, PV are otherwise unconstrained there)
        it.assume(V(e) == z3.Select(va.arr, e))
        it.assume(PV(e + 1) == henv["params"].ver)
        it.assume(fa_facts(e))
        m = henv["__m"]
        henv["__m"] = z3.If(z3.Or(e == 0, V(e) <= V(m)), e, m)

    it.loop_specs[(fnq, "for#0")] = LoopSpec(Inv, havoc, break_inv=BreakInv, after_body=after_body)

    # inner loops: b batches done
    def inner_inv(which):
        def inv(b, env, entry):
            bl = SymList.of(env["batch_losses"])
            base = entry["params"].ver
            return z3.And(b >= 0, bl.n == b, env["params"].ver == (base + b if which == "train" else base))

        def hv(b, env):
            h = Env(env.parent)
            h.update(env)
            h["batch_losses"] = SymList(it.fresh("n_bl", "int"), z3.Array(f"bl!{it.fresh_counter}", I, R))
            if which == "train":
                h["params"] = Params(it.fresh("pver", "int"))
                h["opt_state"] = Opaque("opt_state")
            for name in ("key", "subkey", "loss_i", "batch"):
                h[name] = Opaque(name)
            return h

        return LoopSpec(inv, hv, name=f"inv_{which}")

    it.loop_specs[(fnq, "for#1")] = inner_inv("train")
    it.loop_specs[(fnq, "for#2")] = inner_inv("val")

    fn = it.repo_function(fnq)
    paths = it.explore(lambda: fn(Opaque("key"), Opaque("dist"), Opaque("x"), loss_fn=LossFn(), max_epochs=SV(max_epochs), max_patience=SV(max_patience),
                                  batch_size=SV(z3.Int("batch_size")), return_best=SV(return_best), optimizer=Opaque("optimizer"), show_progress=False))
    props = ["C16"]
    i1, i2 = z3.Ints("i1 i2")
    distinct = z3.ForAll([i1, i2], z3.Implies(z3.And(i1 >= 0, i2 >= 0, i1 != i2), V(i1) != V(i2)))
    pre = [max_epochs >= 0, max_patience >= 0, distinct, PV(0) == 0]
    rp = dict(kind="fit_to_data_history", vars=dict(max_epochs=max_epochs, max_patience=max_patience, return_best=return_best), funcs=dict(V=V))
    normal = [p for p in paths if p.outcome == "return"]
    ctx.oblige("C16/fit_to_data/struct/returns", len(normal) >= 1, [], props, kind="struct", fn=fnq)
    for i, p in enumerate(p for p in paths if p.outcome == "raise"):
        ctx.oblige(f"C16/fit_to_data/post/no_exception#{i}", z3.BoolVal(False), pre + p.cond, props, fn=fnq, note=f"raises {p.value.exc}")
    for i, p in enumerate(normal):
        ctx.from_path(p, "C16", props, fn=fnq, extra_hyps=pre, replay=rp, rename=lambda o: o.replace(MOD + ".", ""))
        dist, losses = p.value
        tr, va = SymList.of(losses["train"]), SymList.of(losses["val"])
        E = va.n  # epochs run
        hyp = pre + p.cond
        ver = dist.params.ver
        ctx.oblige("C16/fit_to_data/post/at_most_max_epochs", z3.And(E >= 0, E <= max_epochs), hyp, props, fn=fnq, replay=rp)
        ctx.oblige("C16/fit_to_data/post/one_train_and_val_loss_per_epoch", z3.And(tr.n == E, z3.ForAll([q], z3.Implies(z3.And(q >= 0, q < E), z3.Select(va.arr, q) == V(q)))), hyp, props, fn=fnq, replay=rp)
        # never earlier: no epoch before the last one run satisfied the stop clause
        ctx.oblige("C16/fit_to_data/post/never_stops_earlier", z3.ForAll([q], z3.Implies(z3.And(q >= 0, q < E - 1), z3.Not(stop_at(q, max_patience)))), hyp, props, fn=fnq, replay=rp)
        # stops at the first epoch satisfying the clause: if fewer than max_epochs epochs ran, the last one satisfied it;
        # if max_epochs ran, none before the last did (covered above)
        ctx.oblige("C16/fit_to_data/post/stops_at_first", z3.Implies(E < max_epochs, z3.And(E >= 1, stop_at(E - 1, max_patience))), hyp, props, fn=fnq, replay=rp)
        ctx.oblige("C16/fit_to_data/post/returned_best", z3.Implies(return_best, z3.If(E > 0, z3.Exists([i1], z3.And(argmin_set(i1, E, V), ver == PV(i1 + 1))), ver == 0)), hyp, props, fn=fnq, replay=rp)
        ctx.oblige("C16/fit_to_data/post/returned_last", z3.Implies(z3.Not(return_best), ver == PV(E)), hyp, props, fn=fnq, replay=rp)
        if i < 3:
            ctx.cover(f"C16/fit_to_data/cover/post#{i}", hyp, props, fn=fnq)
        if _sat(hyp + [return_best, E > 1]):
            ctx.control(f"C16/fit_to_data/control/returns_last_when_best#{i}", ver == PV(E), hyp + [return_best, E > 1], props, fn=fnq)
