"""Contracts for flowjax/distributions.py: AbstractTransformed (C03), named families (C05), vectorisation glue (C06)."""
import z3

from fjvc.core import family
from fjvc.interp import Obj, obj_fields as obj_fields_
from fjvc.values import SV, lift, to_real, R

from .abstract import AbsBij, AbsDist, TV, T, BIJ, DIST, KEY, F, G, LD, LP, S, NONE, B_instances
from .leaves import method, single

MOD = "flowjax.distributions"


@family("distributions/AbstractTransformed", ["C03", "C04", "C05", "C17"])
def transformed(ctx):
    """change of variables on all three evaluation paths, for an ABSTRACT base distribution (contract D) and an ABSTRACT
    bijection (contract B): hence for every premade flow, every orientation, nested Transformed by induction."""
    it = ctx.interp
    cls = it.repo_class(f"{MOD}.AbstractTransformed")
    b, d = z3.Const("b", BIJ), z3.Const("d", DIST)
    x, c, k = z3.Const("x", T), z3.Const("c", T), z3.Const("key", KEY)
    props = ["C03", "C04", "C05", "C17"]
    inst = [B_instances]
    for cond_name, cond in (("conditional", TV(c)), ("unconditional", None)):
        cc = c if cond is not None else NONE
        bij, base = AbsBij(b), AbsDist(d)
        self = Obj(cls, base_dist=base, bijection=bij)
        q = f"{MOD}.AbstractTransformed"
        p_lp = single(it.explore(lambda: method(cls, "_log_prob")(self, TV(x), cond)), ctx, f"C03/AbstractTransformed._log_prob[{cond_name}]/struct/straight_line", props, q + "._log_prob")
        p_s = single(it.explore(lambda: method(cls, "_sample")(self, TV(k), cond)), ctx, f"C03/AbstractTransformed._sample[{cond_name}]/struct/straight_line", props, q + "._sample")
        p_sl = single(it.explore(lambda: method(cls, "_sample_and_log_prob")(self, TV(k), cond)), ctx, f"C03/AbstractTransformed._sample_and_log_prob[{cond_name}]/struct/straight_line", props, q + "._sample_and_log_prob")
        if None in (p_lp, p_s, p_sl):
            continue
        rp = dict(kind="transformed", vars={})
        # log_prob(x) = base log-density at the inverse image of x + inverse log-determinant (written from the statement)
        z = G(b, x, cc)
        lp_spec = lambda xx: LP(d, G(b, xx, cc), cc) + (-LD(b, G(b, xx, cc), cc))  # noqa: E731
        ctx.oblige(f"C03/AbstractTransformed._log_prob[{cond_name}]/post/change_of_variables", lift(p_lp.value) == lp_spec(x), p_lp.cond, props, fn=q + "._log_prob", replay=rp, inst=inst)
        ctx.control(f"C03/AbstractTransformed._log_prob[{cond_name}]/control/sign", lift(p_lp.value) == LP(d, z, cc) + LD(b, z, cc), p_lp.cond, props, fn=q + "._log_prob", inst=inst)
        # a sample drawn with a key is the bijection applied to the base sample for that key (condition to BOTH)
        s_spec = F(b, S(d, k, cc), cc)
        ctx.oblige(f"C03/AbstractTransformed._sample[{cond_name}]/post/pushforward", p_s.value.e == s_spec, p_s.cond, props, fn=q + "._sample", replay=rp, inst=inst)
        # the log-probability returned together with a sample equals log_prob evaluated at that sample
        smp, lpv = p_sl.value
        ctx.oblige(f"C03/AbstractTransformed._sample_and_log_prob[{cond_name}]/post/same_sample", smp.e == s_spec, p_sl.cond, props, fn=q + "._sample_and_log_prob", replay=rp, inst=inst)
        ctx.oblige(f"C03/AbstractTransformed._sample_and_log_prob[{cond_name}]/post/log_prob_of_sample", lift(lpv) == lp_spec(s_spec), p_sl.cond, props, fn=q + "._sample_and_log_prob", replay=rp, inst=inst)
        ctx.control(f"C03/AbstractTransformed._sample_and_log_prob[{cond_name}]/control/plus_forward_logdet", lift(lpv) == LP(d, S(d, k, cc), cc) + LD(b, S(d, k, cc), cc), p_sl.cond, props, fn=q + "._sample_and_log_prob", inst=inst)
        # struct/reentry: children are entered through public / contract names only, each with the caller's condition
        ok = all(cnd is cond for (_m, _a, cnd) in bij.calls)
        ctx.oblige(f"C03/AbstractTransformed[{cond_name}]/struct/condition_passed_to_bijection", ok, [], props, kind="struct", fn=q)
    # default AbstractDistribution._sample_and_log_prob (contract D is what the override of a concrete family must satisfy)
    acls = it.repo_class(f"{MOD}.AbstractDistribution")

    class Conc(AbsDist):
        pass

    base = AbsDist(d)
    selfd = Obj(acls)
    object.__getattribute__(selfd, "_fields").update(_sample=base._sample, _log_prob=base._log_prob)
    p = single(it.explore(lambda: method(acls, "_sample_and_log_prob")(selfd, TV(k), TV(c))), ctx, "C03/AbstractDistribution._sample_and_log_prob/struct/straight_line", props, f"{MOD}.AbstractDistribution._sample_and_log_prob")
    if p is not None:
        smp, lpv = p.value
        ctx.oblige("C03/AbstractDistribution._sample_and_log_prob/post/contract_D", z3.And(smp.e == S(d, k, c), lift(lpv) == LP(d, S(d, k, c), c)), p.cond, props, fn=f"{MOD}.AbstractDistribution._sample_and_log_prob")


@family("distributions/AbstractTransformed.shapes", ["C03", "C06", "C13"])
def transformed_shapes(ctx):
    """declared shape / cond_shape of a transformed distribution, every rank INCLUDING rank-0 (scalar) conditions:
    cond_shape is None iff both children are unconditional, else the (common) condition shape of the conditional children;
    real `cond_shape` / `shape` properties and the real utils.merge_cond_shapes executed on integer sequences"""
    from fjvc.values import SymTuple, IntSeq
    props = ["C03", "C06", "C13"]
    q = f"{MOD}.AbstractTransformed"
    sb, sd, sh = z3.Const("bij_cond_shape", IntSeq), z3.Const("base_cond_shape", IntSeq), z3.Const("event_shape", IntSeq)
    b, d = z3.Const("b", BIJ), z3.Const("d", DIST)
    rp = dict(kind="transformed", what="cond_shape", vars={})
    for bname, bc in (("bij_uncond", None), ("bij_cond", SymTuple(sb))):
        for dname, dc in (("base_uncond", None), ("base_cond", SymTuple(sd))):
            it = ctx.new_interp()
            cls = it.repo_class(q)
            self = Obj(cls, base_dist=AbsDist(d, shape=SymTuple(sh), cond_shape=dc), bijection=AbsBij(b, shape=SymTuple(sh), cond_shape=bc))
            tag = f"{bname},{dname}"
            # the constructor's __check_init__ carries the compatibility check; cond_shape is specified for accepted objects
            pc = it.explore(lambda self=self: method(cls, "__check_init__")(self))
            both = bc is not None and dc is not None
            acc = [p for p in pc if p.outcome == "return"]
            ctx.oblige(f"C03/AbstractTransformed.__check_init__[{tag}]/struct/has_success_path", len(acc) >= 1, [], props, kind="struct", fn=q + ".__check_init__")
            for i, p in enumerate(pc):
                if p.outcome == "raise":
                    ctx.oblige(f"C13/AbstractTransformed.__check_init__[{tag}]/post/raises_only_on_mismatch#{i}", (sb != sd) if both else z3.BoolVal(False), p.cond, props, fn=q + ".__check_init__", replay=rp)
                elif both:
                    ctx.oblige(f"C13/AbstractTransformed.__check_init__[{tag}]/post/accepted_only_if_equal#{i}", sb == sd, p.cond, props, fn=q + ".__check_init__", replay=rp)
            accepted = z3.Or(*[z3.And(*p.cond) if p.cond else z3.BoolVal(True) for p in acc]) if acc else z3.BoolVal(False)
            paths = it.explore(lambda self=self: self.cond_shape)
            ok = [p for p in paths if p.outcome == "return"]
            ctx.oblige(f"C03/AbstractTransformed.cond_shape[{tag}]/struct/returns", len(ok) >= 1, [], props, kind="struct", fn=q + ".cond_shape")
            for i, p in enumerate(paths):
                H = [accepted] + p.cond
                if p.outcome == "raise":
                    ctx.oblige(f"C03/AbstractTransformed.cond_shape[{tag}]/post/never_raises_on_accepted_object#{i}", z3.BoolVal(False), H, props, fn=q + ".cond_shape", replay=rp)
                    continue
                v = p.value
                if bc is None and dc is None:
                    ctx.oblige(f"C03/AbstractTransformed.cond_shape[{tag}]/post/unconditional#{i}", v is None, [], props, kind="struct", fn=q + ".cond_shape", replay=rp)
                elif v is None:
                    ctx.oblige(f"C03/AbstractTransformed.cond_shape[{tag}]/post/conditional_for_every_rank#{i}", z3.BoolVal(False), H, props, fn=q + ".cond_shape", replay=rp,
                               note="a conditional child makes the distribution conditional also when its condition is a scalar (cond_shape == ()): this path returns None")
                else:
                    want = sb if bc is not None else sd
                    ctx.oblige(f"C03/AbstractTransformed.cond_shape[{tag}]/post/is_the_childs_cond_shape#{i}", SymTuple.of(v).s == want, H, props, fn=q + ".cond_shape", replay=rp)
            if ok and (bc is not None or dc is not None):
                ctx.cover(f"C03/AbstractTransformed.cond_shape[{tag}]/cover/scalar_condition", [accepted] + ok[0].cond + [z3.Length(sb if bc is not None else sd) == 0], props, fn=q + ".cond_shape")
            ps = it.explore(lambda self=self: self.shape)
            p = single(ps, ctx, f"C03/AbstractTransformed.shape[{tag}]/struct/straight_line", props, q + ".shape")
            if p is not None:
                ctx.oblige(f"C03/AbstractTransformed.shape[{tag}]/post/is_base_shape", SymTuple.of(p.value).s == sh, p.cond, props, fn=q + ".shape", replay=rp)


@family("distributions/merge_transforms", ["C03", "C08"])
def merge_transforms(ctx):
    """merge_transforms never changes the function.  BOUNDED in the nesting depth (1..4 nested Transformed, loop unrolled by the
    executor on concrete object structure); unbounded in everything else (abstract bijections, base, inputs, conditions)."""
    it = ctx.interp
    it.global_overrides["flowjax.bijections.chain"] = {"unwrap": lambda t: t}
    tcls = it.repo_class(f"{MOD}.Transformed")
    acls = it.repo_class(f"{MOD}.AbstractTransformed")
    d = z3.Const("d", DIST)
    x, c, k = z3.Const("x", T), z3.Const("c", T), z3.Const("key", KEY)
    props = ["C03", "C08"]
    inst = [B_instances]
    n_ = SV(z3.Int("n"))
    for depth in (1, 2, 3, 4):
        bs = [z3.Const(f"b{j}", BIJ) for j in range(depth)]

        def build():
            dist = AbsDist(d, shape=(n_,))
            for j in range(depth):  # innermost first: b0 is applied first when sampling
                dist = tcls(dist, AbsBij(bs[j], shape=(n_,)))
            return dist

        def run(which):
            def thunk():
                nested = build()
                merged = nested.merge_transforms()
                a = getattr(nested, which)(TV(x) if which == "_log_prob" else TV(k), TV(c))
                m = getattr(merged, which)(TV(x) if which == "_log_prob" else TV(k), TV(c))
                return nested, merged, a, m
            return it.explore(thunk)

        fnq = f"{MOD}.AbstractTransformed.merge_transforms"
        for which in ("_log_prob", "_sample", "_sample_and_log_prob"):
            paths = run(which)
            p = single(paths, ctx, f"C03/merge_transforms[depth={depth}]/{which}/struct/straight_line", props, fnq)
            if p is None:
                continue
            nested, merged, a, m = p.value
            if which == "_log_prob":
                goal = lift(a) == lift(m)
            elif which == "_sample":
                goal = a.e == m.e
            else:
                goal = z3.And(a[0].e == m[0].e, lift(a[1]) == lift(m[1]))
            ctx.oblige(f"C03/merge_transforms[depth={depth}]/post/same{which}", goal, p.cond, props, kind="bounded/depth<=4", fn=fnq, inst=inst, replay=dict(kind="merge_transforms", depth=depth, vars={}))
            from fjvc.interp import obj_class
            flat = not obj_class(merged.base_dist).issubclass_of(acls) if isinstance(merged.base_dist, Obj) else True
            ctx.oblige(f"C03/merge_transforms[depth={depth}]/post/base_not_transformed{which}", flat, [], props, kind="struct", fn=fnq)


# ======================================================================================
# C05: named families.  Standard bases: sum over the event of the textbook standard log-density (T3 logpdf entries /
# the hand-written Gumbel formula); location-scale families: constructor plumbing, accessors, and the full density
# obtained by running the real AbstractTransformed._log_prob on the real Affine / Scale / Chain[Affine, Exp] objects.
from fjvc.lib import LOGPDF, LOGPDF_T, TypeMarker  # noqa: E402
from fjvc.values import SumT, UF  # noqa: E402

exp_, log_ = UF["exp"], UF["log"]
SHAPE = ("event",)


def ev(name):
    return SV(z3.Real(name), elem=True, tags={"shape": SHAPE})


class Reparam:
    """contract of wrappers.BijectionReparam(arr, SoftPlus()) (proved in C11): stores the preimage, unwrap() gives arr back;
    the constructor requires arr in the codomain of the bijection (arr > 0), otherwise eqx.error_if raises"""

    def __init__(self, arr, bijection, invert_on_init=True):
        it = ctx_interp[0]
        e = lift(arr)
        if not it.truth(SV(e > 0)):
            raise PyRaise("EquinoxRuntimeError", "Non-finite value(s) introduced when reparameterizing")
        self.value = arr
        from fjvc.interp import obj_class as _oc
        try:
            self.bij_name = _oc(bijection).__name__
        except Exception:  # noqa: BLE001
            self.bij_name = type(bijection).__name__


ctx_interp = [None]
from fjvc.interp import PyRaise  # noqa: E402


def c05_env(it):
    ctx_interp[0] = it
    it.lib.overrides["jaxtyping.ArrayLike"] = TypeMarker("ArrayLike", check=lambda v: True)
    it.lib.overrides["jax.numpy.asarray"] = lambda a, *r, **k: a
    it.lib.overrides["equinox.error_if"] = _error_if
    unwrap = lambda v: v.value if isinstance(v, Reparam) else v  # noqa: E731
    _uw = unwrap

    class W:
        BijectionReparam = Reparam
        unwrap = staticmethod(_uw)

    it.global_overrides["flowjax.bijections.affine"] = {"wrappers": W}
    it.global_overrides["flowjax.bijections.chain"] = {"unwrap": lambda t: t}
    it.global_overrides[MOD] = {"unwrap": unwrap, "BijectionReparam": Reparam}
    return unwrap


def _error_if(x, pred, msg):
    it = ctx_interp[0]
    if it.truth(pred if isinstance(pred, SV) else SV(lift(pred))):
        raise PyRaise("EquinoxRuntimeError", msg)
    return x


STD = {"StandardNormal": "norm", "_StandardUniform": "uniform", "_StandardCauchy": "cauchy", "_StandardLaplace": "laplace", "_StandardExponential": "expon", "_StandardLogistic": "logistic"}


@family("distributions/standard_bases", ["C05"])
def standard_bases(ctx):
    it = ctx.interp
    c05_env(it)
    x = ev("x")
    props = ["C05"]
    for cname, fam in STD.items():
        cls = it.repo_class(f"{MOD}.{cname}")
        o = Obj(cls, shape=SHAPE)
        q = f"{MOD}.{cname}._log_prob"
        p = single(it.explore(lambda: method(cls, "_log_prob")(o, x, None)), ctx, f"C05/{cname}._log_prob/struct/straight_line", props, q)
        if p is None:
            continue
        v = p.value
        ctx.oblige(f"C05/{cname}._log_prob/struct/sum_over_event", isinstance(v, SumT), [], props, kind="applicability", fn=q, note="summed (not averaged) over independent dimensions")
        if isinstance(v, SumT):
            ctx.oblige(f"C05/{cname}._log_prob/post/standard_logpdf", v.t == LOGPDF[fam](x.e), p.cond, props, fn=q, replay=dict(kind="c05", vars={}))
    # hand-written Gumbel: -(z + exp(-z))
    cls = it.repo_class(f"{MOD}._StandardGumbel")
    o = Obj(cls, shape=SHAPE)
    q = f"{MOD}._StandardGumbel._log_prob"
    p = single(it.explore(lambda: method(cls, "_log_prob")(o, x, None)), ctx, "C05/_StandardGumbel._log_prob/struct/straight_line", props, q)
    if p is not None and isinstance(p.value, SumT):
        ctx.oblige("C05/_StandardGumbel._log_prob/post/textbook", p.value.t == -(x.e + exp_(-x.e)), p.cond, props, fn=q, replay=dict(kind="c05", vars={}))
        ctx.control("C05/_StandardGumbel._log_prob/control/sign", p.value.t == -(x.e - exp_(-x.e)), p.cond, props, fn=q)
    else:
        ctx.oblige("C05/_StandardGumbel._log_prob/struct/sum_over_event", False, [], props, kind="applicability", fn=q)
    # Student t: df passed to the T3 logpdf
    cls = it.repo_class(f"{MOD}._StandardStudentT")
    df = ev("df")
    o = Obj(cls, shape=SHAPE, df=df)
    q = f"{MOD}._StandardStudentT._log_prob"
    p = single(it.explore(lambda: method(cls, "_log_prob")(o, x, None)), ctx, "C05/_StandardStudentT._log_prob/struct/straight_line", props, q)
    if p is not None:
        ctx.oblige("C05/_StandardStudentT._log_prob/post/standard_logpdf", isinstance(p.value, SumT) and True, [], props, kind="struct", fn=q)
        if isinstance(p.value, SumT):
            ctx.oblige("C05/_StandardStudentT._log_prob/post/t_logpdf_with_df", p.value.t == LOGPDF_T(x.e, df.e), p.cond, props, fn=q, replay=dict(kind="c05", vars={}))


def _run_ctor(it, cls, *args, **kw):
    return it.explore(lambda: cls(*args, **kw))


@family("distributions/location_scale_families", ["C05", "C11"])
def location_scale(ctx):
    it = ctx.interp
    unwrap = c05_env(it)
    props = ["C05", "C11"]
    x = ev("x")
    loc, scale = ev("loc"), ev("scale")
    tcls = it.repo_class(f"{MOD}.AbstractTransformed")
    for cname, base_name, fam in (("Normal", "StandardNormal", "norm"), ("Cauchy", "_StandardCauchy", "cauchy"), ("Laplace", "_StandardLaplace", "laplace"), ("Logistic", "_StandardLogistic", "logistic"), ("Gumbel", "_StandardGumbel", None)):
        cls = it.repo_class(f"{MOD}.{cname}")
        q = f"{MOD}.{cname}"
        paths = _run_ctor(it, cls, loc, scale)
        rp = dict(kind="c05", cls=cname, vars=dict(loc=loc.e, scale=scale.e, x=x.e))
        for i, p in enumerate(paths):
            if p.outcome == "raise":
                ctx.oblige(f"C11/{cname}.__init__/post/rejects_only_nonpositive_scale#{i}", scale.e <= 0, p.cond, props, fn=q + ".__init__", replay=rp)
                continue
            d = p.value
            hyp = p.cond
            ctx.oblige(f"C11/{cname}.__init__/post/accepts_only_positive_scale#{i}", scale.e > 0, hyp, props, fn=q + ".__init__", replay=rp)
            from fjvc.interp import obj_class
            ctx.oblige(f"C05/{cname}.__init__/struct/base_family#{i}", obj_class(d.base_dist).__name__ == base_name and obj_class(d.bijection).__name__ == "Affine", [], props, kind="applicability", fn=q + ".__init__")
            ctx.oblige(f"C05/{cname}.__init__/post/reproduces_loc_scale#{i}", z3.And(lift(d.loc) == loc.e, lift(d.scale) == scale.e), hyp, props, fn=q + ".__init__", replay=rp)
            # full density through the real change-of-variables path with the real Affine methods (self unwrapped)
            ub = Obj(obj_class(d.bijection), loc=d.bijection.loc, scale=unwrap(d.bijection.scale), shape=d.bijection.shape)
            ud = Obj(obj_class(d), base_dist=d.base_dist, bijection=ub)
            pl = it.explore(lambda: method(tcls, "_log_prob")(ud, x, None))
            if len(pl) == 1 and pl[0].outcome == "return" and isinstance(pl[0].value, SumT):
                z = (x.e - loc.e) / scale.e
                std = LOGPDF[fam](z) if fam else -(z + exp_(-z))
                ctx.oblige(f"C05/{cname}/post/textbook_log_density#{i}", pl[0].value.t == std - log_(scale.e), hyp + pl[0].cond, props, fn=f"{MOD}.AbstractTransformed._log_prob", replay=rp)
                ctx.control(f"C05/{cname}/control/swapped_loc_scale#{i}", pl[0].value.t == (LOGPDF[fam]((x.e - scale.e) / loc.e) if fam else x.e) - log_(loc.e), hyp + pl[0].cond + [loc.e > 0], props, fn=q)
            else:
                ctx.oblige(f"C05/{cname}/struct/log_prob_is_sum#{i}", False, [], props, kind="applicability", fn=q)
    # StudentT(df, loc, scale): _StandardStudentT(df) pushed through Affine(loc, scale); df stays positive for every raw value
    cls = it.repo_class(f"{MOD}.StudentT")
    dfv = ev("df")
    q = f"{MOD}.StudentT"
    it.lib.overrides["jax.numpy.broadcast_arrays"] = lambda *a: tuple(a)
    rp = dict(kind="c05", cls="StudentT", vars=dict(df=dfv.e, loc=loc.e, scale=scale.e, x=x.e))
    succ = 0
    for i, p in enumerate(_run_ctor(it, cls, dfv, loc, scale)):
        if p.outcome == "raise":
            ctx.oblige(f"C11/StudentT.__init__/post/rejects_only_nonpositive_df_or_scale#{i}", z3.Or(dfv.e <= 0, scale.e <= 0), p.cond, props, fn=q + ".__init__", replay=rp)
            continue
        succ += 1
        d = p.value
        from fjvc.interp import obj_class
        ctx.oblige(f"C11/StudentT.__init__/post/accepts_only_positive_df_and_scale#{i}", z3.And(dfv.e > 0, scale.e > 0), p.cond, props, fn=q + ".__init__", replay=rp)
        ctx.oblige(f"C05/StudentT.__init__/struct/base_family#{i}", obj_class(d.base_dist).__name__ == "_StandardStudentT" and obj_class(d.bijection).__name__ == "Affine", [], props, kind="applicability", fn=q + ".__init__")
        ctx.oblige(f"C05/StudentT.__init__/post/reproduces_df_loc_scale#{i}", z3.And(lift(d.df) == dfv.e, lift(d.loc) == loc.e, lift(d.scale) == scale.e), p.cond, props, fn=q + ".__init__", replay=rp,
                   rounds=3, extra_terms=[exp_(dfv.e), exp_(lift(d.df))])
        ub = Obj(obj_class(d.bijection), loc=d.bijection.loc, scale=unwrap(d.bijection.scale), shape=d.bijection.shape)
        ubase = Obj(obj_class(d.base_dist), df=unwrap(d.base_dist.df), shape=d.base_dist.shape)
        ud = Obj(obj_class(d), base_dist=ubase, bijection=ub)
        pl = it.explore(lambda: method(tcls, "_log_prob")(ud, x, None))
        if len(pl) == 1 and pl[0].outcome == "return" and isinstance(pl[0].value, SumT):
            z = (x.e - loc.e) / scale.e
            ctx.oblige(f"C05/StudentT/post/textbook_log_density#{i}", pl[0].value.t == LOGPDF_T(z, lift(unwrap(d.base_dist.df))) - log_(scale.e), p.cond + pl[0].cond, props, fn=f"{MOD}.AbstractTransformed._log_prob", replay=rp)
        else:
            ctx.oblige(f"C05/StudentT/struct/log_prob_is_sum#{i}", False, [], props, kind="applicability", fn=q)
        # whatever value the raw df array later takes, the unwrapped df is strictly positive: df is held by
        # BijectionReparam(., SoftPlus()), whose unwrap is positive for every raw value (C11/BijectionReparam.unwrap/post/positive_for_every_raw_value)
        dfw = d.base_dist.df
        ctx.oblige(f"C11/StudentT/struct/df_held_by_softplus_reparam#{i}", isinstance(dfw, Reparam) and getattr(dfw, "bij_name", None) == "SoftPlus", [], props, kind="applicability", fn=f"{MOD}._StandardStudentT.__init__")
    ctx.oblige("C11/StudentT.__init__/struct/has_success_path", succ >= 1, [], props, kind="struct", fn=q + ".__init__")
    # Uniform(minval, maxval): loc = minval, scale = maxval - minval
    cls = it.repo_class(f"{MOD}.Uniform")
    a, b = ev("minval"), ev("maxval")
    q = f"{MOD}.Uniform"
    rp = dict(kind="c05", cls="Uniform", vars=dict(minval=a.e, maxval=b.e, x=x.e))
    for i, p in enumerate(_run_ctor(it, cls, a, b)):
        if p.outcome == "raise":
            ctx.oblige(f"C11/Uniform.__init__/post/rejects_only_if#{i}", b.e <= a.e, p.cond, props, fn=q + ".__init__", replay=rp)
            continue
        d = p.value
        ctx.oblige(f"C11/Uniform.__init__/post/accepts_only_if#{i}", b.e > a.e, p.cond, props, fn=q + ".__init__", replay=rp)
        ctx.oblige(f"C05/Uniform.__init__/post/accessors#{i}", z3.And(lift(d.minval) == a.e, lift(d.maxval) == b.e), p.cond, props, fn=q + ".__init__", replay=rp)
        ctx.oblige(f"C05/Uniform.__init__/post/affine_parameters#{i}", z3.And(lift(d.bijection.loc) == a.e, lift(unwrap(d.bijection.scale)) == b.e - a.e), p.cond, props, fn=q + ".__init__", replay=rp)
    # Exponential(rate): Scale(1 / rate); rate accessor
    cls = it.repo_class(f"{MOD}.Exponential")
    r = ev("rate")
    q = f"{MOD}.Exponential"
    rp = dict(kind="c05", cls="Exponential", vars=dict(rate=r.e, x=x.e))
    for i, p in enumerate(_run_ctor(it, cls, r)):
        if p.outcome == "raise":
            ctx.oblige(f"C11/Exponential.__init__/post/rejects_only_if#{i}", r.e <= 0, p.cond, props, fn=q + ".__init__", replay=rp)
            continue
        d = p.value
        ctx.oblige(f"C05/Exponential.__init__/post/scale_is_inverse_rate#{i}", lift(unwrap(d.bijection.scale)) == 1 / r.e, p.cond, props, fn=q + ".__init__", replay=rp)
        ctx.oblige(f"C05/Exponential.rate/post/accessor#{i}", lift(d.rate) == r.e, p.cond + [r.e > 0], props, fn=q + ".rate", replay=rp)
        from fjvc.interp import obj_class
        ub = Obj(obj_class(d.bijection), scale=unwrap(d.bijection.scale), shape=SHAPE)
        ud = Obj(obj_class(d), base_dist=d.base_dist, bijection=ub)
        pl = it.explore(lambda: method(tcls, "_log_prob")(ud, x, None))
        if len(pl) == 1 and pl[0].outcome == "return" and isinstance(pl[0].value, SumT):
            ctx.oblige(f"C05/Exponential/post/textbook_log_density#{i}", pl[0].value.t == LOGPDF["expon"](x.e * r.e) + log_(r.e), p.cond + pl[0].cond + [r.e > 0], props, fn=q, replay=rp, extra_terms=[exp_(log_(1 / r.e) + log_(r.e))])
    # LogNormal(loc, scale) = Chain[Affine(loc, scale), Exp]
    cls = it.repo_class(f"{MOD}.LogNormal")
    q = f"{MOD}.LogNormal"
    rp = dict(kind="c05", cls="LogNormal", vars=dict(loc=loc.e, scale=scale.e, x=x.e))
    for i, p in enumerate(_run_ctor(it, cls, loc, scale)):
        if p.outcome == "raise":
            continue
        d = p.value
        from fjvc.interp import obj_class
        bs = list(d.bijection.bijections)
        ok = len(bs) == 2 and obj_class(bs[0]).__name__ == "Affine" and obj_class(bs[1]).__name__ == "Exp" and obj_class(d.base_dist).__name__ == "StandardNormal"
        ctx.oblige(f"C05/LogNormal.__init__/struct/affine_then_exp#{i}", ok, [], props, kind="applicability", fn=q + ".__init__")
        if ok:
            ua = Obj(obj_class(bs[0]), loc=bs[0].loc, scale=unwrap(bs[0].scale), shape=SHAPE)
            uc = Obj(obj_class(d.bijection), bijections=(ua, bs[1]), shape=SHAPE, cond_shape=None)
            ud = Obj(obj_class(d), base_dist=d.base_dist, bijection=uc)
            pl = it.explore(lambda: method(tcls, "_log_prob")(ud, x, None))
            if len(pl) == 1 and pl[0].outcome == "return" and isinstance(pl[0].value, SumT):
                z = (log_(x.e) - loc.e) / scale.e
                ctx.oblige(f"C05/LogNormal/post/textbook_log_density#{i}", pl[0].value.t == LOGPDF["norm"](z) - log_(scale.e) - log_(x.e), p.cond + pl[0].cond + [x.e > 0], props, fn=q, replay=rp)


@family("distributions/log_prob_epilogue", ["C05", "C18", "C12", "C06"])
def log_prob_epilogue(ctx):
    """public log_prob = vectorised _log_prob of the UNWRAPPED distribution with NaN (and only NaN) mapped to -inf"""
    it = ctx.interp
    props = ["C05", "C18", "C12", "C06"]
    fnq = f"{MOD}.AbstractDistribution.log_prob"
    cls = it.repo_class(f"{MOD}.AbstractDistribution")
    rec = {}

    class Ext:  # an array of extended reals (may contain nan / +-inf)
        def __init__(self, tag):
            self.tag = tag

    it.lib.overrides["jaxtyping.ArrayLike"] = TypeMarker("ArrayLike", check=lambda v: True)
    it.lib.overrides["jax.numpy.asarray"] = lambda a, *r, **k: ("asarray", a, k.get("dtype"))
    it.lib.overrides["jax.numpy.isnan"] = lambda a: ("isnan", a)
    it.lib.overrides["jax.numpy.where"] = lambda c, a, b: ("where", c, a, b)
    it.lib.overrides["jax.numpy.nan_to_num"] = lambda a, *r, **k: ("nan_to_num", a, r, tuple(sorted(k)))
    it.global_overrides[MOD] = {"unwrap": lambda d: ("unwrapped", d)}
    for cname, cs in (("conditional", ("c",)), ("unconditional", None)):
        lps = Ext("lps")

        class U:  # the unwrapped distribution
            cond_shape = cs

            def _vectorize(self_, m):
                rec["method"] = m
                return lambda x, c: rec.__setitem__("args", (x, c)) or lps

            _log_prob = "the _log_prob method"

        u = U()
        it.global_overrides[MOD]["unwrap"] = lambda d, u=u: u
        self = Obj(cls)
        paths = it.explore(lambda: method(cls, "log_prob")(self, "x", "cond"))
        p = single(paths, ctx, f"C05/AbstractDistribution.log_prob[{cname}]/struct/straight_line", props, fnq)
        if p is None:
            continue
        v = p.value
        ninf = float("-inf")
        ok = isinstance(v, tuple) and len(v) == 4 and v[0] == "where" and v[1] == ("isnan", lps) and v[2] == ninf and v[3] is lps
        ctx.oblige(f"C05/AbstractDistribution.log_prob[{cname}]/post/only_nan_becomes_minus_inf", bool(ok), [], props, kind="struct", fn=fnq,
                   note="result == where(isnan(lps), -inf, lps): -inf and finite values pass through unchanged, never NaN")
        a = rec.get("args")
        fl = it.builtins["float"]
        okc = a is not None and a[0] == ("asarray", "x", fl) and ((a[1] == ("asarray", "cond", fl)) if cs is not None else (a[1] == "cond"))
        ctx.oblige(f"C05/AbstractDistribution.log_prob[{cname}]/post/vectorised_log_prob_of_unwrapped_self", bool(okc) and rec.get("method") == "the _log_prob method", [], props, kind="struct", fn=fnq)


@family("distributions/public_sample_glue", ["C06", "C03", "C12"])
def public_sample_glue(ctx):
    """sample / sample_and_log_prob = the vectorised private method of the UNWRAPPED distribution applied to the keys that
    _get_sample_keys derives from (key, sample_shape, condition) and to the caller's condition"""
    it = ctx.interp
    props = ["C06", "C03", "C12"]
    cls = it.repo_class(f"{MOD}.AbstractDistribution")
    it.lib.overrides["jaxtyping.ArrayLike"] = TypeMarker("ArrayLike", check=lambda v: True)
    it.lib.overrides["jax.numpy.asarray"] = lambda a, *r, **k: ("asarray", a)
    rec = {}
    for cname, cs in (("conditional", ("c",)), ("unconditional", None)):
        for meth, private in (("sample", "the _sample method"), ("sample_and_log_prob", "the _sample_and_log_prob method")):
            rec.clear()

            class U:  # the unwrapped distribution
                cond_shape = cs
                _sample = "the _sample method"
                _sample_and_log_prob = "the _sample_and_log_prob method"

                def _get_sample_keys(self_, key, sample_shape, condition):
                    rec["keys_from"] = (key, sample_shape, condition)
                    return "keys"

                def _vectorize(self_, m):
                    rec["method"] = m
                    return lambda k, c: rec.__setitem__("args", (k, c)) or "result"

            u = U()
            it.global_overrides[MOD] = {"unwrap": lambda d, u=u: u}
            fnq = f"{MOD}.AbstractDistribution.{meth}"
            paths = it.explore(lambda meth=meth: method(cls, meth)(Obj(cls), "key", "sample_shape", "cond"))
            p = single(paths, ctx, f"C06/AbstractDistribution.{meth}[{cname}]/struct/straight_line", props, fnq)
            if p is None:
                continue
            cond_seen = ("asarray", "cond") if cs is not None else "cond"
            ok = p.value == "result" and rec.get("method") == private and rec.get("keys_from") == ("key", "sample_shape", cond_seen) and rec.get("args") == ("keys", cond_seen)
            ctx.oblige(f"C06/AbstractDistribution.{meth}[{cname}]/post/vectorised_private_method_on_derived_keys_and_the_condition", bool(ok), [], props, kind="struct", fn=fnq, replay=dict(kind="c06", vars={}),
                       note=f"recorded: method={rec.get('method')}, keys_from={rec.get('keys_from')}, args={rec.get('args')}")


# ======================================================================================
# C06: batching glue.  jnp.vectorize itself is a T3 dependency (gufunc semantics for a signature and an excluded set).
from fjvc.values import SymTuple, IntSeq  # noqa: E402
from .datafit import KEY as PKEY, child, key_facts  # noqa: E402

PROD = z3.Function("prod", IntSeq, z3.IntSort())


class KeyArr:
    """an array of PRNG keys in flat (row-major) order: flat_at(i) is the key of flat position i"""

    def __init__(self, total, flat_at, shape=None):
        self.total, self.flat_at, self.shape = total, flat_at, shape


@family("distributions/_get_sample_keys", ["C06"])
def get_sample_keys(ctx):
    it = ctx.interp
    props = ["C06"]
    fnq = f"{MOD}.AbstractDistribution._get_sample_keys"
    cls = it.repo_class(f"{MOD}.AbstractDistribution")
    ss, cshape, cs = (z3.Const(n_, IntSeq) for n_ in ("sample_shape", "condition_shape", "cond_shape"))
    key = z3.Const("key", PKEY)
    rec = {}

    def split(k, n=2):
        nn = lift(n)
        rec["split"] = (k, nn)
        return KeyArr(nn, lambda i, k=k, nn=nn: child(k, nn, i), None)

    def reshape(a, shape):
        rec["reshape"] = shape
        return KeyArr(a.total, a.flat_at, shape)  # reshape keeps the flat order

    def prod(t):
        return SV(PROD(SymTuple.of(t).s))

    def filter_vmap(f, **kw):
        def mapped(keys):
            inner0 = f(("elem", keys, z3.Int("i!outer")))
            n_in = inner0.total
            return KeyArr(keys.total * n_in, lambda i: f(("elem", keys, i / n_in)).flat_at(i % n_in), None)
        return mapped

    it.lib.overrides.update({"jax.random.split": lambda k, n=2: split(k[1].flat_at(k[2]) if isinstance(k, tuple) else k, n), "jax.numpy.reshape": reshape, "math.prod": prod, "equinox.filter_vmap": filter_vmap})

    class Cond:
        shape = SymTuple(cshape)

    pos = lambda s_: z3.ForAll([z3.Int("q!b")], z3.Implies(z3.And(z3.Int("q!b") >= 0, z3.Int("q!b") < z3.Length(s_)), s_[z3.Int("q!b")] >= 1))  # noqa: E731
    for cname, self, cond in (("conditional", Obj(cls, shape=("e",), cond_shape=SymTuple(cs)), Cond()), ("unconditional", Obj(cls, shape=("e",), cond_shape=None), None)):
        rc, rcs = z3.Length(cshape), z3.Length(cs)

        def run(self=self, cond=cond):
            it.ctx_simplify = True
            try:
                if cond is not None:
                    it.assume(rc >= rcs)  # requires: the condition has at least the distribution's cond_shape as trailing dims
                return method(cls, "_get_sample_keys")(self, key, SymTuple(ss), cond)
            finally:
                it.ctx_simplify = False

        paths = it.explore(run)
        lead = z3.SubSeq(cshape, 0, rc - rcs) if cond is not None else z3.Empty(IntSeq)
        kshape = z3.Concat(ss, lead)
        pre = [rc >= rcs, PROD(kshape) >= 0] if cond is not None else [PROD(kshape) >= 0]
        rp = dict(kind="c06", vars={})
        ctx.oblige(f"C06/_get_sample_keys[{cname}]/struct/returns", any(p.outcome == "return" for p in paths), [], props, kind="struct", fn=fnq)
        for i, p in enumerate(p for p in paths if p.outcome == "return"):
            v = p.value
            hyp = pre + p.cond
            size = z3.If(PROD(kshape) >= 1, PROD(kshape), z3.IntVal(1))
            ctx.oblige(f"C06/_get_sample_keys[{cname}]/post/one_key_per_output_element#{i}", v.total == size, hyp, props, fn=fnq, replay=rp)
            ctx.oblige(f"C06/_get_sample_keys[{cname}]/post/key_array_shape#{i}", SymTuple.of(v.shape).s == z3.Concat(kshape, z3.Unit(z3.IntVal(2))) if v.shape is not None else z3.BoolVal(False), hyp, props, fn=fnq, replay=rp)
            a, b = z3.Ints("a b")
            ctx.oblige(f"C06/_get_sample_keys[{cname}]/post/distinct_keys_for_distinct_elements#{i}", v.flat_at(a) != v.flat_at(b), hyp + [a >= 0, b >= 0, a < v.total, b < v.total, a != b], props, fn=fnq, replay=rp, inst=[key_facts])
            ctx.oblige(f"C06/_get_sample_keys[{cname}]/post/all_keys_derive_from_key#{i}", z3.Exists([z3.Int("n!e"), z3.Int("i!e")], v.flat_at(a) == child(key, z3.Int("n!e"), z3.Int("i!e"))), hyp + [a >= 0, a < v.total], props, fn=fnq, replay=rp)


@family("distributions/_vectorize", ["C06", "C13"])
def vectorize_glue(ctx):
    """core shapes per method, excluded condition for unconditional distributions, per-element shape check"""
    it = ctx.interp
    props = ["C06", "C13"]
    fnq = f"{MOD}.AbstractDistribution._vectorize"
    cls = it.repo_class(f"{MOD}.AbstractDistribution")
    rec = {}
    it.global_overrides[MOD] = {"_get_ufunc_signature": lambda i, o: ("sig", tuple(i), tuple(o))}
    it.lib.overrides["jax.numpy.vectorize"] = lambda f, signature=None, excluded=frozenset(): rec.update(f=f, signature=signature, excluded=excluded) or ("vectorized", f)
    it.lib.overrides["functools.wraps"] = lambda m: (lambda g: g)

    class Sig:
        def __init__(self, names):
            self.names = names

        def bind(self, *a, **k):
            class B:
                arguments = dict(zip(self.names, a))
            return B()

    it.lib.overrides["inspect.signature"] = lambda m: Sig(m.argnames)
    S, C = (SV(z3.Int("dim_s0")), SV(z3.Int("dim_s1"))), (SV(z3.Int("dim_c0")),)

    class M:
        def __init__(self, name, argnames):
            self.__name__, self.argnames, self.calls = name, argnames, []

        def __call__(self, *a, **k):
            self.calls.append(a)
            return "out"

    expect = {"_log_prob": ([S], [()]), "_sample": ([(2,)], [S]), "_sample_and_log_prob": ([(2,)], [S, ()])}
    C2 = (SV(z3.Int("dim_c0")), SV(z3.Int("dim_c1")))
    for cname, cs in (("conditional", C), ("unconditional", None), ("conditional_scalar", ()), ("conditional_rank2", C2)):
        self = Obj(cls, shape=S, cond_shape=cs)
        for mname, (ins, outs) in expect.items():
            m = M(mname, ["a0", "condition"])
            rec.clear()
            paths = it.explore(lambda: method(cls, "_vectorize")(self, m))
            p = single(paths, ctx, f"C06/_vectorize[{cname},{mname}]/struct/straight_line", props, fnq)
            if p is None:
                continue
            want_in = list(ins) + ([cs] if cs is not None else [])
            ok_sig = rec.get("signature") == ("sig", tuple(want_in), tuple(outs))
            ctx.oblige(f"C06/_vectorize[{cname},{mname}]/post/core_shapes", ok_sig, [], props, kind="struct", fn=fnq, note=f"signature {rec.get('signature')}", replay=dict(kind="c06", vars={}))
            ok_ex = rec.get("excluded") == (frozenset() if cs is not None else frozenset([1]))
            ctx.oblige(f"C06/_vectorize[{cname},{mname}]/post/condition_excluded_iff_unconditional", ok_ex, [], props, kind="struct", fn=fnq, replay=dict(kind="c06", vars={}))
            # per-element shape check of the wrapped method
            wrapped = rec.get("f")

            class A:
                def __init__(self, shape):
                    self.shape = shape

            xs = z3.Const("arg_shape", IntSeq)
            cshape_ = z3.Const("cond_arg_shape", IntSeq)
            args = (A(SymTuple(xs)), A(SymTuple(cshape_))) if cs is not None else (A(SymTuple(xs)), None)
            core0 = SymTuple.of(tuple(lift_name(d) for d in want_in[0])).s
            bad = xs != core0
            if cs is not None:
                bad = z3.Or(bad, cshape_ != SymTuple.of(tuple(lift_name(d) for d in cs)).s)
            if wrapped is None:
                continue
            ps = it.explore(lambda: wrapped(*args))
            for i, q_ in enumerate(ps):
                if q_.outcome == "raise":
                    ctx.oblige(f"C13/_vectorize._check_shapes[{cname},{mname}]/post/raises_only_if#{i}", z3.And(bad, z3.BoolVal(q_.value.exc == "ValueError")), q_.cond, props, fn=fnq + "._check_shapes", replay=dict(kind="c06", vars={}))
                else:
                    ctx.oblige(f"C13/_vectorize._check_shapes[{cname},{mname}]/post/accepts_only_matching_trailing_dims#{i}", z3.Not(bad), q_.cond, props, fn=fnq + "._check_shapes", replay=dict(kind="c06", vars={}))


_NAMES = {}


def lift_name(d):
    if isinstance(d, int):
        return z3.IntVal(d)
    if isinstance(d, SV):
        return d.e
    if d not in _NAMES:
        _NAMES[d] = z3.Int(f"dim_{d}")
    return _NAMES[d]


@family("distributions/standard_samplers", ["C05", "C04", "C06"])
def standard_samplers(ctx):
    """every standard base draws from ITS OWN family with the caller's key and the distribution's shape (T3: jax.random.<family>
    draws from the standard member of that family; which member is called, with which key and shape, is decided here)"""
    it = ctx.interp
    props = ["C05", "C04", "C06"]
    FAM = {"StandardNormal": "normal", "_StandardUniform": "uniform", "_StandardGumbel": "gumbel", "_StandardCauchy": "cauchy", "_StandardStudentT": "t",
           "_StandardLaplace": "laplace", "_StandardExponential": "exponential", "_StandardLogistic": "logistic"}
    rec = []
    for fam in set(FAM.values()):
        it.lib.overrides[f"jax.random.{fam}"] = (lambda fam: (lambda key, *a, **k: rec.append((fam, key, a, k)) or ("draw", fam)))(fam)
    for cname, fam in sorted(FAM.items()):
        cls = it.repo_class(f"{MOD}.{cname}")
        shape = ("event-shape",)
        fields = dict(shape=shape)
        if cname == "_StandardStudentT":
            fields["df"] = "df"
        o = Obj(cls, **fields)
        del rec[:]
        q = f"{MOD}.{cname}._sample"
        try:
            paths = it.explore(lambda: method(cls, "_sample")(o, "key", None))
        except Exception as ex:  # noqa: BLE001  (a hand-written sampler: outside this model, the fixed-seed KS test of the family decides)
            ctx.oblige(f"C05/{cname}._sample/struct/straight_line", False, [], props, kind="applicability", fn=q, replay=dict(kind="c05", vars={}), note=f"sampler outside the model: {type(ex).__name__}: {str(ex)[:120]}")
            continue
        p = single(paths, ctx, f"C05/{cname}._sample/struct/straight_line", props, q)
        if p is None:
            continue
        ok = len(rec) == 1 and rec[0][0] == fam and rec[0][1] == "key" and p.value == ("draw", fam)
        shp = (rec[0][3].get("shape", rec[0][2][0] if rec[0][2] else None)) if rec else None
        if len(rec) != 1 or p.value != ("draw", rec[0][0]):
            # not `return jax.random.<one family>(key, ...)`: a composite / hand-written sampler may be perfectly right -- model-shape guard
            ctx.oblige(f"C05/{cname}._sample/post/draws_from_its_own_family_with_the_given_key", False, [], props, kind="applicability", fn=q, replay=dict(kind="c05", vars={}), note=f"recorded jax.random calls: {[(r[0], r[1]) for r in rec]}")
            continue
        ctx.oblige(f"C05/{cname}._sample/post/draws_from_its_own_family_with_the_given_key", bool(ok), [], props, kind="struct", fn=q, replay=dict(kind="c05", vars={}), note=f"recorded jax.random calls: {[(r[0], r[1]) for r in rec]}")
        ctx.oblige(f"C05/{cname}._sample/post/sample_has_the_distribution_shape", shp is shape, [], props, kind="struct", fn=q, replay=dict(kind="c05", vars={}))
        if cname == "_StandardStudentT":
            ctx.oblige("C05/_StandardStudentT._sample/post/uses_its_degrees_of_freedom", bool(rec) and rec[0][3].get("df", None) == "df", [], props, kind="struct", fn=q)


@family("bijection/_VectorizedBijection", ["C06", "C11"])
def vectorized_bijection(ctx):
    """bijection._vectorize.<method>: jnp.vectorize of the child's method OF THE SAME NAME with core shapes (shape[, cond_shape]) ->
    (shape[, ()]), the condition excluded iff the bijection is unconditional (C06: batched == elementwise unbatched); it is what
    BijectionReparam applies to a parameter array (C11)"""
    it = ctx.interp
    props = ["C06", "C11"]
    BQ = "flowjax.bijections.bijection"
    q = f"{BQ}._VectorizedBijection"
    cls = it.repo_class(q)
    rec = {}
    it.global_overrides[BQ] = {"_get_ufunc_signature": lambda i, o: ("sig", tuple(i), tuple(o))}

    def vectorize(f, signature=None, excluded=frozenset()):
        rec.update(f=f, signature=signature, excluded=excluded)
        return lambda *a, **k: ("vectorized_call", f, a, k)

    it.lib.overrides["jax.numpy.vectorize"] = vectorize
    S = (SV(z3.Int("dim_s0")), SV(z3.Int("dim_s1")))
    configs = (("conditional", (SV(z3.Int("dim_c0")),)), ("unconditional", None), ("conditional_scalar", ()), ("scalar_event_conditional", (SV(z3.Int("dim_c0")),)))

    class Child:
        def __init__(self, shape, cond_shape):
            self.shape, self.cond_shape = shape, cond_shape

        def transform(self, *a, **k):
            return "t"

        def inverse(self, *a, **k):
            return "i"

        def transform_and_log_det(self, *a, **k):
            return "tl"

        def inverse_and_log_det(self, *a, **k):
            return "il"

    for cname, cs in configs:
        shape = () if cname.startswith("scalar_event") else S
        child = Child(shape, cs)
        self = Obj(cls, bijection=child)
        for mname, with_ld in (("transform", False), ("inverse", False), ("transform_and_log_det", True), ("inverse_and_log_det", True)):
            rec.clear()
            fnq = f"{q}.{mname}"
            p = single(it.explore(lambda: method(cls, mname)(self, "x", "cond")), ctx, f"C06/_VectorizedBijection.{mname}[{cname}]/struct/straight_line", props, fnq)
            if p is None:
                continue
            rp = dict(kind="c06", vars={})
            want_in = [shape] + ([cs] if cs is not None else [])
            want_out = [shape] + ([()] if with_ld else [])
            ctx.oblige(f"C06/_VectorizedBijection.{mname}[{cname}]/post/core_shapes", rec.get("signature") == ("sig", tuple(want_in), tuple(want_out)), [], props, kind="struct", fn=fnq, replay=rp, note=f"signature {rec.get('signature')}")
            ctx.oblige(f"C06/_VectorizedBijection.{mname}[{cname}]/post/condition_excluded_iff_unconditional", rec.get("excluded") == (frozenset() if cs is not None else frozenset([1])), [], props, kind="struct", fn=fnq, replay=rp)
            f = rec.get("f")
            same = getattr(f, "__func__", None) is getattr(Child, mname) and getattr(f, "__self__", None) is child
            ctx.oblige(f"C06/_VectorizedBijection.{mname}[{cname}]/post/vectorises_the_childs_method_of_the_same_name", bool(same), [], props, kind="struct", fn=fnq, replay=rp)
            v = p.value
            okcall = isinstance(v, tuple) and v[0] == "vectorized_call" and v[2] == ("x", "cond") and not v[3]
            ctx.oblige(f"C06/_VectorizedBijection.{mname}[{cname}]/post/applied_to_x_and_condition", bool(okcall), [], props, kind="struct", fn=fnq, replay=rp)
