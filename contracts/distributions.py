"""Contracts for flowjax/distributions.py: AbstractTransformed (C03), named families (C05), vectorisation glue (C06)."""
import z3

from fjvc.core import family
from fjvc.interp import Obj
from fjvc.values import SV, lift, to_real, R

from .abstract import AbsBij, AbsDist, TV, T, BIJ, DIST, KEY, F, G, LD, LP, S, NONE, B_instances
from .leaves import method, single

MOD = "flowjax.distributions"


@family("distributions/AbstractTransformed", ["C03", "C04", "C05", "C17"])
def transformed(ctx):
    """change of variables on all three evaluation paths, for an ABSTRACT base distribution (contract D) and an ABSTRACT
    bijection (contract B): hence for every premade flow, every orientation, nested Transformed by induction."""
    it = ctx.interp
    cls = it.repo_class(f"{MOD}.AbstractTransformed")
    b, d = z3.Const("b", BIJ), z3.Const("d", DIST)
    x, c, k = z3.Const("x", T), z3.Const("c", T), z3.Const("key", KEY)
    props = ["C03", "C04", "C05", "C17"]
    inst = [B_instances]
    for cond_name, cond in (("conditional", TV(c)), ("unconditional", None)):
        cc = c if cond is not None else NONE
        bij, base = AbsBij(b), AbsDist(d)
        self = Obj(cls, base_dist=base, bijection=bij)
        q = f"{MOD}.AbstractTransformed"
        p_lp = single(it.explore(lambda: method(cls, "_log_prob")(self, TV(x), cond)), ctx, f"C03/AbstractTransformed._log_prob[{cond_name}]/struct/straight_line", props, q + "._log_prob")
        p_s = single(it.explore(lambda: method(cls, "_sample")(self, TV(k), cond)), ctx, f"C03/AbstractTransformed._sample[{cond_name}]/struct/straight_line", props, q + "._sample")
        p_sl = single(it.explore(lambda: method(cls, "_sample_and_log_prob")(self, TV(k), cond)), ctx, f"C03/AbstractTransformed._sample_and_log_prob[{cond_name}]/struct/straight_line", props, q + "._sample_and_log_prob")
        if None in (p_lp, p_s, p_sl):
            continue
        rp = dict(kind="transformed", vars={})
        # log_prob(x) = base log-density at the inverse image of x + inverse log-determinant (written from the statement)
        z = G(b, x, cc)
        lp_spec = lambda xx: LP(d, G(b, xx, cc), cc) + (-LD(b, G(b, xx, cc), cc))  # noqa: E731
        ctx.oblige(f"C03/AbstractTransformed._log_prob[{cond_name}]/post/change_of_variables", lift(p_lp.value) == lp_spec(x), p_lp.cond, props, fn=q + "._log_prob", replay=rp, inst=inst)
        ctx.control(f"C03/AbstractTransformed._log_prob[{cond_name}]/control/sign", lift(p_lp.value) == LP(d, z, cc) + LD(b, z, cc), p_lp.cond, props, fn=q + "._log_prob", inst=inst)
        # a sample drawn with a key is the bijection applied to the base sample for that key (condition to BOTH)
        s_spec = F(b, S(d, k, cc), cc)
        ctx.oblige(f"C03/AbstractTransformed._sample[{cond_name}]/post/pushforward", p_s.value.e == s_spec, p_s.cond, props, fn=q + "._sample", replay=rp, inst=inst)
        # the log-probability returned together with a sample equals log_prob evaluated at that sample
        smp, lpv = p_sl.value
        ctx.oblige(f"C03/AbstractTransformed._sample_and_log_prob[{cond_name}]/post/same_sample", smp.e == s_spec, p_sl.cond, props, fn=q + "._sample_and_log_prob", replay=rp, inst=inst)
        ctx.oblige(f"C03/AbstractTransformed._sample_and_log_prob[{cond_name}]/post/log_prob_of_sample", lift(lpv) == lp_spec(s_spec), p_sl.cond, props, fn=q + "._sample_and_log_prob", replay=rp, inst=inst)
        ctx.control(f"C03/AbstractTransformed._sample_and_log_prob[{cond_name}]/control/plus_forward_logdet", lift(lpv) == LP(d, S(d, k, cc), cc) + LD(b, S(d, k, cc), cc), p_sl.cond, props, fn=q + "._sample_and_log_prob", inst=inst)
        # struct/reentry: children are entered through public / contract names only, each with the caller's condition
        ok = all(cnd is cond for (_m, _a, cnd) in bij.calls)
        ctx.oblige(f"C03/AbstractTransformed[{cond_name}]/struct/condition_passed_to_bijection", ok, [], props, kind="struct", fn=q)
    # default AbstractDistribution._sample_and_log_prob (contract D is what the override of a concrete family must satisfy)
    acls = it.repo_class(f"{MOD}.AbstractDistribution")

    class Conc(AbsDist):
        pass

    base = AbsDist(d)
    selfd = Obj(acls)
    object.__getattribute__(selfd, "_fields").update(_sample=base._sample, _log_prob=base._log_prob)
    p = single(it.explore(lambda: method(acls, "_sample_and_log_prob")(selfd, TV(k), TV(c))), ctx, "C03/AbstractDistribution._sample_and_log_prob/struct/straight_line", props, f"{MOD}.AbstractDistribution._sample_and_log_prob")
    if p is not None:
        smp, lpv = p.value
        ctx.oblige("C03/AbstractDistribution._sample_and_log_prob/post/contract_D", z3.And(smp.e == S(d, k, c), lift(lpv) == LP(d, S(d, k, c), c)), p.cond, props, fn=f"{MOD}.AbstractDistribution._sample_and_log_prob")


@family("distributions/merge_transforms", ["C03", "C08"])
def merge_transforms(ctx):
    """merge_transforms never changes the function.  BOUNDED in the nesting depth (1..4 nested Transformed, loop unrolled by the
    executor on concrete object structure); unbounded in everything else (abstract bijections, base, inputs, conditions)."""
    it = ctx.interp
    it.global_overrides["flowjax.bijections.chain"] = {"unwrap": lambda t: t}
    tcls = it.repo_class(f"{MOD}.Transformed")
    acls = it.repo_class(f"{MOD}.AbstractTransformed")
    d = z3.Const("d", DIST)
    x, c, k = z3.Const("x", T), z3.Const("c", T), z3.Const("key", KEY)
    props = ["C03", "C08"]
    inst = [B_instances]
    n_ = SV(z3.Int("n"))
    for depth in (1, 2, 3, 4):
        bs = [z3.Const(f"b{j}", BIJ) for j in range(depth)]

        def build():
            dist = AbsDist(d, shape=(n_,))
            for j in range(depth):  # innermost first: b0 is applied first when sampling
                dist = tcls(dist, AbsBij(bs[j], shape=(n_,)))
            return dist

        def run(which):
            def thunk():
                nested = build()
                merged = nested.merge_transforms()
                a = getattr(nested, which)(TV(x) if which == "_log_prob" else TV(k), TV(c))
                m = getattr(merged, which)(TV(x) if which == "_log_prob" else TV(k), TV(c))
                return nested, merged, a, m
            return it.explore(thunk)

        fnq = f"{MOD}.AbstractTransformed.merge_transforms"
        for which in ("_log_prob", "_sample", "_sample_and_log_prob"):
            paths = run(which)
            p = single(paths, ctx, f"C03/merge_transforms[depth={depth}]/{which}/struct/straight_line", props, fnq)
            if p is None:
                continue
            nested, merged, a, m = p.value
            if which == "_log_prob":
                goal = lift(a) == lift(m)
            elif which == "_sample":
                goal = a.e == m.e
            else:
                goal = z3.And(a[0].e == m[0].e, lift(a[1]) == lift(m[1]))
            ctx.oblige(f"C03/merge_transforms[depth={depth}]/post/same{which}", goal, p.cond, props, kind="bounded/depth<=4", fn=fnq, inst=inst, replay=dict(kind="merge_transforms", depth=depth, vars={}))
            from fjvc.interp import obj_class
            flat = not obj_class(merged.base_dist).issubclass_of(acls) if isinstance(merged.base_dist, Obj) else True
            ctx.oblige(f"C03/merge_transforms[depth={depth}]/post/base_not_transformed{which}", flat, [], props, kind="struct", fn=fnq)
