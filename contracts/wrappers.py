"""C12: unwrapping applies every wrapper exactly once; frozen parameters never move.

The real `unwrap` / `recursive_unwrap` / wrapper `unwrap()` methods are executed on wrapper nestings of bounded structure
(<= 3 levels, every wrapper kind, containers) with SYMBOLIC leaf values; the pytree recursion itself (jax.tree_util /
equinox partition-combine) is the T3 library model.  The two training loops are executed with a model containing frozen
(NonTrainable) and non-floating leaves and an arbitrary optimiser: those leaves are the SAME terms before and after.
"""
import z3

from fjvc.core import family
from fjvc.interp import Obj, obj_class, obj_fields, LoopSpec, Env
from fjvc.lib import Dummy, tree_map, tree_leaves, is_inexact_array
from fjvc.values import SV, SymSeq, SymList, Opaque, UF, lift, to_real, R, I

from .leaves import method, single

W = "flowjax.wrappers"
exp, log = UF["exp"], UF["log"]


def real(name, **tags):
    return SV(z3.Real(name), elem=True, tags=dict(shape=("n",), **tags))


def install(it):
    lib = it.lib.overrides
    # T3 jax.lax.stop_gradient: identity on array values with a zero cotangent; a Python int / float / bool leaf comes back as a
    # jax ARRAY (measured: stop_gradient(2) is Array(2, dtype=int32, weak_type=True)) -- i.e. a tracer under jit, which static
    # fields such as `shape` must never become
    def stop_gradient(t):
        def leaf(x):
            if isinstance(x, SV):
                return SV(x.e, x.elem, dict(x.tags or {}, nograd=True))
            if isinstance(x, (bool, int, float, complex)):
                return ArrayifiedScalar(x)
            return x
        return tree_map(leaf, t)

    lib["jax.lax.stop_gradient"] = stop_gradient
    lib["jax.numpy.vectorize"] = lambda f, signature=None, excluded=frozenset(): (lambda x, c=None: f(x, c))
    lib["jax.numpy.asarray"] = lambda a, *r, **k: a
    from fjvc.lib import TypeMarker
    lib["jaxtyping.ArrayLike"] = TypeMarker("ArrayLike", check=lambda v: True)


class ArrayifiedScalar:
    """a Python scalar that went through a jax primitive: no longer a static Python value"""

    def __init__(self, v):
        self.v = v

    def __repr__(self):
        return f"jax.Array({self.v!r})"


def wrapper_free(it, tree):
    AU = it.repo_class(f"{W}.AbstractUnwrappable")
    found = []

    def visit(x):
        if isinstance(x, Obj):
            if obj_class(x).issubclass_of(AU):
                found.append(x)
            for v in obj_fields(x).values():
                visit(v)
        elif isinstance(x, (tuple, list)):
            for v in x:
                visit(v)
        elif isinstance(x, dict):
            for v in x.values():
                visit(v)

    visit(tree)
    return not found


def same_tree(a, b):
    """structural equality of two (wrapper-free) trees with z3 equality at symbolic leaves -> (python bool structure ok, [z3 eqs])"""
    eqs = []

    def rec(x, y):
        if isinstance(x, SV) and isinstance(y, SV):
            eqs.append(x.e == y.e)
            return True
        if isinstance(x, Obj) and isinstance(y, Obj):
            fx, fy = obj_fields(x), obj_fields(y)
            return obj_class(x) is obj_class(y) and fx.keys() == fy.keys() and all(rec(fx[k], fy[k]) for k in fx)
        if isinstance(x, (tuple, list)) and isinstance(y, (tuple, list)):
            return len(x) == len(y) and all(rec(p, q) for p, q in zip(x, y))
        if isinstance(x, dict) and isinstance(y, dict):
            return x.keys() == y.keys() and all(rec(x[k], y[k]) for k in x)
        return x is y or x == y

    ok = rec(a, b)
    return ok, eqs


def identical_leaves(x, y):
    """same structure and the very same leaf objects (bit-identical values)"""
    if isinstance(x, Obj) and isinstance(y, Obj):
        fx, fy = obj_fields(x), obj_fields(y)
        return obj_class(x) is obj_class(y) and fx.keys() == fy.keys() and all(identical_leaves(fx[k], fy[k]) for k in fx)
    if isinstance(x, (tuple, list)) and isinstance(y, (tuple, list)):
        return len(x) == len(y) and all(identical_leaves(p, q) for p, q in zip(x, y))
    if isinstance(x, dict) and isinstance(y, dict):
        return x.keys() == y.keys() and all(identical_leaves(x[k], y[k]) for k in x)
    if isinstance(x, SV) or isinstance(y, SV):
        return x is y
    return x is y or x == y


@family("wrappers/unwrap", ["C12", "C09", "C11"])
def unwrap_nestings(ctx):
    it = ctx.interp
    install(it)
    props = ["C12", "C09", "C11"]
    fnq = f"{W}.unwrap"
    unwrap = it.repo_function(fnq)
    Where, NonT, Lam, BR = (it.repo_class(f"{W}.{n}") for n in ("Where", "NonTrainable", "Lambda", "BijectionReparam"))
    SP = it.repo_class("flowjax.bijections.softplus.SoftPlus")
    Aff = it.repo_class("flowjax.bijections.affine.Affine")
    a, b, c, m = real("a"), real("b"), real("c"), SV(z3.Bool("mask"), elem=True, tags=dict(shape=("n",)))

    def mkW(cond, t, f):
        return Obj(Where, cond=cond, if_true=t, if_false=f)

    def mkN(tree):
        return Obj(NonT, tree=tree)

    def mkBR(arr):
        return Obj(BR, arr=arr, bijection=Obj(SP, shape=()), _dummy=Dummy(()))

    softplus = lambda e: log(1 + exp(e))  # noqa: E731
    double = it.make_function(__import__("ast").parse("lambda v, w=0: v + v + w").body[0].value, it.module_env(W), "contract.<lambda double>")

    def mkL(*args, **kw):
        return Obj(Lam, fn=double, args=args, kwargs=kw, _dummy=Dummy(()))

    cases = {
        "Where": (mkW(m, a, b), lambda: z3.If(m.e, a.e, b.e)),
        "NonTrainable(leaf)": (mkN(a), lambda: a.e),
        "BijectionReparam": (mkBR(a), lambda: softplus(a.e)),
        "Lambda(args)": (mkL(a, w=b), lambda: a.e + a.e + b.e),
        "Where(mask, BijectionReparam, Where)": (mkW(m, mkBR(a), mkW(m, b, c)), lambda: z3.If(m.e, softplus(a.e), z3.If(m.e, b.e, c.e))),
        "BijectionReparam(Where(BijectionReparam))": (mkBR(mkW(m, mkBR(a), b)), lambda: softplus(z3.If(m.e, softplus(a.e), b.e))),
        "Lambda(BijectionReparam, NonTrainable)": (mkL(mkBR(a), w=mkN(b)), lambda: softplus(a.e) + softplus(a.e) + b.e),
        "NonTrainable(Where(BijectionReparam))": (mkN(mkW(m, mkBR(a), b)), lambda: z3.If(m.e, softplus(a.e), b.e)),
    }
    for name, (tree, spec) in cases.items():
        paths = it.explore(lambda tree=tree: unwrap(tree))
        p = single(paths, ctx, f"C12/unwrap[{name}]/struct/straight_line", props, fnq)
        if p is None:
            continue
        v = p.value
        ctx.oblige(f"C12/unwrap[{name}]/post/value", (lift(v) == spec()) if isinstance(v, SV) else z3.BoolVal(False), p.cond, props, kind="bounded/structure", fn=fnq, replay=dict(kind="c12", vars={}))
        p2 = it.explore(lambda v=v: unwrap(v))
        idem = len(p2) == 1 and p2[0].outcome == "return" and isinstance(p2[0].value, SV) and isinstance(v, SV) and p2[0].value.e.eq(v.e)
        ctx.oblige(f"C12/unwrap[{name}]/post/idempotent", bool(idem), [], props, kind="struct", fn=fnq)
        if "NonTrainable" in name:
            flagged = isinstance(v, SV) and bool((v.tags or {}).get("nograd")) if name.startswith("NonTrainable") else True
            ctx.oblige(f"C12/unwrap[{name}]/post/frozen_leaves_have_no_gradient", bool(flagged), [], props, kind="struct", fn=f"{W}.NonTrainable.unwrap", note="stop_gradient applied to every array-like leaf (T3: zero cotangent)")
    # wrappers inside containers / modules: every wrapper node replaced, everything else untouched, result wrapper-free
    aff = Obj(Aff, loc=a, scale=mkBR(b), shape=("n",))
    tree = {"model": aff, "list": [mkW(m, a, c), 3, "static"], "tuple": (mkN({"w": c, "k": 7}), None)}
    paths = it.explore(lambda: unwrap(tree))
    p = single(paths, ctx, "C12/unwrap[containers]/struct/straight_line", props, fnq)
    if p is not None:
        v = p.value
        expect = {"model": Obj(Aff, loc=a, scale=SV(softplus(b.e)), shape=("n",)), "list": [SV(z3.If(m.e, a.e, c.e)), 3, "static"], "tuple": ({"w": c, "k": 7}, None)}
        ok, eqs = same_tree(v, expect)
        ctx.oblige("C12/unwrap[containers]/post/structure_preserved_wrappers_replaced", bool(ok), [], props, kind="struct", fn=fnq, replay=dict(kind="c12", vars={}), note="static Python leaves (ints such as shapes, strings) must come back as the same Python values")
        if ok:
            ctx.oblige("C12/unwrap[containers]/post/values", z3.And(*eqs) if eqs else z3.BoolVal(True), p.cond, props, kind="bounded/structure", fn=fnq)
        ctx.oblige("C12/unwrap[containers]/post/wrapper_free", wrapper_free(it, v), [], props, kind="struct", fn=fnq)
        p2 = it.explore(lambda: unwrap(v))
        ok2 = len(p2) == 1 and p2[0].outcome == "return" and same_tree(p2[0].value, v)[0]
        ctx.oblige("C12/unwrap[containers]/post/idempotent", bool(ok2), [], props, kind="struct", fn=fnq)
    # non_trainable(): wraps exactly the inexact array leaves
    nt = it.repo_function(f"{W}.non_trainable")
    k_int = SV(z3.Int("k"), elem=True, tags=dict(shape=("n",)))
    t0 = {"a": a, "k": k_int, "s": "str", "frozen": mkN(b)}
    p = single(it.explore(lambda: nt(t0)), ctx, "C12/non_trainable/struct/straight_line", props, f"{W}.non_trainable")
    if p is not None:
        v = p.value
        ok = isinstance(v["a"], Obj) and obj_class(v["a"]) is NonT and v["a"].tree is a and v["k"] is k_int and v["s"] == "str" and v["frozen"] is t0["frozen"]
        ctx.oblige("C12/non_trainable/post/wraps_exactly_inexact_leaves", bool(ok), [], props, kind="struct", fn=f"{W}.non_trainable")


# --------------------------------------------------------------------------------------
class Ver:
    """ghost: which optimiser update produced this leaf value"""


def fresh_like(it, tree, tag):
    return tree_map(lambda x: SV(it.fresh(tag, "real"), getattr(x, "elem", False), getattr(x, "tags", None)) if isinstance(x, SV) else x, tree)


@family("wrappers/frozen_in_training", ["C12"])
def frozen_in_training(ctx):
    """both training loops, any optimiser, any number of steps/epochs: frozen (NonTrainable) subtrees and all non-floating
    leaves of the returned model are the SAME terms as in the model passed in; floating leaves outside are the optimised ones"""
    props = ["C12"]
    for loop in ("fit_to_variational_target", "fit_to_data"):
        it = ctx.new_interp()
        install(it)
        NonT = it.repo_class(f"{W}.NonTrainable")
        a, b, c = real("a"), real("b"), real("c")
        k_int = SV(z3.Int("k"), elem=True, tags=dict(shape=("n",)))
        mask = SV(z3.Bool("mask"), elem=True, tags=dict(shape=("n",)))
        frozen = Obj(NonT, tree={"w": b, "inner": (c,)})
        dist = {"train": a, "frozen": frozen, "count": 3, "ints": k_int, "mask": mask, "name": "flow"}
        MOD = "flowjax.train.variational_fit" if loop == "fit_to_variational_target" else "flowjax.train.data_fit"
        fnq = f"{MOD}.{loop}"
        seen = {}

        def step(params, static, *args, optimizer=None, opt_state=None, loss_fn=None, **kw):
            # contract of step (C16/step family): ONLY `params` is updated (apply_updates on its non-None leaves)
            seen.setdefault("params_trees", []).append(params)
            return fresh_like(it, params, "updated"), Opaque("opt_state"), LossV(it.fresh("loss", "real"))

        class LossV(SV):
            def item(self):
                return SV(self.e)

        it.lib.overrides.update({"optax.adam": lambda lr: Opaque("adam"), "tqdm.tqdm": lambda seq, **k: TqdmSeq(seq.length, seq._at, seq.elem) if isinstance(seq, SymSeq) else seq,
                                 "jax.random.permutation": lambda k, a_, **kw: Opaque("perm")})

        class TqdmSeq(SymSeq):
            postfix = ""

            def set_postfix(self, *a_, **k):
                pass

            def set_postfix_str(self, *a_, **k):
                pass

        def struct_ok(params):
            # invariant on the trainable partition: None exactly at frozen and non-inexact leaves
            return isinstance(params, dict) and isinstance(params.get("train"), SV) and params.get("frozen") is None and params.get("count") is None and params.get("ints") is None and params.get("mask") is None and params.get("name") is None

        ov = {"step": step}
        if loop == "fit_to_variational_target":
            it.lib.overrides["jax.random.split"] = lambda key, n=2: SymSeq(lift(n), lambda k: ("key", k), "key")

            def havoc(t, env):
                h = Env(env.parent)
                h.update(env)
                h["losses"] = SymList(it.fresh("n_losses", "int"), z3.Array(f"losses!{it.fresh_counter}", I, R))
                h["params"] = fresh_like(it, env["params"], "p")
                h["best_params"] = fresh_like(it, env["best_params"], "bp")
                h["opt_state"] = Opaque("opt_state")
                h["loss"] = None
                h["key"] = None
                return h

            it.loop_specs[(fnq, "for#0")] = LoopSpec(lambda t, env, entry=None: z3.BoolVal(struct_ok(env["params"]) and struct_ok(env["best_params"])), havoc)
            it.global_overrides[MOD] = ov
            fn = it.repo_function(fnq)
            paths = it.explore(lambda: fn("key", dist, Opaque("loss_fn"), steps=SV(z3.Int("steps")), optimizer=Opaque("any optimizer"), return_best=SV(z3.Bool("return_best")), show_progress=False))
        else:
            it.lib.overrides["jax.random.split"] = lambda key, n=2: tuple(Opaque(f"key{i}") for i in range(n))
            it.lib.overrides["jax.numpy.array"] = lambda a_, *r, **k: SymList.of(a_) if isinstance(a_, (SymList, list)) else a_
            it.lib.overrides["jax.numpy.argmin"] = lambda a_, **k: SymList.of(a_).argmin()

            def get_batches(arrays, batch_size):
                n = it.fresh("n_batches", "int")
                it.assume(n >= 1)
                return tuple(SymSeq(n, (lambda k, a_=a_: ("batch", a_, k)), "batch") for a_ in arrays)

            ov.update({"get_batches": get_batches, "train_val_split": lambda key, arrays, val_prop=0.1: ([Opaque("train") for _ in arrays], [Opaque("val") for _ in arrays])})

            def havoc_outer(e, env):
                h = Env(env.parent)
                h.update(env)
                c_ = it.fresh_counter
                h["losses"] = {"train": SymList(it.fresh("n_tr", "int"), z3.Array(f"train!{c_}", I, R)), "val": SymList(it.fresh("n_va", "int"), z3.Array(f"val!{c_}", I, R))}
                h["params"] = fresh_like(it, env["params"], "p")
                h["best_params"] = fresh_like(it, env["best_params"], "bp")
                for name in ("opt_state", "key", "subkey", "subkeys", "batch_losses", "loss_i", "batch"):
                    h[name] = Opaque(name)
                h["train_data"] = [Opaque("t") for _ in env["train_data"]]
                h["val_data"] = [Opaque("v") for _ in env["val_data"]]
                return h

            def havoc_inner(which):
                def hv(b_, env):
                    h = Env(env.parent)
                    h.update(env)
                    h["batch_losses"] = SymList(it.fresh("n_bl", "int"), z3.Array(f"bl!{it.fresh_counter}", I, R))
                    if which == "train":
                        h["params"] = fresh_like(it, env["params"], "p")
                        h["opt_state"] = Opaque("opt_state")
                    for name in ("key", "subkey", "loss_i", "batch"):
                        h[name] = Opaque(name)
                    return h
                return hv

            inv_ok = lambda t, env, entry=None: z3.BoolVal(struct_ok(env["params"]) and struct_ok(env["best_params"]))  # noqa: E731
            it.loop_specs[(fnq, "for#0")] = LoopSpec(inv_ok, havoc_outer, break_inv=inv_ok)
            it.loop_specs[(fnq, "for#1")] = LoopSpec(inv_ok, havoc_inner("train"), name="inv_train")
            it.loop_specs[(fnq, "for#2")] = LoopSpec(inv_ok, havoc_inner("val"), name="inv_val")
            it.global_overrides[MOD] = ov

            class LossFn:
                def __call__(self, params, static, *batch, key=None):
                    return SV(it.fresh("val_loss", "real"))

            fn = it.repo_function(fnq)
            paths = it.explore(lambda: fn(Opaque("key"), dist, Opaque("x"), loss_fn=LossFn(), max_epochs=SV(z3.Int("max_epochs")), max_patience=SV(z3.Int("max_patience")),
                                          batch_size=SV(z3.Int("batch_size")), return_best=SV(z3.Bool("return_best")), optimizer=Opaque("any optimizer"), show_progress=False))
        normal = [p for p in paths if p.outcome == "return"]
        ctx.oblige(f"C12/{loop}/struct/returns", len(normal) >= 1, [], props, kind="struct", fn=fnq, replay=dict(kind="c12", vars={}))
        seen_obl = set()
        for i, p in enumerate(normal):
            for em in p.obligations:
                key_ = (em.oid, em.goal.get_id() if hasattr(em.goal, 'get_id') else str(em.goal))
                if key_ in seen_obl:
                    continue
                seen_obl.add(key_)
                ctx.oblige(f"C12/{loop}/{em.oid.replace(MOD + '.', '')}#{len(seen_obl)}", em.goal, em.hyps, props, kind=em.kind, fn=fnq, note="the trainable partition holds None at every frozen and non-floating leaf")
            out = p.value[0]
            ok = isinstance(out, dict) and identical_leaves(out.get("frozen"), frozen) and out.get("count") == 3 and out.get("ints") is k_int and out.get("mask") is mask and out.get("name") == "flow" and isinstance(out.get("train"), SV)
            ctx.oblige(f"C12/{loop}/post/frozen_and_non_floating_leaves_identical#{i}", bool(ok), [], props, kind="struct", fn=fnq, replay=dict(kind="c12", vars={}),
                       note="returned model = combine(params', static): NonTrainable subtrees, ints, bools and non-arrays are the very same terms as in the input model")
        pts = seen.get("params_trees", [])
        ctx.oblige(f"C12/{loop}/post/optimiser_never_sees_frozen_leaves", len(pts) >= 1 and all(struct_ok(t) for t in pts), [], props, kind="struct", fn=fnq, replay=dict(kind="c12", vars={}))


@family("wrappers/get_ravelled_pytree_constructor", ["C12", "C09"])
def ravelled_constructor(ctx):
    """coupling / masked-autoregressive conditioners parameterise only the inexact leaves OUTSIDE NonTrainable"""
    it = ctx.interp
    install(it)
    props = ["C12", "C09"]
    fnq = "flowjax.utils.get_ravelled_pytree_constructor"
    NonT = it.repo_class(f"{W}.NonTrainable")
    a, b = real("a"), real("b")
    k_int = SV(z3.Int("k"), elem=True, tags=dict(shape=("n",)))
    frozen = Obj(NonT, tree=b)
    tree = {"p": a, "frozen": frozen, "k": k_int}
    rec = {}

    def ravel_pytree(params):
        rec["params"] = params
        leaves = [x for x in tree_leaves(params) if x is not None]
        return ("init", leaves), (lambda flat: tree_map(lambda x: SV(z3.Real("from_flat")) if isinstance(x, SV) else x, params))

    it.lib.overrides["jax.flatten_util.ravel_pytree"] = ravel_pytree
    it.builtins_len_override = True
    fn = it.repo_function(fnq)

    class Flat:
        def __add__(self, o):
            return self
        __radd__ = __add__

    orig_len = it.builtins["len"]
    it.builtins["len"] = lambda x: len(x[1]) if isinstance(x, tuple) and x and x[0] == "init" else orig_len(x)
    paths = it.explore(lambda: fn(tree))
    p = single(paths, ctx, "C12/get_ravelled_pytree_constructor/struct/straight_line", props, fnq)
    if p is None:
        return
    ctor, num = p.value
    prm = rec.get("params")
    ok = isinstance(prm, dict) and prm.get("p") is a and prm.get("frozen") is None and prm.get("k") is None
    ctx.oblige("C12/get_ravelled_pytree_constructor/post/only_trainable_inexact_leaves_parameterised", bool(ok), [], props, kind="struct", fn=fnq, replay=dict(kind="c12", vars={}))
    ctx.oblige("C12/get_ravelled_pytree_constructor/post/parameter_count", num == 1, [], props, kind="struct", fn=fnq, replay=dict(kind="c12", vars={}))
    pc = it.explore(lambda: ctor(Flat()))
    ok2 = len(pc) == 1 and pc[0].outcome == "return" and isinstance(pc[0].value, dict) and identical_leaves(pc[0].value.get("frozen"), frozen) and pc[0].value.get("k") is k_int
    ctx.oblige("C12/get_ravelled_pytree_constructor/post/frozen_leaves_pass_through_constructor", bool(ok2), [], props, kind="struct", fn=fnq, replay=dict(kind="c12", vars={}))
