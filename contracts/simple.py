"""Permute, Flip, AdditiveCondition (C01, C02, C07, C11): arrays of ANY rank are modelled by their flattened (C-order) entry
function over a symbolic size.

T3 contracts (assumptions, listed in the evidence):
  unravel_index / advanced indexing   x[tuple(unravel_index(f, shape))][i] == x.ravel()[f[i]]  (unravel is the inverse of ravel)
  sort / argsort                      p.ravel().sort() == arange(size)  iff  p is a permutation of 0..size-1; then
                                      argsort(p) is its inverse: p[argsort(p)[i]] == i and argsort(p)[p[i]] == i, values in range
  flip (all axes)                     flip(x).ravel()[i] == x.ravel()[size-1-i]
  |det| of a permutation matrix is 1 (log-det 0)
"""
import z3

from fjvc.core import family
from fjvc.interp import Obj, PyRaise, Untranslatable
from fjvc.values import SV, SymSeq, UF, lift, to_real, R, I

from .leaves import method, single
from .masks import IVec

n = z3.Int("size")
i_ = z3.Int("i")


class FlatArr:
    """real array of any rank given by its flattened entry function"""
    is_array = True

    inner = 1  # product of the trailing axes' sizes (1 = rank-1 array); set per configuration

    def __init__(self, size, f, inner=None):
        self.n, self.f = size, f
        if inner is not None:
            self.inner = inner

    def __getitem__(self, idx):
        if isinstance(idx, slice) and idx.start is None and idx.stop is None and idx.step == -1:
            # reversal of the LEADING axis only: flat index i = a * inner + b  ->  (n0 - 1 - a) * inner + b
            m = self.inner
            return FlatArr(self.n, lambda i: self.f((self.n / m - 1 - i / m) * m + i % m), m)
        if isinstance(idx, SymSeq) and getattr(idx, "unravel_of", None) is not None:
            flat = idx.unravel_of
            return FlatArr(flat.n, lambda i: self.f(flat.f(i)))
        if isinstance(idx, tuple) and idx and all(isinstance(q, Part) for q in idx) and all(q.flat is idx[0].flat and q.k == n_ and q.rank == len(idx) for n_, q in enumerate(idx)):
            flat = idx[0].flat  # every axis' index array of ONE unravel_index call, in axis order
            return FlatArr(flat.n, lambda i: self.f(flat.f(i)))
        raise Untranslatable("array index that is not tuple(unravel_index(...))")

    def _bin(self, o, op):
        if isinstance(o, FlatArr):
            return FlatArr(self.n, lambda i: op(self.f(i), o.f(i)))
        k = to_real(lift(o))
        return FlatArr(self.n, lambda i: op(self.f(i), k))

    def __add__(self, o):
        return self._bin(o, lambda a, b: a + b)

    def __sub__(self, o):
        return self._bin(o, lambda a, b: a - b)


class Parts(SymSeq):
    """tuple(unravel_index(flat, shape)): one index array per axis; element k carries the flat array it was made from"""

    def __init__(self, flat, rank):
        super().__init__(rank, lambda k: Part(flat, k), "obj")
        self.unravel_of = flat

    def map(self, f):
        out = SymSeq.map(self, f)
        probe = f(z3.Int("axis!b"))
        if isinstance(probe, Part):  # reshape of every part to the array's shape: still the parts of the same flat index array
            out.unravel_of = probe.flat
        return out


class Part:
    def __init__(self, flat, k, rank=None):
        self.flat, self.k, self.rank = flat, k, rank


def perm_lib(it, P, PINV, is_perm, concrete_rank=None):
    lib = it.lib.overrides
    rank = z3.Int("rank")

    class PermArr(IVec):
        @property
        def shape(self):
            return ("shape-of-permutation",)

        @property
        def size(self):
            return SV(self.n)

        def ravel(self):
            return self

        def sort(self):
            return Sorted(self)

    class Sorted:
        def __init__(self, v):
            self.v = v

        def __ne__(self, o):
            # T3: sorted(p) == arange(size) iff p is a permutation of 0..size-1
            if isinstance(o, IVec):
                return SV(z3.Not(is_perm), True)
            return NotImplemented

    lib["jax.numpy.arange"] = lambda m, dtype=None: IVec(lift(m), lambda i: i)
    lib["jax.numpy.unravel_index"] = (lambda flat, shape: Parts(flat, rank)) if concrete_rank is None else (lambda flat, shape: tuple(Part(flat, k, concrete_rank) for k in range(concrete_rank)))
    lib["jax.numpy.reshape"] = lambda a, shape: a
    lib["jax.numpy.argsort"] = lambda v: PermArr(v.n, lambda i: PINV(i))

    def error_if(x, pred, msg):
        if it.truth(pred if isinstance(pred, SV) else SV(lift(pred))):
            raise PyRaise("EquinoxRuntimeError", msg)
        return x

    lib["equinox.error_if"] = error_if
    return PermArr


@family("simple/Permute", ["C01", "C02", "C07", "C11"])
def permute(ctx):
    """any rank (symbolic) when the constructor handles the per-axis index arrays uniformly; if it loops over them explicitly the
    same obligations are generated for ranks 1, 2 and 3 (bounded in rank, unbounded in size)"""
    try:
        _permute(ctx, ctx.interp, None)
    except Untranslatable:
        del ctx.obligations[:]
        for r in (1, 2, 3):
            _permute(ctx, ctx.new_interp(), r)


def _permute(ctx, it, concrete_rank):
    props = ["C01", "C02", "C07", "C11"]
    Q = "flowjax.bijections.utils.Permute"
    P, PINV = z3.Function("permutation", I, I), z3.Function("argsort_of_permutation", I, I)
    is_perm = z3.Bool("is_a_permutation")
    PermArr = perm_lib(it, P, PINV, is_perm, concrete_rank)
    if concrete_rank is not None:
        _oblige, _control, _ctx0 = ctx.oblige, ctx.control, ctx

        class _Tagged:
            """obligation ids carry the rank in the bounded fall-back"""
            def __getattr__(self, name):
                return getattr(_ctx0, name)

            def oblige(self, oid, *a, **k):
                return _oblige(oid.replace("Permute", f"Permute[rank={concrete_rank}]", 1), *a, **k)

            def control(self, oid, *a, **k):
                return _control(oid.replace("Permute", f"Permute[rank={concrete_rank}]", 1), *a, **k)

        ctx = _Tagged()
    it.global_overrides["flowjax.bijections.utils"] = {"arraylike_to_array": lambda a, *r, **k: a}
    cls = it.repo_class(Q)
    p = PermArr(n, lambda i: P(i))
    paths = it.explore(lambda: cls(p))
    ok = [q for q in paths if q.outcome == "return"]
    rp = dict(kind="simple", cls="Permute", vars={})
    ctx.oblige("C11/Permute.__init__/struct/has_success_path", len(ok) == 1, [], props, kind="struct", fn=Q + ".__init__")
    for k, q in enumerate(paths):
        if q.outcome == "raise":
            ctx.oblige(f"C11/Permute.__init__/post/rejects_only_non_permutations#{k}", z3.Not(is_perm), q.cond, props, fn=Q + ".__init__", replay=rp)
        else:
            ctx.oblige(f"C11/Permute.__init__/post/accepts_only_permutations#{k}", is_perm, q.cond, props, fn=Q + ".__init__", replay=rp)
    if len(ok) != 1:
        return
    o, c0 = ok[0].value, ok[0].cond
    rng = [n >= 1, i_ >= 0, i_ < n]
    # T3: argsort of a permutation is its inverse (instances at the generic index and at its images)
    t3 = [z3.Implies(is_perm, z3.And(P(j) >= 0, P(j) < n, PINV(j) >= 0, PINV(j) < n, P(PINV(j)) == j, PINV(P(j)) == j)) for j in (i_, P(i_), PINV(i_))]
    X, Y = z3.Function("x", I, R), z3.Function("y", I, R)
    x, y = FlatArr(n, lambda i: X(i)), FlatArr(n, lambda i: Y(i))

    def run(meth, arg):
        ps = it.explore(lambda: method(cls, meth)(o, arg, None))
        return single(ps, ctx, f"C01/Permute.{meth}/struct/straight_line", props, f"{Q}.{meth}")

    pt, pi, ptl, pil = run("transform", x), run("inverse", y), run("transform_and_log_det", x), run("inverse_and_log_det", y)
    if None in (pt, pi, ptl, pil):
        return
    H = rng + c0 + t3
    okv = all(isinstance(v, FlatArr) for v in (pt.value, pi.value, ptl.value[0], pil.value[0]))
    ctx.oblige("C07/Permute/struct/gathers", okv, [], props, kind="applicability", fn=Q + ".transform")
    if not okv:
        return
    T, Iv = pt.value, pi.value
    ctx.oblige("C07/Permute.transform/post/fwd", T.f(i_) == X(P(i_)), H + pt.cond, props, fn=Q + ".transform", replay=rp, note="element i of the result is element permutation[i] of the flattened input")
    ctx.oblige("C01/Permute/same_fwd", ptl.value[0].f(i_) == T.f(i_), H + ptl.cond, props, fn=Q + ".transform_and_log_det", replay=rp)
    ctx.oblige("C01/Permute/same_inv", pil.value[0].f(i_) == Iv.f(i_), H + pil.cond, props, fn=Q + ".inverse_and_log_det", replay=rp)
    # round trips: compose the two real gathers
    back = pi.value.__class__(n, lambda i: Iv.f(i))  # inverse as a function of y; substitute y := transform(x)
    inv_of_T = z3.substitute(Iv.f(i_), *[(Y(t), T.f(t)) for t in (PINV(i_), i_, P(i_))])
    T_of_inv = z3.substitute(T.f(i_), *[(X(t), Iv.f(t)) for t in (P(i_), i_, PINV(i_))])
    ctx.oblige("C01/Permute/rt1", inv_of_T == X(i_), H + pt.cond + pi.cond, props, fn=Q + ".inverse", replay=rp)
    ctx.oblige("C01/Permute/rt2", T_of_inv == Y(i_), H + pt.cond + pi.cond, props, fn=Q + ".transform", replay=rp)
    ctx.control("C01/Permute/control/rt1_with_forward_permutation", z3.substitute(T.f(i_), (X(P(i_)), T.f(P(i_)))) == X(i_), H, props, fn=Q + ".inverse")
    for nm, v in (("fwd", ptl.value[1]), ("inv", pil.value[1])):
        ctx.oblige(f"C02/Permute/ld_{nm}_is_zero", to_real(lift(v)) == 0, H, props, fn=Q + ".transform_and_log_det", replay=rp, note="|det| of a permutation matrix is 1")


@family("simple/Flip", ["C01", "C02", "C07"])
def flip(ctx):
    """jnp.flip with no axis reverses ALL axes: in flattened (C-order) terms the whole entry sequence.  Two configurations:
    rank 1 (inner size 1) and an array whose trailing axes hold 2 entries per leading index (a leading-axis-only reversal differs)."""
    for inner in (1, 2):
        _flip(ctx, ctx.new_interp(), inner)


def _flip(ctx, it, inner):
    props = ["C01", "C02", "C07"]
    Q = "flowjax.bijections.utils.Flip"
    tag = "" if inner == 1 else f"[inner={inner}]"
    it.lib.overrides["jax.numpy.flip"] = lambda a, axis=None: FlatArr(a.n, lambda i: a.f(a.n - 1 - i), a.inner)
    cls = it.repo_class(Q)
    o = Obj(cls, shape=("any",))
    X = z3.Function("x", I, R)
    n0 = z3.Int("leading_size")
    x = FlatArr(n, lambda i: X(i), inner)
    rng = [n >= 1, i_ >= 0, i_ < n, n == n0 * inner, n0 >= 1]
    rp = dict(kind="simple", cls="Flip", vars={})
    res = {}
    for meth in ("transform", "inverse", "transform_and_log_det", "inverse_and_log_det"):
        ps = it.explore(lambda meth=meth: method(cls, meth)(o, x, None))
        res[meth] = single(ps, ctx, f"C01/Flip{tag}.{meth}/struct/straight_line", props, f"{Q}.{meth}")
    if None in res.values():
        return
    T, Iv = res["transform"].value, res["inverse"].value
    ctx.oblige(f"C07/Flip{tag}.transform/post/fwd", T.f(i_) == X(n - 1 - i_), rng, props, fn=Q + ".transform", replay=rp, note="every axis is reversed: entry i of the flattened result is entry size-1-i of the flattened input")
    # round trips: substitute the other method's entry function for X at the (single) index it is read at
    def compose(outer, inner_arr):
        Y = z3.Function("y_tmp", I, R)
        e = outer.f(i_)
        reads = [a for a in _apps(X, e)]
        return z3.substitute(e, *[(a, inner_arr.f(a.arg(0))) for a in reads])
    ctx.oblige(f"C01/Flip{tag}/rt1", compose(Iv, T) == X(i_), rng, props, fn=Q + ".inverse", replay=rp)
    ctx.oblige(f"C01/Flip{tag}/rt2", compose(T, Iv) == X(i_), rng, props, fn=Q + ".transform", replay=rp)
    ctx.oblige(f"C01/Flip{tag}/same_fwd", res["transform_and_log_det"].value[0].f(i_) == T.f(i_), rng, props, fn=Q + ".transform_and_log_det", replay=rp)
    ctx.oblige(f"C01/Flip{tag}/same_inv", res["inverse_and_log_det"].value[0].f(i_) == Iv.f(i_), rng, props, fn=Q + ".inverse_and_log_det", replay=rp)
    for nm in ("transform_and_log_det", "inverse_and_log_det"):
        ctx.oblige(f"C02/Flip{tag}.{nm}/ld_is_zero", to_real(lift(res[nm].value[1])) == 0, rng, props, fn=f"{Q}.{nm}", replay=rp)


def _apps(decl, e):
    from fjvc.core import apps_of
    return apps_of(decl, [e])


@family("simple/AdditiveCondition", ["C01", "C02", "C07"])
def additive_condition(ctx):
    it = ctx.interp
    props = ["C01", "C02", "C07"]
    Q = "flowjax.bijections.affine.AdditiveCondition"
    cls = it.repo_class(Q)
    M = z3.Function("module_output", I, R)  # module(condition), broadcast to the bijection's shape (flattened)
    calls = []
    cond = Obj.__new__(Obj) if False else "condition"

    def module(c):
        calls.append(c)
        return FlatArr(n, lambda i: M(i))

    o = Obj(cls, module=module, shape=("any",), cond_shape=("any",))
    X = z3.Function("x", I, R)
    x = FlatArr(n, lambda i: X(i))
    rng = [n >= 1, i_ >= 0, i_ < n]
    rp = dict(kind="simple", cls="AdditiveCondition", vars={})
    res = {}
    for meth in ("transform", "inverse", "transform_and_log_det", "inverse_and_log_det"):
        ps = it.explore(lambda meth=meth: method(cls, meth)(o, x, cond))
        res[meth] = single(ps, ctx, f"C01/AdditiveCondition.{meth}/struct/straight_line", props, f"{Q}.{meth}")
    if None in res.values():
        return
    ctx.oblige("C07/AdditiveCondition/struct/module_called_with_the_condition", len(calls) >= 4 and all(c is cond for c in calls), [], props, kind="struct", fn=Q + ".transform")
    T, Iv = res["transform"].value, res["inverse"].value
    ctx.oblige("C07/AdditiveCondition.transform/post/fwd", T.f(i_) == X(i_) + M(i_), rng, props, fn=Q + ".transform", replay=rp)
    ctx.oblige("C01/AdditiveCondition/rt1", z3.substitute(Iv.f(i_), (X(i_), T.f(i_))) == X(i_), rng, props, fn=Q + ".inverse", replay=rp)
    ctx.oblige("C01/AdditiveCondition/rt2", z3.substitute(T.f(i_), (X(i_), Iv.f(i_))) == X(i_), rng, props, fn=Q + ".transform", replay=rp)
    ctx.oblige("C01/AdditiveCondition/same_fwd", res["transform_and_log_det"].value[0].f(i_) == T.f(i_), rng, props, fn=Q + ".transform_and_log_det", replay=rp)
    ctx.oblige("C01/AdditiveCondition/same_inv", res["inverse_and_log_det"].value[0].f(i_) == Iv.f(i_), rng, props, fn=Q + ".inverse_and_log_det", replay=rp)
    for nm in ("transform_and_log_det", "inverse_and_log_det"):
        ctx.oblige(f"C02/AdditiveCondition.{nm}/ld_is_zero", to_real(lift(res[nm].value[1])) == 0, rng, props, fn=f"{Q}.{nm}", replay=rp, note="a shift has unit Jacobian")
