"""Combinators over ABSTRACT children (contract B of contracts/abstract.py): value semantics (C08), round trips (C01),
log-dets (C02).  Proving that each combinator PRESERVES contract B from contract B of its (uninterpreted) children is
the structural induction over bijection expressions: every finite composition of any depth satisfies B.

Ghost functions (definitions by recursion, supplied as ground unfoldings at the index terms of each obligation):
  comp(k, x, c)      = children 0..k-1 applied in order           comp(0) = x,  comp(k) = F(b_{k-1}, comp(k-1))
  icomp(k, y, c, n)  = children n-1, n-2, ..., n-k undone          icomp(0) = y, icomp(k) = Finv(b_{n-k}, icomp(k-1))
  ldsum(k, x, c)     = sum_{j<k} LD(b_j, comp(j, x))
  ildsum(k, y, c, n) = sum_{j<k} -LD(b_{n-1-j}, icomp(j+1, y))
"""
import z3

from fjvc.core import family, apps_of
from fjvc.interp import Obj, LoopSpec, Env
from fjvc.values import SV, SymSeq, SumT, lift, to_real, R, I

from .abstract import AbsBij, TV, T, BIJ, F, G, LD, NONE, cond_term, B_instances
from .leaves import method, single

BS = z3.Function("child", I, BIJ)
comp = z3.Function("comp", I, T, T, T)
icomp = z3.Function("icomp", I, T, T, I, T)
ldsum = z3.Function("ldsum", I, T, T, R)
ildsum = z3.Function("ildsum", I, T, T, I, R)
n = z3.Int("n_children")
x0, y0, c0 = z3.Const("x0", T), z3.Const("y0", T), z3.Const("c0", T)


def unfold(asserts):
    """one-level unfolding of the ghost recursions at every index term occurring in the obligation"""
    out = []
    for a in apps_of(comp, asserts):
        k, x, c = a.children()
        out += [z3.Implies(k == 0, a == x), z3.Implies(k >= 1, a == F(BS(k - 1), comp(k - 1, x, c), c))]
    for a in apps_of(icomp, asserts):
        k, y, c, nn = a.children()
        out += [z3.Implies(k == 0, a == y), z3.Implies(k >= 1, a == G(BS(nn - k), icomp(k - 1, y, c, nn), c))]
    for a in apps_of(ldsum, asserts):
        k, x, c = a.children()
        out += [z3.Implies(k == 0, a == 0), z3.Implies(k >= 1, a == ldsum(k - 1, x, c) + LD(BS(k - 1), comp(k - 1, x, c), c))]
    for a in apps_of(ildsum, asserts):
        k, y, c, nn = a.children()
        out += [z3.Implies(k == 0, a == 0), z3.Implies(k >= 1, a == ildsum(k - 1, y, c, nn) - LD(BS(nn - k), icomp(k, y, c, nn), c))]
    return out


def unfold2(asserts):
    first = unfold(asserts)
    return first + unfold(list(asserts) + first)


INST = [unfold2, B_instances]
_cnt = [0]


def freshT(tag):
    _cnt[0] += 1
    return z3.Const(f"{tag}!{_cnt[0]}", T)


def children(calls=None):
    return SymSeq(n, lambda k: AbsBij(BS(k), calls=calls), "bij")


def chain_obj(it, calls=None):
    cls = it.repo_class("flowjax.bijections.chain.Chain")
    return cls, Obj(cls, shape=("s",), cond_shape=("c",), bijections=children(calls))


# --------------------------------------------------------------------------------------
@family("combinators/Chain", ["C01", "C02", "C08", "C03"])
def chain(ctx):
    it = ctx.interp
    props = ["C01", "C02", "C08", "C03"]
    Q = "flowjax.bijections.chain.Chain"
    calls = []
    cls, self = chain_obj(it, calls)
    cT = TV(c0)

    def spec_x(meth, ghost, ld_ghost=None, inverse=False):
        start = y0 if inverse else x0
        var = "y" if inverse else "x"

        def inv(k, env, entry=None):
            args = (k, start, c0, n) if inverse else (k, start, c0)
            f = [k >= 0, k <= n, env[var].e == ghost(*args)]
            if ld_ghost is not None:
                f.append(to_real(lift(env["log_abs_det_jac"])) == ld_ghost(*args))
            return z3.And(*f)

        def havoc(k, env):
            h = Env(env.parent)
            h.update(env)
            h[var] = TV(freshT(var))
            if ld_ghost is not None:
                h["log_abs_det_jac"] = SV(it.fresh("ld", "real"))
                h["log_abs_det_jac_i"] = None
            h["bijection"] = None
            return h

        it.loop_specs[(f"{Q}.{meth}", "for#0")] = LoopSpec(inv, havoc)

    rp = dict(kind="combinators", cls="Chain", vars={})
    pre = [n >= 1]
    results = {}
    for meth, inverse, ghost, ldg in (("transform", False, comp, None), ("inverse", True, icomp, None), ("transform_and_log_det", False, comp, ldsum), ("inverse_and_log_det", True, icomp, ildsum)):
        spec_x(meth, ghost, ldg, inverse)
        arg = TV(y0 if inverse else x0)
        paths = it.explore(lambda meth=meth, arg=arg: method(cls, meth)(self, arg, cT))
        p = single(paths, ctx, f"C08/Chain.{meth}/struct/straight_line", props, f"{Q}.{meth}")
        if p is None:
            continue
        ctx.from_path(p, "C08", props, fn=f"{Q}.{meth}", extra_hyps=pre, replay=rp, rename=lambda o: o.replace("flowjax.bijections.chain.", ""), inst=INST)
        v = p.value
        pt = v[0] if isinstance(v, tuple) else v
        args = (n, y0, c0, n) if inverse else (n, x0, c0)
        # C08: Chain is sequential composition (the definition over the children's own maps)
        ctx.oblige(f"C08/Chain.{meth}/post/sequential_composition", pt.e == ghost(*args), pre + p.cond, props, fn=f"{Q}.{meth}", replay=rp, inst=INST)
        if isinstance(v, tuple):
            ctx.oblige(f"C02/Chain.{meth}/post/log_dets_add_up_along_the_chain", to_real(lift(v[1])) == ldg(*args), pre + p.cond, props, fn=f"{Q}.{meth}", replay=rp, inst=INST)
        results[meth] = v
    ok_calls = bool(calls) and all(cnd is cT for (_m, _a, cnd) in calls)
    ctx.oblige("C13/Chain/struct/children_entered_through_public_methods_with_the_condition", ok_calls, [], props + ["C13"], kind="struct", fn=Q, note="struct/reentry: every child call goes through one of the four (checked) public names")
    # same point from the log-det variants: both equal the same ghost fold (the two sequential_composition obligations above)
    # ---- lemmas by induction on k (n fixed): undoing k children of the forward composition
    k = z3.Int("k")
    X = comp(n, x0, c0)
    ctx.oblige("C01/lemma/chain_rt1/base", icomp(0, X, c0, n) == comp(n - 0, x0, c0), pre, props, kind="lemma", fn=Q, inst=INST)
    ctx.oblige("C01/lemma/chain_rt1/step", icomp(k + 1, X, c0, n) == comp(n - (k + 1), x0, c0), pre + [k >= 0, k < n, icomp(k, X, c0, n) == comp(n - k, x0, c0)], props, kind="lemma", fn=Q, inst=INST)
    ctx.oblige("C01/Chain/rt1", icomp(n, X, c0, n) == x0, pre + [icomp(n, X, c0, n) == comp(n - n, x0, c0)], props, fn=f"{Q}.inverse", replay=rp, inst=INST, cites=["C01/lemma/chain_rt1/base", "C01/lemma/chain_rt1/step", "C08/Chain.inverse/post/sequential_composition", "C08/Chain.transform/post/sequential_composition"])
    Y = icomp(n, y0, c0, n)
    ctx.oblige("C01/lemma/chain_rt2/base", comp(0, Y, c0) == icomp(n - 0, y0, c0, n), pre, props, kind="lemma", fn=Q, inst=INST)
    ctx.oblige("C01/lemma/chain_rt2/step", comp(k + 1, Y, c0) == icomp(n - (k + 1), y0, c0, n), pre + [k >= 0, k < n, comp(k, Y, c0) == icomp(n - k, y0, c0, n)], props, kind="lemma", fn=Q, inst=INST)
    ctx.oblige("C01/Chain/rt2", comp(n, Y, c0) == y0, pre + [comp(n, Y, c0) == icomp(n - n, y0, c0, n)], props, fn=f"{Q}.transform", replay=rp, inst=INST, cites=["C01/lemma/chain_rt2/base", "C01/lemma/chain_rt2/step"])
    # inverse log-det = minus the forward log-det at the inverse image
    lem_rt2 = lambda kk: comp(kk, Y, c0) == icomp(n - kk, y0, c0, n)  # noqa: E731
    ctx.oblige("C02/lemma/chain_ld_inv/base", ildsum(0, y0, c0, n) == -(ldsum(n, Y, c0) - ldsum(n - 0, Y, c0)), pre, props, kind="lemma", fn=Q, inst=INST)
    ctx.oblige("C02/lemma/chain_ld_inv/step", ildsum(k + 1, y0, c0, n) == -(ldsum(n, Y, c0) - ldsum(n - (k + 1), Y, c0)),
               pre + [k >= 0, k < n, ildsum(k, y0, c0, n) == -(ldsum(n, Y, c0) - ldsum(n - k, Y, c0)), lem_rt2(n - k - 1)], props, kind="lemma", fn=Q, inst=INST, cites=["C01/lemma/chain_rt2/step"])
    ctx.oblige("C02/Chain/ld_inv", ildsum(n, y0, c0, n) == -ldsum(n, Y, c0), pre + [ildsum(n, y0, c0, n) == -(ldsum(n, Y, c0) - ldsum(n - n, Y, c0))], props, fn=f"{Q}.inverse_and_log_det", replay=rp, inst=INST)
    ctx.control("C01/Chain/control/forward_order_inverse", icomp(n, X, c0, n) == comp(n, x0, c0), pre + [n >= 2, icomp(n, X, c0, n) == comp(0, x0, c0), comp(n, x0, c0) != x0], props, fn=Q, inst=INST)
    ctx.cover("C08/Chain/cover", pre + [n == 3], props, fn=Q, inst=INST)


# --------------------------------------------------------------------------------------
@family("combinators/Invert_EmbedCondition_Reshape_Partial", ["C01", "C02", "C08", "C13"])
def simple_wrappers(ctx):
    it = ctx.interp
    props = ["C01", "C02", "C08", "C13"]
    b = z3.Const("b", BIJ)
    x, c = z3.Const("x", T), z3.Const("c", T)
    inst = [B_instances]
    rp = dict(kind="combinators", vars={})
    # ---- Invert swaps the two directions
    cls = it.repo_class("flowjax.bijections.utils.Invert")
    for cname, cond, cc in (("conditional", TV(c), c), ("unconditional", None, NONE)):
        self = Obj(cls, bijection=AbsBij(b))
        Q = "flowjax.bijections.utils.Invert"
        outs = {}
        for meth in ("transform", "inverse", "transform_and_log_det", "inverse_and_log_det"):
            p = single(it.explore(lambda meth=meth: method(cls, meth)(self, TV(x), cond)), ctx, f"C08/Invert.{meth}[{cname}]/struct/straight_line", props, f"{Q}.{meth}")
            if p is not None:
                outs[meth] = p.value
        if len(outs) == 4:
            ctx.oblige(f"C08/Invert[{cname}]/post/swaps_directions", z3.And(outs["transform"].e == G(b, x, cc), outs["inverse"].e == F(b, x, cc), outs["transform_and_log_det"][0].e == G(b, x, cc), outs["inverse_and_log_det"][0].e == F(b, x, cc)), [], props, fn=Q, replay=rp)
            # B-ld for the inverted map: its forward log-det is -LD_b at the image, its inverse log-det is LD_b
            ctx.oblige(f"C02/Invert[{cname}]/post/log_dets_swap", z3.And(lift(outs["transform_and_log_det"][1]) == -LD(b, G(b, x, cc), cc), lift(outs["inverse_and_log_det"][1]) == LD(b, x, cc)), [], props, fn=Q, replay=rp)
            ctx.oblige(f"C01/Invert[{cname}]/rt", z3.And(F(b, outs["transform"].e, cc) == x, G(b, outs["inverse"].e, cc) == x), [], props, fn=Q, replay=rp, inst=inst)
    # ---- EmbedCondition: only the condition is re-presented
    cls = it.repo_class("flowjax.bijections.utils.EmbedCondition")
    EMB = z3.Function("embedding_net", T, T)
    self = Obj(cls, bijection=AbsBij(b), embedding_net=lambda cnd: TV(EMB(cnd.e)), cond_shape=("raw",))
    Q = "flowjax.bijections.utils.EmbedCondition"
    outs = {}
    for meth in ("transform", "inverse", "transform_and_log_det", "inverse_and_log_det"):
        p = single(it.explore(lambda meth=meth: method(cls, meth)(self, TV(x), TV(c))), ctx, f"C08/EmbedCondition.{meth}/struct/straight_line", props, f"{Q}.{meth}")
        if p is not None:
            outs[meth] = p.value
    if len(outs) == 4:
        e = EMB(c)
        ctx.oblige("C08/EmbedCondition/post/child_on_embedded_condition", z3.And(outs["transform"].e == F(b, x, e), outs["inverse"].e == G(b, x, e), outs["transform_and_log_det"][0].e == F(b, x, e), lift(outs["transform_and_log_det"][1]) == LD(b, x, e),
                   outs["inverse_and_log_det"][0].e == G(b, x, e), lift(outs["inverse_and_log_det"][1]) == -LD(b, G(b, x, e), e)), [], props, fn=Q, replay=rp)
    # ---- Reshape: re-presentation of x (and the condition); reshape is a bijection between same-count shapes
    RS = z3.Function("reshape", T, I, T)  # reshape(x, tag): tag 0 = the child's shape, 1 = the declared shape, 2/3 for the condition
    cls = it.repo_class("flowjax.bijections.utils.Reshape")

    class RTV(TV):
        def reshape(self, shape):
            if shape is None:
                from fjvc.interp import PyRaise
                raise PyRaise("TypeError", "reshape(None)")  # what jnp does for a None shape
            return RTV(RS(self.e, z3.IntVal(shape.tag)))

    class Sh(tuple):
        tag = -1

    def sh(tag):
        s = Sh(("dims",))
        s.tag = tag
        return s

    class RBij(AbsBij):
        def _wrap(self, r):
            return (RTV(r[0].e), r[1]) if isinstance(r, tuple) else RTV(r.e)

        def transform(self, x_, condition=None):
            return self._wrap(super().transform(x_, condition))

        def inverse(self, y_, condition=None):
            return self._wrap(super().inverse(y_, condition))

        def transform_and_log_det(self, x_, condition=None):
            return self._wrap(super().transform_and_log_det(x_, condition))

        def inverse_and_log_det(self, y_, condition=None):
            return self._wrap(super().inverse_and_log_det(y_, condition))

    child = RBij(b, shape=sh(0), cond_shape=sh(2))
    self = Obj(cls, bijection=child, shape=sh(1), cond_shape=sh(3))
    Q = "flowjax.bijections.utils.Reshape"
    xin, cin = RS(x, 0), RS(c, 2)
    outs = {}
    for meth in ("transform", "inverse", "transform_and_log_det", "inverse_and_log_det"):
        p = single(it.explore(lambda meth=meth: method(cls, meth)(self, RTV(x), RTV(c))), ctx, f"C08/Reshape.{meth}/struct/straight_line", props, f"{Q}.{meth}")
        if p is not None:
            outs[meth] = p.value
    if len(outs) == 4:
        ctx.oblige("C08/Reshape/post/only_re_presents_inputs", z3.And(outs["transform"].e == RS(F(b, xin, cin), 1), outs["inverse"].e == RS(G(b, xin, cin), 1), outs["transform_and_log_det"][0].e == RS(F(b, xin, cin), 1),
                   lift(outs["transform_and_log_det"][1]) == LD(b, xin, cin), outs["inverse_and_log_det"][0].e == RS(G(b, xin, cin), 1), lift(outs["inverse_and_log_det"][1]) == -LD(b, G(b, xin, cin), cin)), [], props, fn=Q, replay=rp)
        # round trip given that reshaping there and back is the identity (same element count: Reshape.__check_init__, C08 shapes family)
        t = outs["transform"].e
        back = z3.substitute(outs["inverse"].e, (x, t))
        ctx.oblige("C01/Reshape/rt1", back == x, [RS(RS(F(b, xin, cin), 1), 0) == F(b, xin, cin), RS(RS(x, 0), 1) == x], props, fn=Q, replay=rp, inst=inst, note="hypotheses: reshape to the child's shape and back is the identity (equal element counts)")
    # ---- an UNCONDITIONAL Reshape ignores a supplied condition like every unconditional bijection (inside a conditional Chain /
    #      Concatenate / Stack every child is handed the shared condition)
    class UBij(RBij):
        def _c(self, condition):
            return NONE  # an unconditional child does not look at the condition

    uchild = UBij(b, shape=sh(0), cond_shape=None)
    uself = Obj(cls, bijection=uchild, shape=sh(1), cond_shape=None)
    for cname, cond in (("no_condition", None), ("condition_supplied", RTV(c))):
        outs_u = {}
        for meth in ("transform", "inverse", "transform_and_log_det", "inverse_and_log_det"):
            p = single(it.explore(lambda meth=meth, cond=cond: method(cls, meth)(uself, RTV(x), cond)), ctx, f"C08/Reshape[unconditional,{cname}].{meth}/struct/straight_line", props, f"{Q}.{meth}")
            if p is not None:
                outs_u[meth] = p.value
        if len(outs_u) == 4:
            ctx.oblige(f"C08/Reshape[unconditional,{cname}]/post/only_re_presents_x_and_ignores_the_condition",
                       z3.And(outs_u["transform"].e == RS(F(b, xin, NONE), 1), outs_u["inverse"].e == RS(G(b, xin, NONE), 1), outs_u["transform_and_log_det"][0].e == RS(F(b, xin, NONE), 1),
                              lift(outs_u["transform_and_log_det"][1]) == LD(b, xin, NONE), outs_u["inverse_and_log_det"][0].e == RS(G(b, xin, NONE), 1), lift(outs_u["inverse_and_log_det"][1]) == -LD(b, G(b, xin, NONE), NONE)),
                       [], props, fn=Q, replay=rp)
    # ---- Partial: only the indexed entries change
    SEL = z3.Function("select", T, T)  # x[idxs]
    UPD = z3.Function("update", T, T, T)  # x.at[idxs].set(v)
    cls = it.repo_class("flowjax.bijections.utils.Partial")

    class PTV(TV):
        def __getitem__(self, idx):
            return TV(SEL(self.e))

        @property
        def at(self):
            me = self

            class At:
                def __getitem__(self, idx):
                    class S:
                        def set(self_, v):
                            return PTV(UPD(me.e, v.e))
                    return S()
            return At()

    self = Obj(cls, bijection=AbsBij(b), idxs="idxs", shape=("s",))
    Q = "flowjax.bijections.utils.Partial"
    outs = {}
    for meth in ("transform", "inverse", "transform_and_log_det", "inverse_and_log_det"):
        p = single(it.explore(lambda meth=meth: method(cls, meth)(self, PTV(x), TV(c))), ctx, f"C08/Partial.{meth}/struct/straight_line", props, f"{Q}.{meth}")
        if p is not None:
            outs[meth] = p.value
    if len(outs) == 4:
        sx = SEL(x)
        ctx.oblige("C08/Partial/post/only_indexed_entries_change", z3.And(outs["transform"].e == UPD(x, F(b, sx, c)), outs["inverse"].e == UPD(x, G(b, sx, c)), outs["transform_and_log_det"][0].e == UPD(x, F(b, sx, c)),
                   lift(outs["transform_and_log_det"][1]) == LD(b, sx, c), outs["inverse_and_log_det"][0].e == UPD(x, G(b, sx, c)), lift(outs["inverse_and_log_det"][1]) == -LD(b, G(b, sx, c), c)), [], props, fn=Q, replay=rp)
        t = outs["transform"].e
        back = z3.substitute(outs["inverse"].e, (x, t))
        v = F(b, sx, c)
        ax = [SEL(UPD(x, v)) == v, UPD(UPD(x, v), G(b, v, c)) == UPD(x, G(b, v, c)), UPD(x, SEL(x)) == x]  # T1: get/set laws of .at[idxs].set for a fixed index set
        ctx.oblige("C01/Partial/rt1", back == x, ax, props, fn=Q, replay=rp, inst=inst, note="hypotheses: the get/set laws of x.at[idxs].set(.) / x[idxs] for one fixed index set")


# --------------------------------------------------------------------------------------
@family("combinators/Scan", ["C01", "C02", "C08", "C03"])
def scan(ctx):
    """Scan(stacked layers) computes the same fold as Chain over the unstacked layers (both equal comp / icomp / ldsum / ildsum)"""
    it = ctx.interp
    props = ["C01", "C02", "C08", "C03"]
    Q = "flowjax.bijections.jax_transforms"
    cls = it.repo_class(f"{Q}.Scan")

    class Stacked:  # a bijection whose array leaves carry a leading axis of length n: slice k is child k
        shape, cond_shape = ("s",), ("c",)

    class Params(SymSeq):
        pass

    stacked = Stacked()
    it.lib.overrides["equinox.partition"] = lambda xs, filter_spec=None, **kw: (Params(n, lambda k: ("slice", k), "slice"), "static") if xs is stacked else (_ for _ in ()).throw(TypeError("partition"))
    it.lib.overrides["equinox.combine"] = lambda xk, static: AbsBij(BS(xk[1]))
    it.lib.overrides["equinox.is_array"] = "is_array"
    self = Obj(cls, bijection=stacked)
    cT = TV(c0)
    rp = dict(kind="combinators", cls="Scan", vars={})
    pre = [n >= 1]
    INSTS = INST
    for meth, inverse, ghost, ldg in (("transform", False, comp, None), ("inverse", True, icomp, None), ("transform_and_log_det", False, comp, ldsum), ("inverse_and_log_det", True, icomp, ildsum)):
        start = y0 if inverse else x0

        def inv(k, st, init=None, inverse=inverse, ghost=ghost, ldg=ldg, start=start):
            args = (k, start, c0, n) if inverse else (k, start, c0)
            if ldg is None:
                return z3.And(k >= 0, k <= n, st.e == ghost(*args))
            return z3.And(k >= 0, k <= n, st[0].e == ghost(*args), to_real(lift(st[1])) == ldg(*args))

        def havoc(k, init, ldg=ldg):
            if ldg is None:
                return TV(freshT("carry"))
            return (TV(freshT("carry")), SV(it.fresh("ld", "real")))

        it.loop_specs[(f"{Q}._filter_scan", "lax.scan#0")] = LoopSpec(inv, havoc)
        arg = TV(start)
        paths = it.explore(lambda meth=meth, arg=arg: method(cls, meth)(self, arg, cT))
        p = single(paths, ctx, f"C08/Scan.{meth}/struct/straight_line", props, f"{Q}.Scan.{meth}")
        if p is None:
            continue
        ctx.from_path(p, "C08", props, fn=f"{Q}.Scan.{meth}", extra_hyps=pre, replay=rp, rename=lambda o, meth=meth: o.replace(f"{Q}._filter_scan", f"Scan.{meth}/_filter_scan"), inst=INSTS)
        v = p.value
        pt = v[0] if isinstance(v, tuple) else v
        args = (n, start, c0, n) if inverse else (n, start, c0)
        ctx.oblige(f"C08/Scan.{meth}/post/equals_chain_of_unstacked_layers", pt.e == ghost(*args), pre + p.cond, props, fn=f"{Q}.Scan.{meth}", replay=rp, inst=INSTS)
        if isinstance(v, tuple):
            ctx.oblige(f"C02/Scan.{meth}/post/log_dets_add_up", to_real(lift(v[1])) == ldg(*args), pre + p.cond, props, fn=f"{Q}.Scan.{meth}", replay=rp, inst=INSTS)
    ctx.assume_note("Scan: round trips and inverse log-det follow from the Chain lemmas (C01/lemma/chain_rt*, C02/lemma/chain_ld_inv) because Scan's four methods equal the same ghost folds")


# --------------------------------------------------------------------------------------
@family("combinators/Vmap", ["C01", "C02", "C08"])
def vmap_(ctx):
    """Vmap applies the wrapped bijection slice by slice along the new leading axis; parameters and condition mapped or broadcast"""
    it = ctx.interp
    props = ["C01", "C02", "C08"]
    Q = "flowjax.bijections.jax_transforms.Vmap"
    cls = it.repo_class(Q)
    b = z3.Const("b", BIJ)
    x, c = z3.Const("x", T), z3.Const("c", T)
    SL = z3.Function("slice", T, I, T)  # slice i along the mapped axis
    BSL = z3.Function("param_slice", BIJ, I, BIJ)  # the bijection with slice i of its mapped parameters
    i = z3.Int("i")  # the generic slice
    rp = dict(kind="combinators", cls="Vmap", vars={})

    class Sliced:
        """a batched value known through its generic slice"""

        def __init__(self, at):
            self.at = at

    def filter_vmap(f, in_axes=None, axis_size=None, **kw):
        ia_b, ia_x, ia_c = in_axes

        def mapped(bij, xx, cond):
            bi = AbsBij(BSL(bij.b, i)) if ia_b is not None else bij
            xi = TV(SL(xx.e, i)) if ia_x is not None else xx
            ci = None if cond is None else (TV(SL(cond.e, i)) if ia_c is not None else cond)
            out = f(bi, xi, ci)

            def wrap(v):
                return Sliced(v.e) if isinstance(v, TV) else SV(lift(v), elem=True)  # per-slice scalars form a vector (jnp.sum -> reduction)

            return tuple(wrap(v) for v in out) if isinstance(out, tuple) else wrap(out)
        return mapped

    it.lib.overrides["equinox.filter_vmap"] = filter_vmap
    inst = [B_instances]
    for pname, ia_b in (("mapped_params", "axes"), ("broadcast_params", None)):
        for cname, ia_c, cond in (("mapped_condition", 0, TV(c)), ("broadcast_condition", None, TV(c)), ("unconditional", None, None)):
            self = Obj(cls, bijection=AbsBij(b), in_axes=(ia_b, 0, ia_c), axis_size=SV(z3.Int("axis_size")), cond_shape=None)
            bi = BSL(b, i) if ia_b is not None else b
            ci = NONE if cond is None else (SL(c, i) if ia_c is not None else c)
            xi = SL(x, i)
            tag = f"{pname},{cname}"
            outs = {}
            for meth in ("transform", "inverse", "transform_and_log_det", "inverse_and_log_det"):
                p = single(it.explore(lambda meth=meth: method(cls, meth)(self, TV(x), cond)), ctx, f"C08/Vmap.{meth}[{tag}]/struct/straight_line", props, f"{Q}.{meth}")
                if p is not None:
                    outs[meth] = p.value
            if len(outs) != 4:
                continue
            okk = isinstance(outs["transform"], Sliced) and isinstance(outs["inverse"], Sliced) and isinstance(outs["transform_and_log_det"][1], SumT) and isinstance(outs["inverse_and_log_det"][1], SumT)
            ctx.oblige(f"C02/Vmap[{tag}]/struct/log_det_is_summed_over_the_new_axis", bool(okk), [], props, kind="struct", fn=Q, note="jnp.sum over the vmapped axis: a scalar whatever the shape")
            if not okk:
                continue
            ctx.oblige(f"C08/Vmap[{tag}]/post/slice_by_slice", z3.And(outs["transform"].at == F(bi, xi, ci), outs["inverse"].at == G(bi, xi, ci), outs["transform_and_log_det"][0].at == F(bi, xi, ci), outs["inverse_and_log_det"][0].at == G(bi, xi, ci)), [], props, fn=Q, replay=rp)
            ctx.oblige(f"C02/Vmap[{tag}]/post/log_det_sums_the_slices", z3.And(outs["transform_and_log_det"][1].t == LD(bi, xi, ci), outs["inverse_and_log_det"][1].t == -LD(bi, G(bi, xi, ci), ci)), [], props, fn=Q, replay=rp)
            ctx.oblige(f"C01/Vmap[{tag}]/rt1", G(bi, outs["transform"].at, ci) == xi, [], props, fn=Q, replay=rp, inst=inst, note="slice i of inverse(transform(x)) (the inverse maps with the same in_axes)")
            ctx.control(f"C08/Vmap[{tag}]/control/wrong_slice", outs["transform"].at == F(bi, SL(x, i + 1), ci), [SL(x, i + 1) != xi, F(bi, SL(x, i + 1), ci) != F(bi, xi, ci)], props, fn=Q)


@family("combinators/Concatenate_Stack", ["C01", "C02", "C08"])
def concat_stack(ctx):
    """each part is applied to its slice along the axis (2 and 3 children; the split points / shapes are the shapes family)"""
    it = ctx.interp
    props = ["C01", "C02", "C08"]
    x, c = z3.Const("x", T), z3.Const("c", T)
    PART = z3.Function("part", T, I, T)  # part j of array_split(x, split_idxs, axis) / of split+squeeze
    rp = dict(kind="combinators", vars={})
    inst = [B_instances]
    for cname, q, split_name, join_name in (("Concatenate", "flowjax.bijections.concatenate.Concatenate", "array_split", "concatenate"), ("Stack", "flowjax.bijections.concatenate.Stack", "split", "stack")):
        cls = it.repo_class(q)
        for k in (2, 3):
            bs = [z3.Const(f"b{j}", BIJ) for j in range(k)]
            JOIN = z3.Function(f"{join_name}{k}", *([T] * k), T)
            rec = {}

            class PV(TV):
                def squeeze(self, axis=None):
                    rec.setdefault("squeeze_axes", []).append(axis)
                    return self

            def split(arr, sections, axis=0, k=k, rec=rec):
                rec["split"] = (sections, axis)
                return [PV(PART(arr.e, z3.IntVal(j))) for j in range(k)]

            def join(parts, axis=0, JOIN=JOIN, rec=rec):
                rec["join_axis"] = axis
                parts = list(parts)
                return TV(JOIN(*[p.e for p in parts]))

            it.lib.overrides[f"jax.numpy.{split_name}"] = split
            it.lib.overrides[f"jax.numpy.{join_name}"] = join
            it.lib.overrides["jax.numpy.squeeze"] = lambda a, axis=None: a.squeeze(axis=axis)  # function form of the method
            ax = SV(z3.Int("axis"))
            fields = dict(bijections=[AbsBij(bj) for bj in bs], axis=ax, shape=("s",), cond_shape=("c",))
            if cname == "Concatenate":
                fields["split_idxs"] = ("split_idxs",)
            self = Obj(cls, **fields)
            outs = {}
            for meth in ("transform", "inverse", "transform_and_log_det", "inverse_and_log_det"):
                p = single(it.explore(lambda meth=meth: method(cls, meth)(self, TV(x), TV(c))), ctx, f"C08/{cname}.{meth}[k={k}]/struct/straight_line", props, f"{q}.{meth}")
                if p is not None:
                    outs[meth] = p.value
            if len(outs) != 4:
                continue
            parts = [PART(x, z3.IntVal(j)) for j in range(k)]
            fw = JOIN(*[F(bs[j], parts[j], c) for j in range(k)])
            bw = JOIN(*[G(bs[j], parts[j], c) for j in range(k)])
            ctx.oblige(f"C08/{cname}[k={k}]/post/each_part_on_its_slice", z3.And(outs["transform"].e == fw, outs["inverse"].e == bw, outs["transform_and_log_det"][0].e == fw, outs["inverse_and_log_det"][0].e == bw), [], props, fn=q, replay=rp)
            ctx.oblige(f"C02/{cname}[k={k}]/post/log_dets_add_up_over_parts", z3.And(lift(outs["transform_and_log_det"][1]) == z3.Sum([LD(bs[j], parts[j], c) for j in range(k)]),
                       lift(outs["inverse_and_log_det"][1]) == z3.Sum([-LD(bs[j], G(bs[j], parts[j], c), c) for j in range(k)])), [], props, fn=q, replay=rp)
            same_axis = rec.get("join_axis") is ax and (rec.get("split", (None, None))[1] is ax) and all(a is ax for a in rec.get("squeeze_axes", []))
            ctx.oblige(f"C08/{cname}[k={k}]/struct/split_and_join_along_the_declared_axis", bool(same_axis), [], props, kind="struct", fn=q)
            if cname == "Stack":
                ctx.oblige(f"C08/Stack[k={k}]/struct/splits_into_one_slice_per_child", rec.get("split", (None,))[0] == k and len(rec.get("squeeze_axes", [])) >= k, [], props, kind="struct", fn=q)
            else:
                ctx.oblige(f"C08/Concatenate[k={k}]/struct/splits_at_declared_points", rec.get("split", (None,))[0] == ("split_idxs",), [], props, kind="struct", fn=q)
            # round trip from the split/join laws (T1): part j of join(p_0..p_{k-1}) is p_j (children keep their shapes: B-shape)
            t = outs["transform"].e
            back = z3.substitute(outs["inverse"].e, (x, t))
            laws = [PART(fw, z3.IntVal(j)) == F(bs[j], parts[j], c) for j in range(k)] + [JOIN(*parts) == x]
            ctx.oblige(f"C01/{cname}[k={k}]/rt1", back == x, laws, props, fn=q, replay=rp, inst=inst, note="hypotheses: split(join(parts)) = parts and join(split(x)) = x along the same axis and split points")
