"""C14: methods are pure and transparent to jit / vmap / serialisation -- the PREMISES of JAX's guarantee, decided statically.

For every bijection / distribution / wrapper class found in /repo's AST and the bisection functions: (static/control) no Python
control flow on traced values, (static/hostcall) no float()/int()/bool()/.item()/math.*/numpy.* on traced values,
(frame/pure) no assignment to self.* or global state inside methods, (struct/fields) array-typed fields are not static and
static fields hold no arrays.  The conclusion 'same values under jit / vmap, lossless leaf serialisation' is JAX's and
equinox's guarantee for functions satisfying these premises and is ASSUMED (level: other)."""
import ast

from fjvc import bta
from fjvc.core import family
from fjvc.interp import RepoClass

METHODS = {"bij": ["transform", "transform_and_log_det", "inverse", "inverse_and_log_det", "derivative", "get_act_scale", "get_planar", "inv_scan_fn", "_flat_params_to_transformer", "_activation_and_log_jacobian_3d", "_split_and_squeeze", "vmap"],
           "dist": ["_log_prob", "_sample", "_sample_and_log_prob", "log_prob", "sample", "sample_and_log_prob", "_get_sample_keys", "_vectorize"],
           "wrap": ["unwrap", "recursive_unwrap"]}


def field_kinds(cls):
    kinds = {}
    for c in reversed(cls.mro()):
        for st in c.node.body:
            if isinstance(st, ast.AnnAssign) and isinstance(st.target, ast.Name):
                k = bta.ann_kind(ast.unparse(st.annotation))
                if k is not None:
                    kinds[st.target.id] = k
            if isinstance(st, ast.FunctionDef) and any(ast.unparse(d) == "property" for d in st.decorator_list):
                kinds.setdefault(st.name, "static" if st.name in ("shape", "cond_shape", "ndim", "cond_ndim") else "dynamic")
    return kinds


def static_field_problems(cls):
    out = []
    for st in cls.node.body:
        if isinstance(st, ast.AnnAssign) and st.value is not None and isinstance(st.value, ast.Call) and ast.unparse(st.value.func).endswith("field"):
            is_static = any(k.arg == "static" and isinstance(k.value, ast.Constant) and k.value.value is True for k in st.value.keywords)
            kind = bta.ann_kind(ast.unparse(st.annotation))
            if is_static and kind == "dynamic":
                out.append(f"{cls.qual}.{st.target.id}: array-typed field declared static")
            elif is_static and kind == "module":
                # Callable / module / container typed: the value may be (or hold) a module with array parameters, which a static
                # field removes from the pytree leaves (not trained, not serialised, baked into jit caches)
                out.append(f"{cls.qual}.{st.target.id}: field of type `{ast.unparse(st.annotation)}` (may hold a module with arrays) declared static")
    return out


@family("purity/methods", ["C14"])
def purity(ctx):
    it = ctx.interp
    props = ["C14"]
    roots = {"bij": it.repo_class("flowjax.bijections.bijection.AbstractBijection"), "dist": it.repo_class("flowjax.distributions.AbstractDistribution"), "wrap": it.repo_class("flowjax.wrappers.AbstractUnwrappable")}
    n_methods = 0
    for modname, (path, tree) in sorted(it.source.modules.items()):
        if modname.startswith("flowjax.experimental") or modname in ("flowjax.tasks",):
            continue
        for node in tree.body:
            if not isinstance(node, ast.ClassDef):
                continue
            try:
                cls = it.module_env(modname).resolve(node.name)
            except Exception:
                continue
            if not isinstance(cls, RepoClass):
                continue
            fam = next((k for k, r in roots.items() if cls.issubclass_of(r)), None)
            if fam is None and node.name not in ("_VectorizedBijection", "AutoregressiveBisectionInverter"):
                continue
            fk = field_kinds(cls)
            names = METHODS.get(fam, []) + (["vectorize", "transform", "inverse", "__call__"] if fam is None else [])
            for st in node.body:
                if isinstance(st, ast.FunctionDef) and st.name in names and not any(ast.unparse(d) == "abstractmethod" for d in st.decorator_list):
                    n_methods += 1
                    findings = bta.Analyzer(st, fk).run()
                    q = f"{cls.qual}.{st.name}"
                    for kind, label in (("control", "static/control"), ("hostcall", "static/hostcall"), ("mutation", "frame/pure")):
                        fs = [f for f in findings if f[0] == kind]
                        ctx.oblige(f"C14/{cls.__name__}.{st.name}/{label}", not fs, [], props, kind=label, fn=q, replay=dict(kind="c14", cls=cls.__name__, method=st.name, vars={}),
                                   note="; ".join(f"line {ln}: {txt}" for _k, ln, txt in fs)[:600])
            sp = static_field_problems(cls)
            ctx.oblige(f"C14/{cls.__name__}/struct/fields", not sp, [], props, kind="struct/fields", fn=cls.qual, note="; ".join(sp)[:400], replay=dict(kind="c14", cls=cls.__name__, method="", vars={}))
    # the bisection functions (value-dependent iteration only through lax.while_loop / lax.scan)
    mod = "flowjax.bisection_search"
    _p, tree = it.source.module(mod)
    for node in tree.body:
        if isinstance(node, ast.FunctionDef):
            findings = bta.Analyzer(node, {}, is_method=False, static_params=("tol", "max_iter", "length", "expand_factor", "func", "autoregressive_fn")).run()
            n_methods += 1
            for kind, label in (("control", "static/control"), ("hostcall", "static/hostcall")):
                fs = [f for f in findings if f[0] == kind]
                ctx.oblige(f"C14/{node.name}/{label}", not fs, [], props, kind=label, fn=f"{mod}.{node.name}", note="; ".join(f"line {ln}: {txt}" for _k, ln, txt in fs)[:600],
                           replay=dict(kind="c14", cls="AutoregressiveBisectionInverter", method=node.name, vars={}))
    # hidden state across calls: memoised functions and module-level containers mutated from function bodies, anywhere in the
    # package (a value created under one jit trace and reused outside it is a leaked tracer; results then depend on call history)
    MEMO = ("lru_cache", "cache", "cached_property", "memoize", "memoise")
    for modname, (path, tree) in sorted(it.source.modules.items()):
        if not modname.startswith("flowjax") or modname.startswith("flowjax.experimental"):
            continue
        glob = {t.id for st in tree.body if isinstance(st, (ast.Assign, ast.AnnAssign)) for t in (st.targets if isinstance(st, ast.Assign) else [st.target])
                if isinstance(t, ast.Name) and isinstance(getattr(st, "value", None), (ast.Dict, ast.List, ast.Set, ast.Call)) and not t.id.isupper() and t.id != "__all__"}
        bad = []
        for node in ast.walk(tree):
            if isinstance(node, (ast.FunctionDef, ast.AsyncFunctionDef)):
                for d in node.decorator_list:
                    txt = ast.unparse(d)
                    if any(m in txt for m in MEMO):
                        bad.append(f"line {node.lineno}: {node.name} is memoised (@{txt})")
                for sub in ast.walk(node):
                    if isinstance(sub, (ast.Assign, ast.AugAssign)):
                        tg = sub.targets if isinstance(sub, ast.Assign) else [sub.target]
                        for t in tg:
                            if isinstance(t, ast.Subscript) and isinstance(t.value, ast.Name) and t.value.id in glob:
                                bad.append(f"line {sub.lineno}: {node.name} writes to the module-level container {t.value.id}")
                    if isinstance(sub, ast.Call) and isinstance(sub.func, ast.Attribute) and isinstance(sub.func.value, ast.Name) and sub.func.value.id in glob and sub.func.attr in ("append", "update", "setdefault", "add", "extend", "pop", "clear", "insert"):
                        bad.append(f"line {sub.lineno}: {node.name} mutates the module-level container {sub.func.value.id}")
        ctx.oblige(f"C14/{modname}/frame/no_hidden_state_across_calls", not bad, [], props, kind="frame/pure", fn=modname, replay=dict(kind="c14", cls="", method="", vars={}), note="; ".join(bad)[:600])
    ctx.oblige("C14/struct/methods_analysed", n_methods >= 120, [], props, kind="struct", fn="flowjax", note=f"{n_methods} method bodies analysed")
    ctx.assume_note("C14: the conclusion (same values under jit/vmap, lossless flatten/unflatten and leaf serialisation) is JAX's / equinox's guarantee for pure functions without value-dependent Python control flow; only these premises are decided")
