"""Contracts for RationalQuadraticSpline (C01, C02, C07, C18; constructor side in C11).

Class invariant (delivered by C11 from the real constructor + unwrap): n = knots + 2 >= 3 positions,
x_pos / y_pos strictly increasing from interval[0] to interval[1], derivatives > 0.
Arrays are z3 arrays with symbolic length; the invariant is supplied as ground instances at every
index term occurring in an obligation (never quantified).  Indexing follows JAX exactly (wrap / clamp).

Structure of the argument (every step is its own obligation; later steps cite earlier ones as instances):
  M*  single-bin real-algebra lemmas about the paper's formulas (eq. 4, 5, 6-8), over plain reals
  A   the real transform equals eq. 4 on every bin that contains x          (C07)
  B   the real inverse equals eq. 6-8 on every bin that contains y          (C07/C01)
  D   every in-interval point lies in a bin (witness: the T3 searchsorted function)
  rt1/rt2 = A, B, M composed;  ldspec = derivative() equals eq. 5 = d/dx eq. 4 (sympy rational identity)
"""
import itertools

import z3

from fjvc import deriv
from fjvc.core import family
from fjvc.interp import Obj
from fjvc.lib import SS
from fjvc.values import SV, SArr, UF, lift, to_real, R, I

from .leaves import method, single

QUAL = "flowjax.bijections.rational_quadratic_spline.RationalQuadraticSpline"
sqrt, exp, log = UF["sqrt"], UF["exp"], UF["log"]

n = z3.Int("n")
lo, hi = z3.Reals("lo hi")
XP, YP, D = (z3.Array(nm, I, R) for nm in ("x_pos", "y_pos", "derivatives"))


# ---------------------------------------------------------------- the paper's formulas over plain reals
def xi_of(xk, xk1, x):
    return (x - xk) / (xk1 - xk)


def den_r(xk, xk1, yk, yk1, dk, dk1, x):
    s, xi = (yk1 - yk) / (xk1 - xk), xi_of(xk, xk1, x)
    return s + (dk1 + dk - 2 * s) * xi * (1 - xi)


def eq4_r(xk, xk1, yk, yk1, dk, dk1, x):
    """eq. 4 of Durkan et al. (Neural Spline Flows)"""
    s, xi = (yk1 - yk) / (xk1 - xk), xi_of(xk, xk1, x)
    return yk + (yk1 - yk) * (s * xi * xi + dk * xi * (1 - xi)) / (s + (dk1 + dk - 2 * s) * xi * (1 - xi))


def eq5_r(xk, xk1, yk, yk1, dk, dk1, x):
    """eq. 5: derivative of the spline inside a bin"""
    s, xi = (yk1 - yk) / (xk1 - xk), xi_of(xk, xk1, x)
    den = s + (dk1 + dk - 2 * s) * xi * (1 - xi)
    return s * s * (dk1 * xi * xi + 2 * s * xi * (1 - xi) + dk * (1 - xi) * (1 - xi)) / (den * den)


def abc_r(xk, xk1, yk, yk1, dk, dk1, y):
    s = (yk1 - yk) / (xk1 - xk)
    t = (y - yk) * (dk1 + dk - 2 * s)
    return (yk1 - yk) * (s - dk) + t, (yk1 - yk) * dk - t, -s * (y - yk)


def invq_r(xk, xk1, yk, yk1, dk, dk1, y):
    """eq. 6-8: inverse inside a bin"""
    a, b, c = abc_r(xk, xk1, yk, yk1, dk, dk1, y)
    xi = (2 * c) / (-b - sqrt(b * b - 4 * a * c))
    return xi * (xk1 - xk) + xk


def binargs(i):
    return XP[i], XP[i + 1], YP[i], YP[i + 1], D[i], D[i + 1]


def eq4(i, x):
    return eq4_r(*binargs(i), x)


def eq5(i, x):
    return eq5_r(*binargs(i), x)


def invq(i, y):
    return invq_r(*binargs(i), y)


# ---------------------------------------------------------------- class invariant as ground instances
def selects(asserts):
    out = {"x_pos": {}, "y_pos": {}, "derivatives": {}}
    seen, stack = set(), list(asserts)
    while stack:
        e = stack.pop()
        if e.get_id() in seen:
            continue
        seen.add(e.get_id())
        if z3.is_app(e):
            if e.decl().kind() == z3.Z3_OP_SELECT and z3.is_const(e.arg(0)) and str(e.arg(0)) in out:
                out[str(e.arg(0))][e.arg(1).get_id()] = e.arg(1)
            stack.extend(e.children())
    return {k: list(v.values()) for k, v in out.items()}


def invariant_instances(asserts):
    sel = selects(asserts)
    facts = [n >= 3, lo < hi, XP[0] == lo, XP[n - 1] == hi, YP[0] == lo, YP[n - 1] == hi]
    for arr, name in ((XP, "x_pos"), (YP, "y_pos")):
        uniq = {}
        for i in sel[name] + [z3.IntVal(0), n - 1]:
            i = z3.simplify(i)
            uniq[i.get_id()] = i
        for p, q in itertools.permutations(list(uniq.values()), 2):
            facts.append(z3.Implies(z3.And(p >= 0, p < q, q < n), arr[p] < arr[q]))
    for i in sel["derivatives"]:
        facts.append(z3.Implies(z3.And(i >= 0, i < n), D[i] > 0))
    return facts


def init_instances(asserts):
    sel = selects(asserts)
    out = []
    for j in sel["x_pos"] + sel["y_pos"]:
        out.append(z3.Select(XP, j) == z3.Select(YP, j))
    for j in sel["derivatives"]:
        out.append(z3.Select(D, j) == 1)
    return out


def spline_sampler(rnd):
    """points for the sampling falsifier: a valid spline (sorted knots from lo to hi, positive derivatives) and the T3 searchsorted"""
    nn = rnd.choice([3, 4, 5, 6])
    a = rnd.choice([-2.0, -1.0, 0.0, 1.0, -3.5])
    b = a + rnd.choice([1.0, 2.0, 3.0, 0.5])
    def knots():
        inner = sorted(a + (b - a) * rnd.uniform(0.05, 0.95) for _ in range(nn - 2))
        # keep them distinct
        pts = [a] + inner + [b]
        for q in range(1, nn):
            if pts[q] <= pts[q - 1]:
                pts[q] = pts[q - 1] + 1e-3
        pts[-1] = max(pts[-1], pts[-2] + 1e-3)
        return pts
    xs, ys = knots(), knots()
    xs[0] = ys[0] = a
    xs[-1] = ys[-1] = max(xs[-1], ys[-1])
    hi_ = xs[-1]
    ds = [rnd.choice([0.3, 1.0, 2.5, rnd.uniform(0.05, 4.0)]) for _ in range(nn)]
    clampi = lambda arr: (lambda q: arr[min(max(int(q), 0), nn - 1)])  # noqa: E731  (JAX clamps out-of-range indices)
    def ss(side):
        def f(arr, n_, v):
            vals = [arr(q) for q in range(int(n_))]
            return sum(1 for t in vals if (t < v if side == "left" else t <= v))
        return f
    def point():
        r = rnd.random()
        if r < 0.2:
            return rnd.choice(xs + ys)
        if r < 0.75:
            return rnd.uniform(a, hi_)
        return rnd.choice([a - rnd.uniform(0.01, 3), hi_ + rnd.uniform(0.01, 3)])
    return {n: nn, lo: a, hi: hi_, XP: clampi(xs), YP: clampi(ys), D: clampi(ds), z3.Real("x"): point(), z3.Real("y"): point(),
            "fn:searchsorted_left": ss("left"), "fn:searchsorted_right": ss("right")}


def make_self(it):
    cls = it.repo_class(QUAL)
    return cls, Obj(cls, knots=SV(n - 2), interval=(SV(lo), SV(hi)), softmax_adjust=SV(z3.Real("softmax_adjust")), min_derivative=SV(z3.Real("min_derivative")),
                    x_pos=SArr(n, XP, "x_pos"), y_pos=SArr(n, YP, "y_pos"), derivatives=SArr(n, D, "derivatives"))


# ---------------------------------------------------------------- M: single-bin lemmas over plain reals
@family("spline/math", ["C01", "C02", "C07", "C18", "C04"])
def spline_math(ctx):
    ctx.default_sampler = spline_sampler
    xk, xk1, yk, yk1, dk, dk1, x, y = z3.Reals("xk xk1 yk yk1 dk dk1 x y")
    a6 = (xk, xk1, yk, yk1, dk, dk1)
    bin_ok = [xk < xk1, yk < yk1, dk > 0, dk1 > 0]
    props = ["C01", "C02", "C07", "C18", "C04"]
    fn = QUAL
    xi = xi_of(xk, xk1, x)
    den = den_r(*a6, x)
    e4 = eq4_r(*a6, x)
    hx = bin_ok + [xk <= x, x <= xk1]
    xi_rng = z3.And(xi >= 0, xi <= 1)
    s = (yk1 - yk) / (xk1 - xk)
    ctx.oblige("C07/spline_math/xi_in_unit_interval", xi_rng, hx, props, kind="lemma", fn=fn)
    ctx.oblige("C07/spline_math/den_positive", den > 0, hx, props, kind="lemma", fn=fn, cuts=[("xi", xi_rng), ("s", s > 0), ("q", xi * (1 - xi) >= 0), ("q4", 4 * xi * (1 - xi) <= 1)])
    ctx.oblige("C07/spline_math/eq4_at_left_knot", eq4_r(*a6, xk) == yk, bin_ok, props, kind="lemma", fn=fn)
    ctx.oblige("C07/spline_math/eq4_at_right_knot", eq4_r(*a6, xk1) == yk1, bin_ok, props, kind="lemma", fn=fn, cuts=[("xi1", xi_of(xk, xk1, xk1) == 1)])
    ctx.oblige("C07/spline_math/image_in_bin", z3.And(e4 >= yk, e4 <= yk1, z3.Implies(x > xk, e4 > yk)), hx, props, kind="lemma", fn=fn,
               cuts=[("xi", xi_rng), ("s", s > 0), ("den", den > 0)])
    # eq. 5 is the derivative of eq. 4 (rational-function identity, sympy normal form) and is positive
    ob = ctx.oblige("C02/spline_math/eq5_is_derivative_of_eq4", eq5_r(*a6, x) == deriv.d(e4, x), hx, props, kind="lemma", fn=fn)
    ob.ratfun = (eq5_r(*a6, x), deriv.d(e4, x))
    ctx.oblige("C02/spline_math/eq5_positive", eq5_r(*a6, x) > 0, hx, props, kind="lemma", fn=fn, cuts=[("xi", xi_rng), ("s", s > 0), ("den", den > 0)])
    # inverse (eq. 6-8) undoes eq. 4 on the bin
    a, b, c = abc_r(*a6, e4)
    disc = b * b - 4 * a * c
    ctx.oblige("C01/spline_math/invq_of_eq4", invq_r(*a6, e4) == x, hx, props, kind="lemma", fn=fn,
               cuts=[("xi", xi_rng), ("s", s > 0), ("den", den > 0), ("quadratic", a * xi * xi + b * xi + c == 0), ("apb", z3.And(a + b == (yk1 - yk) * s, a + b > 0)), ("c_nonpos", c <= 0),
                     ("disc", disc >= 0), ("denom_neg", -b - sqrt(disc) < 0), ("root", (2 * c) / (-b - sqrt(disc)) == xi)])
    # ... and eq. 4 undoes the inverse on [yk, yk1]
    hy = bin_ok + [yk <= y, y <= yk1]
    a, b, c = abc_r(*a6, y)
    disc = b * b - 4 * a * c
    r = (2 * c) / (-b - sqrt(disc))
    xinv = invq_r(*a6, y)
    hints = [("s", s > 0), ("apb", z3.And(a + b == (yk1 - yk) * s, a + b > 0)), ("c_nonpos", c <= 0), ("disc", disc > 0), ("denom_neg", -b - sqrt(disc) < 0)]
    ctx.oblige("C18/spline_math/discriminant_positive", z3.And(disc > 0, -b - sqrt(disc) < 0), hy, props, kind="lemma", fn=fn, cuts=hints)
    ctx.oblige("C01/spline_math/invq_in_bin", z3.And(xinv >= xk, xinv <= xk1, z3.Implies(y > yk, xinv > xk)), hy, props, kind="lemma", fn=fn,
               cuts=hints + [("root_rng", z3.And(r >= 0, r <= 1))])
    ctx.oblige("C01/spline_math/eq4_of_invq", eq4_r(*a6, xinv) == y, hy, props, kind="lemma", fn=fn,
               cuts=hints + [("root_rng", z3.And(r >= 0, r <= 1)), ("root_eq", a * r * r + b * r + c == 0), ("xi_is_root", xi_of(xk, xk1, xinv) == r)])
    ctx.control("C01/spline_math/control/plus_sqrt_root", (2 * c) / (-b + sqrt(disc)) == r, hy + [y > yk, y < yk1], props, fn=fn)


# ---------------------------------------------------------------- the real code against the paper's formulas
@family("spline/RationalQuadraticSpline", ["C01", "C02", "C07", "C18", "C14", "C04"])
def spline(ctx):
    ctx.default_sampler = spline_sampler
    it = ctx.interp
    cls, self = make_self(it)
    x, y = z3.Reals("x y")
    X, Y = SV(x), SV(y)
    inst = [invariant_instances]
    props_all = ["C01", "C02", "C07", "C18", "C14", "C04"]

    def with_inv(thunk):
        def f():
            it.assume(z3.And(n >= 3, lo < hi))  # quantifier-free part of the invariant, available while executing
            return thunk()
        return f

    def run(meth, arg):
        fnq = f"{QUAL}.{meth}"
        args = (self, arg) if meth == "derivative" else (self, arg, None)
        paths = it.explore(with_inv(lambda: method(cls, meth)(*args)))
        return single(paths, ctx, f"C14/RationalQuadraticSpline.{meth}/struct/straight_line", props_all, fnq), fnq

    pt, q_t = run("transform", X)
    pi, q_i = run("inverse", Y)
    ptl, q_tl = run("transform_and_log_det", X)
    pil, q_il = run("inverse_and_log_det", Y)
    pd, q_d = run("derivative", X)
    if None in (pt, pi, ptl, pil, pd):
        return
    T, Iv, Dv = to_real(lift(pt.value)), to_real(lift(pi.value)), to_real(lift(pd.value))
    inb_x, inb_y = z3.And(x >= lo, x <= hi), z3.And(y >= lo, y <= hi)
    rp = lambda meth, var: dict(kind="spline", method=meth, input=var, vars=dict(x=x, y=y, n=n, lo=lo, hi=hi), arrays=dict(x_pos=XP, y_pos=YP, derivatives=D))  # noqa: E731
    kw = dict(inst=inst)
    i = z3.Int("i")
    in_bin_x = z3.And(i >= 0, i <= n - 2, XP[i] <= x, x <= XP[i + 1])
    in_bin_y = z3.And(i >= 0, i <= n - 2, YP[i] <= y, y <= YP[i + 1])
    ssx, ssy = SS["left"](XP, n, x), SS["left"](YP, n, y)
    bnd = z3.And(lo <= XP[i], XP[i + 1] <= hi, lo <= YP[i], YP[i + 1] <= hi, XP[i] < XP[i + 1], YP[i] < YP[i + 1])
    # instances of the single-bin lemmas (family spline/math) at bin i
    e4 = eq4(i, x)
    M_x = [z3.And(e4 >= YP[i], e4 <= YP[i + 1], z3.Implies(x > XP[i], e4 > YP[i])), eq4(i, XP[i]) == YP[i], eq4(i, XP[i + 1]) == YP[i + 1],
           z3.Implies(i >= 1, eq4(i - 1, XP[i]) == YP[i])]
    xq = invq(i, y)
    M_y = [z3.And(xq >= XP[i], xq <= XP[i + 1], z3.Implies(y > YP[i], xq > XP[i])),
           z3.Implies(i >= 1, z3.And(invq(i - 1, YP[i]) == XP[i])), invq(i, YP[i]) == XP[i], invq(i, YP[i + 1]) == XP[i + 1]]
    cites_m = ["C07/spline_math/image_in_bin", "C07/spline_math/eq4_at_left_knot", "C07/spline_math/eq4_at_right_knot", "C01/spline_math/invq_in_bin", "C01/spline_math/invq_of_eq4", "C01/spline_math/eq4_of_invq"]

    # ---------------- A: transform == eq. 4 on every bin containing x (C07)
    def ctx_run(meth, arg, facts):
        """execute the real method again under the stated facts with context-aware simplification (every where / clip /
        index simplification is justified by a solver-checked entailment from those facts)"""
        it.ctx_simplify, it.entail_timeout_ms = True, 1500
        try:
            def thunk():
                it.assume(z3.And(n >= 3, lo < hi))
                for f in facts:
                    it.assume(f)
                args = (self, arg) if meth == "derivative" else (self, arg, None)
                return method(cls, meth)(*args)
            paths = it.explore(thunk)
        finally:
            it.ctx_simplify, it.entail_timeout_ms = False, 300
        return paths[0] if len(paths) == 1 and paths[0].outcome == "return" else None

    caseA = [("interior_or_right_knot", XP[i] < x, i + 1), ("first_knot", z3.And(x == XP[i], i == 0), z3.IntVal(0)), ("inner_left_knot", z3.And(x == XP[i], i >= 1), i)]
    for cname, ccond, look in caseA:
        cuts = [("in_bounds", inb_x), ("bin_bounds", bnd), ("lookup", ssx == look)]
        base = [in_bin_x, ccond] + M_x
        pc = ctx_run("transform", X, base + [c for _n, c in cuts])
        goal = (to_real(lift(pc.value)) == e4) if pc is not None else z3.BoolVal(False)
        ctx.oblige(f"C07/RationalQuadraticSpline.transform/post/eq4_in_bin[{cname}]", goal, base + (pc.cond if pc else []), ["C07", "C01", "C02"], fn=q_t, replay=rp("transform", "x"),
                   cuts=[(cn, cf, pt.cond + base) for cn, cf in cuts], cites=cites_m, **kw)
    caseA = [(a, b) for a, b, _c in caseA]
    ctx.oblige("C07/RationalQuadraticSpline.transform/post/eq4_in_bin/cases_exhaustive", z3.Or(*[c for _n, c in caseA]), [in_bin_x], ["C07", "C01", "C02"], kind="cases", fn=q_t, **kw)
    ctx.oblige("C07/RationalQuadraticSpline.transform/post/identity_outside", T == x, pt.cond + [z3.Not(inb_x)], ["C07", "C04", "C01"], fn=q_t, replay=rp("transform", "x"), **kw)
    ctx.oblige("C07/RationalQuadraticSpline.transform/post/through_knots", T == YP[i], pt.cond + [in_bin_x, x == XP[i], T == e4] + M_x, ["C07"], fn=q_t, replay=rp("transform", "x"),
               cites=["C07/RationalQuadraticSpline.transform/post/eq4_in_bin"], **kw)
    ctx.oblige("C07/RationalQuadraticSpline.transform/post/through_last_knot", T == YP[i + 1], pt.cond + [in_bin_x, x == XP[i + 1], T == e4] + M_x, ["C07"], fn=q_t, replay=rp("transform", "x"), **kw)
    # identity at initialisation: x_pos == y_pos and all derivatives 1  =>  eq. 4 is the identity on the bin
    xk, xk1, xx = z3.Reals("xk xk1 xx")
    ctx.oblige("C07/spline_math/eq4_identity_at_init", eq4_r(xk, xk1, xk, xk1, z3.RealVal(1), z3.RealVal(1), xx) == xx, [xk < xk1, xk <= xx, xx <= xk1], ["C07"], kind="lemma", fn=QUAL,
               cuts=[("xi", z3.And(xi_of(xk, xk1, xx) >= 0, xi_of(xk, xk1, xx) <= 1)), ("den", den_r(xk, xk1, xk, xk1, z3.RealVal(1), z3.RealVal(1), xx) == 1)])
    ctx.oblige("C07/RationalQuadraticSpline.transform/post/identity_at_init", T == x, pt.cond + [in_bin_x, T == e4, eq4_r(XP[i], XP[i + 1], XP[i], XP[i + 1], z3.RealVal(1), z3.RealVal(1), x) == x],
               ["C07"], fn=q_t, replay=rp("transform", "x"), inst=[invariant_instances, init_instances], cites=["C07/spline_math/eq4_identity_at_init"])
    ctx.control("C07/RationalQuadraticSpline.transform/control/eq4_shifted_bin", T == eq4(i + 1, x), pt.cond + [in_bin_x, i <= n - 3, x > XP[i], x < XP[i + 1]], ["C07"], fn=q_t, **kw)
    ctx.cover("C07/RationalQuadraticSpline/cover/in_bin", pt.cond + [in_bin_x, x > XP[i], x < XP[i + 1]], ["C07", "C01", "C02"], fn=q_t, **kw)

    # ---------------- B: inverse == eq. 6-8 on every bin containing y
    caseB = [("interior_or_right_knot", YP[i] < y, i + 1), ("first_knot", z3.And(y == YP[i], i == 0), z3.IntVal(0)), ("inner_left_knot", z3.And(y == YP[i], i >= 1), i)]
    for cname, ccond, look in caseB:
        cuts = [("in_bounds", inb_y), ("bin_bounds", bnd), ("lookup", ssy == look)]
        base = [in_bin_y, ccond] + M_y
        pc = ctx_run("inverse", Y, base + [c for _n, c in cuts])
        goal = (to_real(lift(pc.value)) == xq) if pc is not None else z3.BoolVal(False)
        ctx.oblige(f"C07/RationalQuadraticSpline.inverse/post/eq678_in_bin[{cname}]", goal, base + (pc.cond if pc else []), ["C07", "C01", "C02"], fn=q_i, replay=rp("inverse", "y"),
                   cuts=[(cn, cf, pi.cond + base) for cn, cf in cuts], cites=cites_m, **kw)
    caseB = [(a, b) for a, b, _c in caseB]
    ctx.oblige("C07/RationalQuadraticSpline.inverse/post/eq678_in_bin/cases_exhaustive", z3.Or(*[c for _n, c in caseB]), [in_bin_y], ["C07", "C01", "C02"], kind="cases", fn=q_i, **kw)
    ctx.oblige("C07/RationalQuadraticSpline.inverse/post/identity_outside", Iv == y, pi.cond + [z3.Not(inb_y)], ["C07", "C04", "C01"], fn=q_i, replay=rp("inverse", "y"), **kw)

    # ---------------- D: every in-interval point lies in a bin (witness from the T3 searchsorted function)
    iw = z3.If(ssx - 1 < 0, z3.IntVal(0), ssx - 1)
    ss_contract = lambda a, v, j: z3.And(j >= 0, j <= n, z3.Implies(j > 0, a[j - 1] < v), z3.Implies(j < n, v <= a[j]))  # noqa: E731
    ctx.oblige("C01/RationalQuadraticSpline/lemma/bin_exists_x", z3.substitute(in_bin_x, (i, iw)), [inb_x, ss_contract(XP, x, ssx)], ["C01", "C02", "C04"], kind="lemma", fn=QUAL, **kw)
    iwy = z3.If(ssy - 1 < 0, z3.IntVal(0), ssy - 1)
    ctx.oblige("C01/RationalQuadraticSpline/lemma/bin_exists_y", z3.substitute(in_bin_y, (i, iwy)), [inb_y, ss_contract(YP, y, ssy)], ["C01", "C02", "C04"], kind="lemma", fn=QUAL, **kw)

    # ---------------- C01: round trips = A, B, M composed at the witness bin
    ctx.oblige("C01/RationalQuadraticSpline/same_fwd", to_real(lift(ptl.value[0])) == T, ptl.cond + pt.cond, ["C01"], fn=q_tl, replay=rp("transform_and_log_det", "x"), **kw)
    ctx.oblige("C01/RationalQuadraticSpline/same_inv", to_real(lift(pil.value[0])) == Iv, pil.cond + pi.cond, ["C01"], fn=q_il, replay=rp("inverse_and_log_det", "y"), **kw)
    sub_y = lambda f: z3.substitute(f, (y, T))  # noqa: E731
    sub_x = lambda f: z3.substitute(f, (x, Iv))  # noqa: E731
    inv_of_T, T_of_inv = sub_y(Iv), sub_x(T)
    # in-interval: instances  A[i]: T = eq4(i,x);  B[i, y:=T]: Iv(T) = invq(i,T) (needs T in [YP[i],YP[i+1]]: M);  M: invq(i, eq4(i,x)) = x
    hyp_rt1 = pt.cond + [sub_y(c) for c in pi.cond] + [in_bin_x, T == e4, z3.Implies(z3.And(YP[i] <= T, T <= YP[i + 1]), inv_of_T == invq(i, T)), invq(i, e4) == x] + M_x
    ctx.oblige("C01/RationalQuadraticSpline/rt1[in_interval]", inv_of_T == x, hyp_rt1, ["C01", "C04"], fn=q_i, replay=rp("inverse", "x"),
               cites=["C07/RationalQuadraticSpline.transform/post/eq4_in_bin", "C07/RationalQuadraticSpline.inverse/post/eq678_in_bin", "C01/spline_math/invq_of_eq4", "C01/RationalQuadraticSpline/lemma/bin_exists_x"], **kw)
    ctx.oblige("C01/RationalQuadraticSpline/rt1[outside]", inv_of_T == x, pt.cond + [sub_y(c) for c in pi.cond] + [z3.Not(inb_x)], ["C01", "C04"], fn=q_i, replay=rp("inverse", "x"), **kw)
    hyp_rt2 = pi.cond + [sub_x(c) for c in pt.cond] + [in_bin_y, Iv == xq, z3.Implies(z3.And(XP[i] <= Iv, Iv <= XP[i + 1]), T_of_inv == eq4(i, Iv)), eq4(i, xq) == y] + M_y
    ctx.oblige("C01/RationalQuadraticSpline/rt2[in_interval]", T_of_inv == y, hyp_rt2, ["C01", "C04"], fn=q_t, replay=rp("transform", "y"),
               cites=["C07/RationalQuadraticSpline.transform/post/eq4_in_bin", "C07/RationalQuadraticSpline.inverse/post/eq678_in_bin", "C01/spline_math/eq4_of_invq", "C01/RationalQuadraticSpline/lemma/bin_exists_y"], **kw)
    ctx.oblige("C01/RationalQuadraticSpline/rt2[outside]", T_of_inv == y, pi.cond + [sub_x(c) for c in pt.cond] + [z3.Not(inb_y)], ["C01", "C04"], fn=q_t, replay=rp("transform", "y"), **kw)
    ctx.oblige("C01/RationalQuadraticSpline/image_in_interval", z3.And(T >= lo, T <= hi), pt.cond + [inb_x], ["C01", "C04"], fn=q_t, replay=rp("transform", "x"), **kw)
    ctx.control("C01/RationalQuadraticSpline/control/rt1_off", inv_of_T == x + 1, hyp_rt1, ["C01"], fn=q_i, **kw)

    # ---------------- C02: derivative() == eq. 5 on the bin (== d/dx eq. 4 by the sympy lemma), 1 outside; log-dets
    for cname, ccond, look, ibin in (("interior_or_right_knot", XP[i] < x, i + 1, i), ("first_knot", z3.And(x == XP[i], i == 0), z3.IntVal(0), z3.IntVal(0)), ("inner_left_knot", z3.And(x == XP[i], i >= 1), i, i - 1)):
        cuts = [("in_bounds", inb_x), ("bin_bounds", bnd), ("lookup", ssx == look)]
        base = [in_bin_x, ccond]
        pc = ctx_run("derivative", X, base + [c for _n, c in cuts])
        goal = (to_real(lift(pc.value)) == eq5(ibin, x)) if pc is not None else z3.BoolVal(False)
        ctx.oblige(f"C02/RationalQuadraticSpline/ldspec_fwd[{cname}]", goal, base + (pc.cond if pc else []), ["C02"], fn=q_d, replay=rp("transform_and_log_det", "x"),
                   cuts=[(cn, cf, pd.cond + base) for cn, cf in cuts], cites=["C02/spline_math/eq5_is_derivative_of_eq4"], **kw)
    ctx.oblige("C02/RationalQuadraticSpline/ldspec_fwd[outside]", Dv == 1, pd.cond + [z3.Not(inb_x)], ["C02"], fn=q_d, replay=rp("transform_and_log_det", "x"), **kw)
    ctx.oblige("C07/RationalQuadraticSpline.derivative/post/strictly_increasing", Dv > 0, pd.cond + [z3.Implies(inb_x, z3.And(z3.substitute(in_bin_x, (i, iw)), z3.Or(Dv == eq5(iw, x), z3.And(iw >= 1, Dv == eq5(iw - 1, x))), eq5(iw, x) > 0, z3.Implies(iw >= 1, eq5(iw - 1, x) > 0))), z3.Implies(z3.Not(inb_x), Dv == 1)],
               ["C07", "C02", "C04"], fn=q_d, replay=rp("derivative", "x"), cites=["C02/spline_math/eq5_positive", "C02/RationalQuadraticSpline/ldspec_fwd"], **kw)
    ld_f, ld_i = lift(ptl.value[1]), lift(pil.value[1])
    ctx.oblige("C02/RationalQuadraticSpline/ld_fwd", ld_f == log(Dv), ptl.cond + pd.cond, ["C02"], fn=q_tl, replay=rp("transform_and_log_det", "x"), **kw)
    ctx.oblige("C02/RationalQuadraticSpline/ld_inv", ld_i == -log(sub_x(Dv)), pil.cond + pi.cond + [sub_x(c) for c in pd.cond], ["C02"], fn=q_il, replay=rp("inverse_and_log_det", "y"), **kw)
    ctx.control("C02/RationalQuadraticSpline/control/ld_off", ld_f == log(Dv) + 1, ptl.cond + pd.cond, ["C02"], fn=q_tl, **kw)

    # ---------------- C18: every primitive on every branch, for EVERY real input (the log-prob is finite everywhere).
    # Case by case (3 in-bin cases + outside; exhaustive by lemma bin_exists + cases_exhaustive), on contextual runs,
    # with the single-bin lemmas (den > 0; discriminant > 0, -b - sqrt < 0) instantiated at the bin actually used.
    def den_at(ib, v):
        return den_r(*binargs(ib), v)

    def disc_facts(ib, v):
        a_, b_, c_ = abc_r(*binargs(ib), v)
        d_ = b_ * b_ - 4 * a_ * c_
        return z3.And(d_ > 0, -b_ - sqrt(d_) < 0)

    for meth, var, p_gen, q_, arr, ssf, inb in (("transform", x, pt, q_t, XP, ssx, inb_x), ("derivative", x, pd, q_d, XP, ssx, inb_x), ("inverse", y, pi, q_i, YP, ssy, inb_y)):
        in_bin_v = z3.And(i >= 0, i <= n - 2, arr[i] <= var, var <= arr[i + 1])
        ss_lo = SS["left"](arr, n, lo)
        cases = [("interior_or_right_knot", [in_bin_v, arr[i] < var], [("in_bounds", inb), ("bin_bounds", bnd), ("lookup", ssf == i + 1)], i, var),
                 ("first_knot", [in_bin_v, var == arr[i], i == 0], [("in_bounds", inb), ("bin_bounds", bnd), ("lookup", ssf == 0)], z3.IntVal(0), var),
                 ("inner_left_knot", [in_bin_v, var == arr[i], i >= 1], [("in_bounds", inb), ("bin_bounds", bnd), ("lookup", ssf == i)], i - 1, var),
                 ("outside", [z3.Not(inb)], [("lookup", ss_lo == 0)], z3.IntVal(0), lo)]
        for cname, base, cuts, ib, vr in cases:
            lem = [den_at(ib, vr) > 0] if meth != "inverse" else [disc_facts(ib, vr)]
            lem += [arr[ib] <= vr, vr <= arr[ib + 1], XP[ib] < XP[ib + 1], YP[ib] < YP[ib + 1], D[ib] > 0, D[ib + 1] > 0]
            pc = ctx_run(meth, SV(var), base + [c for _n, c in cuts] + lem)
            for cn, cf in cuts:
                ctx.oblige(f"C18/RationalQuadraticSpline.{meth}[{cname}]/cut:{cn}", cf, p_gen.cond + base, ["C18"], kind="cut", fn=q_, replay=rp(meth, "x" if var is x else "y"), **kw)
            ctx.oblige(f"C18/RationalQuadraticSpline.{meth}[{cname}]/lemma_instance_hypotheses", z3.And(*lem[1:]), base + [c for _n, c in cuts], ["C18"], kind="cut", fn=q_, **kw)
            if pc is None:
                ctx.oblige(f"C18/RationalQuadraticSpline.{meth}[{cname}]/struct/straight_line", False, [], ["C18"], kind="struct", fn=q_)
                continue
            for k_, (kind, guard, cond, note, where) in enumerate(pc.side):
                if kind == "sqrt":
                    cond = cond.arg(0) > 0  # the derivative of sqrt is finite only for a strictly positive argument
                ctx.oblige(f"C18/RationalQuadraticSpline.{meth}[{cname}]/gradsafe/{kind}#{k_}", cond, guard + pc.cond, ["C18"], kind=f"gradsafe/{kind}", fn=q_, replay=rp(meth, "x" if var is x else "y"),
                           note=f"{note}: evaluated on every where-branch at a point where value and derivative are finite / index in range",
                           cites=["C07/spline_math/den_positive", "C18/spline_math/discriminant_positive"], **kw)
        ctx.oblige(f"C18/RationalQuadraticSpline.{meth}/cases_exhaustive", z3.Or(z3.Not(inb), z3.And(z3.substitute(in_bin_v, (i, z3.If(ssf - 1 < 0, z3.IntVal(0), ssf - 1))))),
                   [ss_contract(arr, var, ssf)], ["C18"], kind="cases", fn=q_, **kw)
