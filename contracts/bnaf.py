"""BlockAutoregressiveNetwork forward map and log-determinant chain (C02, C01, C09, C07), depth 0..3 (bounded in depth, every size symbolic).

Tensors are abstract; the layer operations are uninterpreted:
  LIN(l, x)      masked / weight-normalised linear layer l (its zero / sign pattern for all raw weights is proved in
                 masks/block_autoregressive_linear)
  ACT(x), LAG(x) vmapped activation and its log|derivative|
  LOGB(l)        log of the diagonal blocks of layer l's unwrapped weight (what `log_jacobian_fn(linear)` returns)
  DIAG3(v)       (blocks, block_dim, block_dim) tensor with log(0) = -inf off the diagonal and v on the diagonal
  LME(a, b)      log(exp(a) @ exp(b)) per block  (contract of logmatmulexp, proved entry-wise below)
Specification (chain rule restricted to the diagonal blocks, valid because every layer is block lower triangular; T1):
  log J_d = LME(...LME(LME(LOGB(D), DIAG3(LAG(pre_{D-1}))), LOGB(D-1))..., LOGB(0)),  log|det| = sum over d and the 1x1 block.
"""
import z3

from fjvc.core import family, apps_of
from fjvc.interp import Obj, Untranslatable
from fjvc.values import SV, UF, lift, to_real, R, I

from .abstract import TV, T, NONE
from .leaves import method, single

LIN = z3.Function("linear_layer", I, T, T)
CONDLIN = z3.Function("cond_linear", T, T)
ADD = z3.Function("tensor_add", T, T, T)
ACT = z3.Function("activation", T, T)
LAG = z3.Function("activation_log_abs_grad", T, T)
LOGB = z3.Function("log_block_diagonal_of_layer", I, T)
DIAG3 = z3.Function("diag_embed_with_log_zero", T, T)
LME = z3.Function("logmatmulexp", T, T, T)
SUMALL = z3.Function("sum_all", T, R)
INV = z3.Function("inverter_result", T, T, T)
Q = "flowjax.bijections.block_autoregressive_network"


class BTV(TV):
    def __add__(self, o):
        return BTV(ADD(self.e, o.e))

    __iadd__ = __add__

    def sum(self, *a, **k):
        return SV(SUMALL(self.e))

    def reshape(self, *shape):
        return self  # a view of the same entries (row-major)

    @property
    def at(self):
        raise Untranslatable("in-place update of an abstract tensor")


def lme_assoc(asserts):
    """T1: matrix product is associative, hence so is logmatmulexp"""
    out = []
    for a in apps_of(LME, asserts):
        l, r = a.children()
        if z3.is_app(l) and l.decl().eq(LME):
            out.append(a == LME(l.arg(0), LME(l.arg(1), r)))
        if z3.is_app(r) and r.decl().eq(LME):
            out.append(a == LME(LME(l, r.arg(0)), r.arg(1)))
    return out


@family("bnaf/BlockAutoregressiveNetwork", ["C02", "C01", "C09", "C07"])
def bnaf(ctx):
    props = ["C02", "C01", "C09", "C07"]
    CQ = f"{Q}.BlockAutoregressiveNetwork"
    x, c, y = z3.Const("x", T), z3.Const("c", T), z3.Const("y", T)
    for depth in (0, 1, 2, 3):
        for cname, cond in (("unconditional", None), ("conditional", BTV(c))):
            it = ctx.new_interp()
            cls = it.repo_class(CQ)
            tag = f"depth={depth},{cname}"
            passed = []

            class Lin:
                def __init__(self, l):
                    self.l = l

                def __call__(self, v):
                    return BTV(LIN(self.l, v.e))

            def mk_logjac(l, lin):
                def f(linear):
                    passed.append((l, linear is lin))
                    return BTV(LOGB(l))
                return f

            layers = []
            for l in range(depth + 1):
                lin = Lin(l)
                layers.append((lin, mk_logjac(l, lin)))

            class Act:
                shape = ()
                cond_shape = None

                def transform(self, v, condition=None):
                    return BTV(ACT(v.e))

                def transform_and_log_det(self, v, condition=None):
                    return BTV(ACT(v.e)), BTV(LAG(v.e))

            class Full3:
                """jnp.full((blocks, block_dim, block_dim), value)"""

                def __init__(self, shape, value):
                    self.shape_, self.value = shape, value

                @property
                def at(self):
                    me = self

                    class At:
                        def __getitem__(self, idx):
                            class S:
                                def set(self_, v):
                                    # the diagonal of every block: [:, d, d] with d = arange(block_dim) (or the equal pair diag_indices(block_dim))
                                    ok = (isinstance(idx, tuple) and len(idx) == 3 and idx[0] == slice(None) and isinstance(idx[1], Arange) and isinstance(idx[2], Arange)
                                          and (idx[1] is idx[2] or (idx[1].n is idx[2].n) or (isinstance(idx[1].n, int) and idx[1].n == idx[2].n)))
                                    if not ok:
                                        raise Untranslatable(f"unexpected update pattern {idx!r} of the log-Jacobian template")
                                    if not (isinstance(me.value, float) and me.value == float("-inf")):
                                        return BTV(z3.Const(f"template_filled_with_{me.value}".replace("-", "m").replace(".", "_"), T))
                                    return BTV(DIAG3(v.e))
                            return S()
                    return At()

            class Arange:
                def __init__(self, n_):
                    self.n = n_

            it.lib.overrides["jax.numpy.full"] = lambda shape, value, dtype=None: Full3(shape, value)
            it.lib.overrides["jax.numpy.arange"] = lambda n_: Arange(n_)
            it.lib.overrides["jax.numpy.diag_indices"] = lambda n_, ndim=2: tuple(Arange(n_) for _ in range(ndim))
            it.lib.overrides["jax.numpy.inf"] = float("inf")
            it.lib.overrides["equinox.filter_vmap"] = lambda f, **k: f
            it.global_overrides[Q] = {"logmatmulexp": lambda a, b: BTV(LME(a.e, b.e))}
            inv_calls = []

            def inverter(bij, yy, condition=None):
                inv_calls.append((bij, yy, condition))
                return BTV(INV(yy.e, NONE if condition is None else condition.e))

            self = Obj(cls, layers=layers, activation=Act(), cond_linear=(lambda cc: BTV(CONDLIN(cc.e))) if cond is not None else None, inverter=inverter,
                       depth=depth, block_dim=SV(z3.Int("block_dim")), shape=(SV(z3.Int("dim")),), cond_shape=None if cond is None else ("cond_dim",))
            rp = dict(kind="simple", cls="BlockAutoregressiveNetwork", vars={})
            # ---- specification: the log-det of the map that `transform` ACTUALLY computes.  Its term is parsed into
            # linear layers and activations (where the condition enters is an implementation choice, any x-independent
            # additive term is allowed); the chain rule on the block diagonal then fixes the log-determinant
            def mentions(e, v):
                stack, seen = [e], set()
                while stack:
                    t = stack.pop()
                    if t.get_id() in seen:
                        continue
                    seen.add(t.get_id())
                    if t.eq(v):
                        return True
                    stack.extend(t.children())
                return False

            def parse(e, xin):
                """e == LIN(l, h): returns [(l, pre-activation fed by the previous layer or None for the input layer)] inside-out"""
                if not (z3.is_app(e) and e.decl().eq(LIN)):
                    raise Untranslatable("transform is not a composition of its linear layers and activations")
                l, h = e.arg(0), e.arg(1)
                if h.eq(xin):
                    return [(l, None)]
                if not (z3.is_app(h) and h.decl().eq(ACT)):
                    raise Untranslatable("a linear layer is fed by something else than an activation or the input")
                pre = h.arg(0)
                core_ = pre
                while z3.is_app(core_) and core_.decl().eq(ADD):
                    a_, b_ = core_.children()
                    if not mentions(b_, xin):
                        core_ = a_
                    elif not mentions(a_, xin):
                        core_ = b_
                    else:
                        raise Untranslatable("pre-activation adds two input-dependent terms")
                return parse(core_, xin) + [(l, pre)]

            def spec_from(term, xin):
                seq = parse(term, xin)  # [(l0, None), (l1, pre0), ..., (lD, pre_{D-1})]
                blocks = []
                for n_, (l, pre) in enumerate(seq):
                    if pre is not None:
                        blocks.append(DIAG3(LAG(pre)))
                    blocks.append(LOGB(l))
                chain = blocks[-1]
                for b_ in reversed(blocks[:-1]):
                    chain = LME(chain, b_)
                return SUMALL(chain), [l for l, _p in seq]

            pt = single(it.explore(lambda: method(cls, "transform")(self, BTV(x), cond)), ctx, f"C07/BlockAutoregressiveNetwork.transform[{tag}]/struct/straight_line", props, CQ + ".transform")
            passed.clear()
            ptl = single(it.explore(lambda: method(cls, "transform_and_log_det")(self, BTV(x), cond)), ctx, f"C02/BlockAutoregressiveNetwork.transform_and_log_det[{tag}]/struct/straight_line", props, CQ + ".transform_and_log_det")
            if pt is None or ptl is None:
                continue
            ld, order = spec_from(pt.value.e, x)
            ctx.oblige(f"C07/BlockAutoregressiveNetwork.transform[{tag}]/struct/every_layer_once_in_order", [z3.simplify(l).as_long() for l in order] == list(range(depth + 1)), [], props, kind="struct", fn=CQ + ".transform")
            ctx.oblige(f"C01/BlockAutoregressiveNetwork[{tag}]/same_fwd", ptl.value[0].e == pt.value.e, ptl.cond + pt.cond, props, fn=CQ + ".transform_and_log_det", replay=rp)
            ctx.oblige(f"C02/BlockAutoregressiveNetwork[{tag}]/struct/log_jacobian_fn_gets_its_own_layer", len(passed) == depth + 1 and all(okp for _l, okp in passed), [], props, kind="struct", fn=CQ + ".transform_and_log_det")
            ctx.oblige(f"C02/BlockAutoregressiveNetwork[{tag}]/ldspec_fwd", lift(ptl.value[1]) == ld, ptl.cond, props, fn=CQ + ".transform_and_log_det", replay=rp, inst=[lme_assoc, lme_assoc],
                       note="log of the product of the layers' diagonal blocks at the pre-activations of the map transform computes (chain rule on the block diagonal), folded with logmatmulexp; activation Jacobians are diagonal (log 0 = -inf off the diagonal)")
            if depth >= 1:
                ctx.control(f"C02/BlockAutoregressiveNetwork[{tag}]/control/last_layer_only", lift(ptl.value[1]) == SUMALL(LOGB(depth)), ptl.cond, props, fn=CQ + ".transform_and_log_det", inst=[lme_assoc])
            # ---- inverse: delegated to the inverter (C10), log-det = minus the forward log-det at the point found
            pi = single(it.explore(lambda: method(cls, "inverse")(self, BTV(y), cond)), ctx, f"C01/BlockAutoregressiveNetwork.inverse[{tag}]/struct/straight_line", props, CQ + ".inverse")
            pil = single(it.explore(lambda: method(cls, "inverse_and_log_det")(self, BTV(y), cond)), ctx, f"C02/BlockAutoregressiveNetwork.inverse_and_log_det[{tag}]/struct/straight_line", props, CQ + ".inverse_and_log_det")
            if pi is None or pil is None:
                continue
            xi = INV(y, NONE if cond is None else c)
            okd = len(inv_calls) >= 2 and all(b_ is self and cnd is cond for b_, _y, cnd in inv_calls)
            ctx.oblige(f"C01/BlockAutoregressiveNetwork[{tag}]/struct/inverter_called_with_self_y_condition", okd, [], props, kind="struct", fn=CQ + ".inverse")
            ctx.oblige(f"C01/BlockAutoregressiveNetwork[{tag}]/same_inv", z3.And(pi.value.e == xi, pil.value[0].e == xi), pi.cond + pil.cond, props, fn=CQ + ".inverse_and_log_det", replay=rp)
            ctx.oblige(f"C02/BlockAutoregressiveNetwork[{tag}]/ld_inv", lift(pil.value[1]) == -z3.substitute(ld, (x, xi)), pil.cond, props, fn=CQ + ".inverse_and_log_det", replay=rp, inst=[lme_assoc, lme_assoc],
                       note="minus the forward log-det at the point the inverter returned")


@family("bnaf/logmatmulexp", ["C02", "C18"])
def logmatmulexp_contract(ctx):
    """entry (i, j) of logmatmulexp(x, y) is log sum_k exp(x[i,k]) * exp(y[k,j]); the row / column shifts cancel.
    The sum over k is an uninterpreted linear functional: SUM_k(a * t_k) == a * SUM_k(t_k) for a independent of k (T1)."""
    it = ctx.interp
    props = ["C02", "C18"]  # C18: the log is applied to a sum of products of exponentials (cut sum_positive): finite value and gradient
    fnq = f"{Q}.logmatmulexp"
    exp, log = UF["exp"], UF["log"]
    X = z3.Function("x", I, I, R)
    Y = z3.Function("y", I, I, R)
    i, j, k = z3.Ints("i j k")
    XS, YS = z3.Function("x_row_max", I, R), z3.Function("y_col_max", I, R)

    class Mat:
        """matrix given by its generic entry over (i, k) or (k, j); role: 'x' rows i / cols k, 'y' rows k / cols j"""

        def __init__(self, e, role):
            self.e, self.role = e, role

        def __sub__(self, o):
            return Mat(self.e - (o.e if isinstance(o, (Mat, Vecm)) else to_real(lift(o))), self.role)

        def __add__(self, o):
            return Mat(self.e + (o.e if isinstance(o, (Mat, Vecm)) else to_real(lift(o))), self.role)

    class Vecm:
        def __init__(self, e):
            self.e = e

    SUMK = z3.Function("sum_over_k", R, R)  # applied to the summand written with the bound index k: modelled per syntactic summand

    def amax(m, axis, keepdims=False):
        if not keepdims:
            raise Untranslatable("amax without keepdims: the shift no longer broadcasts along the reduced axis (not covered by this contract)")
        if m.role == "x" and axis == -1:
            return Vecm(XS(i))
        if m.role == "y" and axis == -2:
            return Vecm(YS(j))
        raise Untranslatable("amax along an unexpected axis")

    prods = []

    def matmul(a, b):
        if not (a.role == "x" and b.role == "y"):
            raise Untranslatable("matmul operand roles")
        prods.append((a.e, b.e))
        return Mat(z3.Real("matmul_entry_ij"), "xy")

    it.lib.overrides["jax.numpy.amax"] = amax
    it.lib.overrides["jax.lax.stop_gradient"] = lambda v: v
    it.lib.overrides["jax.numpy.exp"] = lambda m: Mat(exp(m.e), m.role) if isinstance(m, Mat) else SV(exp(to_real(lift(m))))
    it.lib.overrides["jax.numpy.log"] = lambda m: Mat(log(m.e), m.role) if isinstance(m, Mat) else SV(log(to_real(lift(m))))
    it.lib.overrides["jax.numpy.matmul"] = matmul
    fn = it.repo_function(fnq)
    paths = it.explore(lambda: fn(Mat(X(i, k), "x"), Mat(Y(k, j), "y")))
    p = single(paths, ctx, "C02/logmatmulexp/struct/straight_line", props, fnq)
    if p is None:
        return
    okp = len(prods) == 1
    ctx.oblige("C02/logmatmulexp/struct/one_matrix_product", okp, [], props, kind="applicability", fn=fnq)
    if not okp:
        return
    a_e, b_e = prods[0]
    # summand of the real matmul: a_e * b_e (depends on k); the specification's summand: exp(x_ik) * exp(y_kj)
    S_real, S_spec = z3.Real("sum_k_of_real_summand"), z3.Real("sum_k_of_spec_summand")
    # linearity instance: if real_summand == f * spec_summand with f independent of k then the sums are in the same ratio
    f = exp(-XS(i)) * exp(-YS(j))
    summand_real, summand_spec = a_e * b_e, exp(X(i, k)) * exp(Y(k, j))
    ctx.oblige("C02/logmatmulexp/lemma/summand_is_shifted_summand", summand_real == f * summand_spec, p.cond, props, fn=fnq, rounds=3,
               extra_terms=[exp(X(i, k) - XS(i)), exp(X(i, k)), exp(-XS(i)), exp(Y(k, j) - YS(j)), exp(Y(k, j)), exp(-YS(j))])
    res = z3.substitute(p.value.e, (z3.Real("matmul_entry_ij"), S_real))
    hyp = [S_real == f * S_spec, S_spec > 0]  # linearity of the sum (T1) applied to the lemma; a sum of exponentials is positive
    # exponentiated form (log is injective on positives): exp(result) == sum_k exp(x_ik) exp(y_kj)
    ctx.oblige("C02/logmatmulexp/post/log_of_product_of_exponentials", exp(res) == S_spec, p.cond + hyp, props, fn=fnq, rounds=3,
               extra_terms=[exp(res), exp(log(S_real)), exp(-XS(i)), exp(-YS(j)), exp(XS(i)), exp(YS(j)), exp(log(S_real) + XS(i) + YS(j)), exp(XS(i) + YS(j))],
               cuts=[("sum_positive", S_real > 0), ("exp_log", exp(log(S_real)) == S_real), ("shifts_cancel", exp(-XS(i)) * exp(XS(i)) * exp(-YS(j)) * exp(YS(j)) == 1)],
               replay=dict(kind="simple", cls="BlockAutoregressiveNetwork", vars={}))


@family("bnaf/_CallableToBijection", ["C02", "C07"])
def callable_to_bijection(ctx):
    """the scalar activation wrapper of BNAF: transform is the callable, the reported log-determinant is log|f'(x)| where f' is the
    derivative autodiff returns (T3: eqx.filter_value_and_grad(f)(x) == (f(x), f'(x)))"""
    it = ctx.interp
    props = ["C02", "C07"]
    q = f"{Q}._CallableToBijection"
    cls = it.repo_class(q)
    log = UF["log"]
    FN, DFN = z3.Function("activation_fn", R, R), z3.Function("activation_fn_derivative", R, R)
    x = z3.Real("x")
    calls = []

    def fn(v):
        calls.append(v)
        return SV(FN(to_real(lift(v))))

    def value_and_grad(f, **kw):
        if kw:
            raise Untranslatable("filter_value_and_grad with options")

        def vg(v):
            if f is not fn:
                raise Untranslatable("value_and_grad of something other than the wrapped callable")
            return f(v), SV(DFN(to_real(lift(v))))

        return vg

    it.lib.overrides["equinox.filter_value_and_grad"] = value_and_grad
    it.lib.overrides["jax.value_and_grad"] = value_and_grad
    it.lib.overrides["jax.numpy.abs"] = lambda v: SV(z3.If(lift(v) >= 0, lift(v), -lift(v)))
    paths = it.explore(lambda: cls(fn))
    okp = [p for p in paths if p.outcome == "return"]
    ctx.oblige("C07/_CallableToBijection.__init__/struct/accepts_a_callable", len(okp) == 1 and len(paths) == 1, [], props, kind="struct", fn=q + ".__init__")
    if len(okp) != 1:
        return
    o = okp[0].value
    rp = dict(kind="c09", what="bnaf", vars={})
    pt = single(it.explore(lambda: method(cls, "transform")(o, SV(x))), ctx, "C07/_CallableToBijection.transform/struct/straight_line", props, q + ".transform")
    if pt is not None:
        ctx.oblige("C07/_CallableToBijection.transform/post/is_the_callable", lift(pt.value) == FN(x), pt.cond, props, fn=q + ".transform", replay=rp)
    pl = single(it.explore(lambda: method(cls, "transform_and_log_det")(o, SV(x))), ctx, "C02/_CallableToBijection.transform_and_log_det/struct/straight_line", props, q + ".transform_and_log_det")
    if pl is not None and isinstance(pl.value, tuple) and len(pl.value) == 2:
        y, ld = pl.value
        ctx.oblige("C02/_CallableToBijection.transform_and_log_det/post/same_point_as_transform", lift(y) == FN(x), pl.cond, props, fn=q + ".transform_and_log_det", replay=rp)
        ctx.oblige("C02/_CallableToBijection.transform_and_log_det/post/log_abs_derivative", lift(ld) == log(z3.If(DFN(x) >= 0, DFN(x), -DFN(x))), pl.cond, props, fn=q + ".transform_and_log_det", replay=rp)
        ctx.control("C02/_CallableToBijection.transform_and_log_det/control/log_of_signed_derivative", lift(ld) == log(DFN(x)), pl.cond, props, fn=q + ".transform_and_log_det")
    elif pl is not None:
        ctx.oblige("C02/_CallableToBijection.transform_and_log_det/struct/returns_a_pair", False, [], props, kind="applicability", fn=q + ".transform_and_log_det")
