"""Contracts for _UnconditionalPlanar / Planar (C01, C02, C07, C11).

Vectors are linear combinations of finitely many symbolic basis vectors (x or y, w, u) with real coefficients; dot products
expand bilinearly into Gram constants G(a,b) (symmetric, G(w,w) > 0 for w != 0).  Equality of vectors is proved
coefficient-wise (sufficient; the basis vectors are arbitrary)."""
import z3

from fjvc.core import family
from fjvc.interp import Obj, Untranslatable
from fjvc.values import SV, UF, lift, to_real, R

from .leaves import method, single, absr

exp, log, sqrt, tanh = UF["exp"], UF["log"], UF["sqrt"], UF["tanh"]
Q = "flowjax.bijections.planar._UnconditionalPlanar"


def gram(a, b):
    a, b = sorted((a, b))
    return z3.Real(f"G_{a}_{b}")


class LV:
    """linear combination of named basis vectors"""

    def __init__(self, coef):
        self.coef = {k: (to_real(lift(v)) if not isinstance(v, z3.ExprRef) else v) for k, v in coef.items()}

    def _lin(self, o, sa, sb):
        if not isinstance(o, LV):
            return NotImplemented
        keys = set(self.coef) | set(o.coef)
        return LV({k: sa * self.coef.get(k, z3.RealVal(0)) + sb * o.coef.get(k, z3.RealVal(0)) for k in keys})

    def __add__(self, o):
        return self._lin(o, 1, 1)

    __radd__ = __add__

    def __sub__(self, o):
        return self._lin(o, 1, -1)

    def __mul__(self, o):
        if isinstance(o, LV):
            raise Untranslatable("elementwise product of vectors")
        c = to_real(lift(o))
        return LV({k: v * c for k, v in self.coef.items()})

    __rmul__ = __mul__

    def __truediv__(self, o):
        c = to_real(lift(o))
        return LV({k: v / c for k, v in self.coef.items()})

    def __neg__(self):
        return LV({k: -v for k, v in self.coef.items()})

    def __matmul__(self, o):
        if not isinstance(o, LV):
            return NotImplemented
        tot = z3.RealVal(0)
        for a, ca in self.coef.items():
            for b, cb in o.coef.items():
                tot = tot + ca * cb * gram(a, b)
        return SV(tot)

    __rmatmul__ = __matmul__

    @property
    def shape(self):
        return (SV(z3.Int("dim")),)


def vec_eq(a, b):
    keys = set(a.coef) | set(b.coef)
    return z3.And(*[a.coef.get(k, z3.RealVal(0)) == b.coef.get(k, z3.RealVal(0)) for k in keys])


def leaky(v, s):
    return z3.If(v >= 0, v, s * v)


def install(it):
    it.lib.overrides["jax.numpy.linalg.norm"] = lambda v: SV(sqrt(lift(v @ v)))
    it.lib.overrides["jax.nn.leaky_relu"] = lambda v, negative_slope=0.01: SV(leaky(to_real(lift(v)), to_real(lift(negative_slope))))


@family("planar/_UnconditionalPlanar", ["C01", "C02", "C07", "C11", "C04"])
def planar(ctx):
    it = ctx.interp
    install(it)
    cls = it.repo_class(Q)
    s, b = z3.Reals("negative_slope bias")
    props = ["C01", "C02", "C07", "C11", "C04"]
    w, u, x, y = LV({"w": 1}), LV({"u": 1}), LV({"x": 1}), LV({"y": 1})
    gww, gwu = gram("w", "w"), gram("w", "u")
    pre = [gww > 0]  # requires weight != 0 (the constraint divides by |w|^2)
    rp = dict(kind="planar", vars=dict(negative_slope=s, bias=b, G_w_w=gww, G_u_w=gwu, G_w_x=gram("w", "x"), G_u_u=gram("u", "u")))
    # ---- constructor: leaky relu variant; raises iff negative_slope <= 0
    paths = it.explore(lambda: cls(w, u, SV(b), SV(s)))
    objs = []
    for i, p in enumerate(paths):
        if p.outcome == "raise":
            ctx.oblige(f"C11/_UnconditionalPlanar.__init__/post/raises_only_if#{i}", z3.And(s <= 0, z3.BoolVal(p.value.exc == "ValueError")), p.cond, props, fn=Q + ".__init__", replay=rp)
        else:
            ctx.oblige(f"C11/_UnconditionalPlanar.__init__/post/accepts_only_positive_slope#{i}", s > 0, p.cond, props, fn=Q + ".__init__", replay=rp)
            objs.append(p)
    ctx.oblige("C11/_UnconditionalPlanar.__init__/struct/has_success_path", len(objs) == 1, [], props, kind="struct", fn=Q + ".__init__")
    if len(objs) != 1:
        return
    o, c0 = objs[0].value, objs[0].cond
    # ---- the constraint on u (appendix A1 of Rezende & Mohamed): w.u_hat = -1 + log(1 + softplus(w.u)) > -1
    pgs = [p for p in it.explore(lambda: method(cls, "get_act_scale")(o)) if p.outcome == "return"]
    ctx.oblige("C11/_UnconditionalPlanar.get_act_scale/struct/returns", len(pgs) >= 1, [], props, kind="struct", fn=Q + ".get_act_scale")
    kw = dict(rounds=3)
    smax = z3.If(s > 1, s, z3.RealVal(1))
    for i, pg in enumerate(pgs):  # negative_slope is a static Python float: branching on it is allowed
        uh = pg.value
        wuh = lift(w @ uh)
        H = pre + c0 + pg.cond
        proj = wuh == -1 / smax + log(1 + log(1 + exp(gwu)))
        ctx.oblige(f"C11/_UnconditionalPlanar.get_act_scale/post/projected_inner_product#{i}", proj, H, props, fn=Q + ".get_act_scale", replay=rp,
                   cuts=[("sqrt_sq", sqrt(gww) * sqrt(gww) == gww)], **kw)
        ctx.oblige(f"C11/_UnconditionalPlanar.get_act_scale/post/inner_product_bounded_below#{i}", wuh > -1 / smax, H + [proj], props, fn=Q + ".get_act_scale", replay=rp, **kw)
        # invertibility: both leaky-relu pieces strictly increasing along w:  1 + s' * w.u_hat > 0 for s' in {1, negative_slope}
        ctx.oblige(f"C11/_UnconditionalPlanar/post/invertible#{i}", z3.And(1 + wuh > 0, 1 + s * wuh > 0), H + [wuh > -1 / smax], props, fn=Q + ".get_act_scale", replay=rp,
                   note="planar layers stay invertible for every value of the raw parameters")
    # ---- forward function (C07) and round trip (C01) with the constrained u abstracted by its proven property
    uh_s = LV({"uh": 1})
    gwuh = gram("w", "uh")
    o2 = Obj(cls, weight=w, _act_scale=u, bias=SV(b), negative_slope=SV(s), activation="leaky_relu", activation_fn=it.lib.resolve("functools.partial")(it.lib.resolve("jax.nn.leaky_relu"), negative_slope=SV(s)), shape=(SV(z3.Int("dim")),))
    object.__getattribute__(o2, "_fields")["get_act_scale"] = lambda: uh_s
    inv = [s > 0, 1 + gwuh > 0, 1 + s * gwuh > 0]
    pt = single(it.explore(lambda: method(cls, "transform")(o2, x, None)), ctx, "C07/_UnconditionalPlanar.transform/struct/straight_line", props, Q + ".transform")
    if pt is not None:
        z = gram("w", "x") + b
        ctx.oblige("C07/_UnconditionalPlanar.transform/post/fwd", vec_eq(pt.value, x + uh_s * SV(leaky(z, s))), pt.cond, props, fn=Q + ".transform", replay=rp)
        ptl = single(it.explore(lambda: method(cls, "transform_and_log_det")(o2, x, None)), ctx, "C02/_UnconditionalPlanar.transform_and_log_det/struct/straight_line", props, Q + ".transform_and_log_det")
        if ptl is not None:
            yv, ld = ptl.value
            ctx.oblige("C01/_UnconditionalPlanar/same_fwd", vec_eq(yv, pt.value), ptl.cond + pt.cond, props, fn=Q + ".transform_and_log_det", replay=rp)
            # matrix determinant lemma: det(I + u_hat psi^T) = 1 + psi.u_hat, psi = act'(z) w
            dact = z3.If(z >= 0, z3.RealVal(1), s)
            ctx.oblige("C02/_UnconditionalPlanar/ldspec_fwd", lift(ld) == log(absr(1 + dact * gwuh)), ptl.cond + inv + [z != 0], props, fn=Q + ".transform_and_log_det", replay=rp,
                       note="away from the kink z = 0 of the leaky relu (measure zero); det by the matrix determinant lemma (cited)")
        # compose the real inverse on the forward image: y := x + uh * leaky(z): substitute the Gram constants of y
        pil = it.explore(lambda: method(cls, "inverse_and_log_det")(o2, y, None))
        pil = single(pil, ctx, "C01/_UnconditionalPlanar.inverse_and_log_det/struct/straight_line", props, Q + ".inverse_and_log_det")
        if pil is not None:
            pinv = single(it.explore(lambda: method(cls, "inverse")(o2, y, None)), ctx, "C01/_UnconditionalPlanar.inverse/struct/straight_line", props, Q + ".inverse")
            if pinv is not None:
                okv = isinstance(pinv.value, LV) and isinstance(pil.value, tuple) and isinstance(pil.value[0], LV)
                ctx.oblige("C01/_UnconditionalPlanar/same_inv", vec_eq(pinv.value, pil.value[0]) if okv else z3.BoolVal(False), pinv.cond + pil.cond + inv, props, fn=Q + ".inverse", replay=rp,
                           note="the plain inverse returns the point of inverse_and_log_det")
            xb, ldi = pil.value
            a = leaky(z, s)
            # y = x + a*uh  =>  w.y = w.x + a * w.uh ; coefficients of y in the basis {x, uh}
            subs = [(gram("w", "y"), gram("w", "x") + a * gwuh)]
            def sub(e):
                return z3.substitute(e, *subs)
            coef = {k: sub(v) for k, v in xb.coef.items()}
            cy = coef.pop("y", z3.RealVal(0))
            back = LV(coef) + LV({"x": cy, "uh": cy * a})
            ctx.oblige("C01/_UnconditionalPlanar/rt1", vec_eq(back, x), [sub(c) for c in pil.cond] + inv, props, fn=Q + ".inverse_and_log_det", replay=rp,
                       cases=[("z_nonneg", z >= 0), ("z_neg", z < 0)])
            ctx.oblige("C02/_UnconditionalPlanar/ld_inv", sub(lift(ldi)) == -log(absr(1 + z3.If(z >= 0, z3.RealVal(1), s) * gwuh)), [sub(c) for c in pil.cond] + inv + [z != 0], props, fn=Q + ".inverse_and_log_det", replay=rp,
                       cases=[("z_pos", z > 0), ("z_neg", z < 0)])
            ctx.control("C01/_UnconditionalPlanar/control/rt1_without_invertibility", vec_eq(back, x), [sub(c) for c in pil.cond] + [s > 0, gwuh > -1], props, fn=Q + ".inverse_and_log_det", cases=None)


@family("planar/Planar", ["C01", "C02", "C03", "C13"])
def planar_wrapper(ctx):
    """Planar: every method delegates to the _UnconditionalPlanar built by get_planar from the SAME parameter vector (the stored one, or
    the conditioner applied to the caller's condition): hence its round trips / log-dets are those of _UnconditionalPlanar"""
    import z3 as _z3
    from .abstract import TV, T
    props = ["C01", "C02", "C03", "C13"]
    PQ = "flowjax.bijections.planar.Planar"
    c = _z3.Const("c", T)
    for cname, cond in (("unconditional", None), ("conditional", TV(c))):
        it = ctx.new_interp()
        cls = it.repo_class(PQ)
        dimv = SV(_z3.Int("dim"))
        built = []

        L = 2 * dimv.e + 1  # length of the parameter vector

        class PVec:
            """a contiguous piece [lo, hi) of the parameter vector of one source (stored array / conditioner output)"""

            def __init__(self, src, lo=None, hi=None):
                self.src = src
                self.lo = _z3.IntVal(0) if lo is None else lo
                self.hi = L if hi is None else hi

            def _abs(self, i):
                i = lift(i)
                n_ = self.hi - self.lo
                return self.lo + _z3.If(i < 0, i + n_, i)

            def __getitem__(self, idx):
                if isinstance(idx, slice):
                    if idx.step is not None:
                        raise Untranslatable("strided slice of the parameter vector")
                    lo_ = self.lo if idx.start is None else self._abs(idx.start)
                    hi_ = self.hi if idx.stop is None else self._abs(idx.stop)
                    return PVec(self.src, lo_, hi_)
                return ("entry", self.src, _z3.simplify(self._abs(idx)))

            def key(self):
                return ("slice", self.src, str(_z3.simplify(self.lo)), str(_z3.simplify(self.hi)))

        class UP:
            def __init__(self, w, u, bias, negative_slope=None):
                self.args = (w, u, bias, negative_slope)
                built.append(self)
                self.calls = []

            def _m(name):
                def f(self, v, condition=None):
                    self.calls.append((name, v, condition))
                    return (name, self, v)
                return f

            transform, transform_and_log_det, inverse, inverse_and_log_det = _m("transform"), _m("transform_and_log_det"), _m("inverse"), _m("inverse_and_log_det")

        it.global_overrides["flowjax.bijections.planar"] = {"_UnconditionalPlanar": UP}
        stored = PVec("stored")
        seen_cond = []

        def conditioner(cc):
            seen_cond.append(cc)
            return PVec(("conditioner", cc))

        o = Obj(cls, shape=(dimv,), cond_shape=None if cond is None else ("cond_dim",), params=stored if cond is None else None,
                conditioner=None if cond is None else conditioner, negative_slope=SV(_z3.Real("negative_slope")))
        argsets = []
        for meth in ("transform", "transform_and_log_det", "inverse", "inverse_and_log_det"):
            built.clear()
            paths = it.explore(lambda meth=meth: method(cls, meth)(o, "point", cond))
            p = single(paths, ctx, f"C01/Planar.{meth}[{cname}]/struct/straight_line", props, f"{PQ}.{meth}")
            if p is None:
                continue
            ok = len(built) == 1 and p.value == (meth, built[0], "point")
            ctx.oblige(f"C01/Planar.{meth}[{cname}]/post/delegates_to_the_same_named_method_of_get_planar", bool(ok), [], props, kind="struct", fn=f"{PQ}.{meth}", replay=dict(kind="simple", cls="Planar", vars={}))
            if not ok:
                continue
            w, u, b, s = built[0].args
            src = stored.src if cond is None else ("conditioner", cond)
            same_src = all((isinstance(t, PVec) and t.src == src) or (isinstance(t, tuple) and t[0] == "entry" and t[1] == src) for t in (w, u, b))
            ctx.oblige(f"C03/Planar.{meth}[{cname}]/post/parameters_from_{'the_conditioner_at_the_callers_condition' if cond is not None else 'the_stored_vector'}", bool(same_src) and s is o.negative_slope, [], props, kind="struct", fn=f"{PQ}.get_planar", replay=dict(kind="simple", cls="Planar", vars={}))
            argsets.append((meth, tuple(repr(t.key() if isinstance(t, PVec) else (t[0], t[1], str(t[2]))) for t in (w, u, b))))
        ctx.oblige(f"C01/Planar[{cname}]/post/all_methods_build_the_same_planar_bijection", len(argsets) == 4 and len({a_ for _m, a_ in argsets}) == 1, [], props, kind="struct", fn=f"{PQ}.get_planar",
                   note="how the parameter vector is laid out (weight / u / bias) is an implementation choice; it must be the same for transform and inverse")


@family("planar/_UnconditionalPlanar[tanh]", ["C02", "C07", "C01", "C04"])
def planar_tanh(ctx):
    """tanh variant: y = x + u_hat tanh(w.x + b); log|det| = log|1 + (1 - tanh^2(z)) w.u_hat| (matrix determinant lemma, cited);
    |w.u_hat| constraint: 1 + tanh'(z) w.u_hat > 0 because w.u_hat > -1 and 0 < tanh' <= 1 (invertibility); no closed-form inverse"""
    it = ctx.new_interp()
    install(it)
    it.lib.overrides["jax.numpy.tanh"] = lambda v: SV(tanh(to_real(lift(v))))
    cls = it.repo_class(Q)
    props = ["C02", "C07", "C01", "C04"]
    b = z3.Real("bias")
    w, x = LV({"w": 1}), LV({"x": 1})
    uh_s = LV({"uh": 1})
    gwuh = gram("w", "uh")
    o = Obj(cls, weight=w, _act_scale=LV({"u": 1}), bias=SV(b), negative_slope=None, activation="tanh", activation_fn=it.lib.resolve("jax.numpy.tanh"), shape=(SV(z3.Int("dim")),))
    object.__getattribute__(o, "_fields")["get_act_scale"] = lambda: uh_s
    z = gram("w", "x") + b
    rp = dict(kind="simple", cls="Planar(tanh)", vars={})
    pt = single(it.explore(lambda: method(cls, "transform")(o, x, None)), ctx, "C07/_UnconditionalPlanar[tanh].transform/struct/straight_line", props, Q + ".transform")
    ptl = single(it.explore(lambda: method(cls, "transform_and_log_det")(o, x, None)), ctx, "C02/_UnconditionalPlanar[tanh].transform_and_log_det/struct/straight_line", props, Q + ".transform_and_log_det")
    if pt is None or ptl is None:
        return
    ctx.oblige("C07/_UnconditionalPlanar[tanh].transform/post/fwd", vec_eq(pt.value, x + uh_s * SV(tanh(z))), pt.cond, props, fn=Q + ".transform", replay=rp)
    yv, ld = ptl.value
    ctx.oblige("C01/_UnconditionalPlanar[tanh]/same_fwd", vec_eq(yv, pt.value), ptl.cond + pt.cond, props, fn=Q + ".transform_and_log_det", replay=rp)
    dact = 1 - tanh(z) * tanh(z)
    ctx.oblige("C02/_UnconditionalPlanar[tanh]/ldspec_fwd", lift(ld) == log(absr(1 + dact * gwuh)), ptl.cond, props, fn=Q + ".transform_and_log_det", replay=rp,
               note="det(I + u_hat psi^T) = 1 + psi.u_hat with psi = tanh'(z) w (matrix determinant lemma, cited)")
    # the argument of the log is positive for the constrained u_hat (w.u_hat > -1): finite log-det, orientation preserved
    t = z3.Real("tanh_z")
    ctx.oblige("C04/_UnconditionalPlanar[tanh]/lemma/jacobian_factor_positive", 1 + (1 - t * t) * gwuh > 0, [gwuh > -1, t > -1, t < 1], props, kind="lemma", fn=Q + ".transform_and_log_det",
               cases=[("wu_nonneg", gwuh >= 0), ("wu_neg", gwuh < 0)])
