"""TriangularAffine (C01, C02, C07, C09, C11): matrices are generic-entry values, vectors are generic-element values over the
index symbol d.

The object is built by the REAL constructor, EVERY inexact leaf of the result is then replaced by an arbitrary value
(whatever training does), the REAL unwrap is applied and the four REAL methods are executed on the unwrapped object.

Linear algebra is contracted, not computed (T3, listed as assumptions in the evidence):
  matvec      A @ x is an uninterpreted vector MATVEC_k registered with its operands (the forward Jacobian of A @ x + b is A)
  solve_triangular(A, b, lower)
      requires  A[r, c] == 0 above (lower) / below (upper) the diagonal  and  A[r, r] != 0        -- emitted as obligations
      ensures   solve(A, A @ x) == x   and   A @ solve(A, b) == b                                 -- unique solvability
  det         log|det A| == sum_d log|A[d, d]| for triangular A (product of the diagonal)
An operand pattern the contract does not recognise makes the family untranslatable (undecided), never a violation.
"""
import z3

from fjvc.core import family, apps_of
from fjvc.interp import Obj, obj_class, obj_fields, Untranslatable
from fjvc.lib import tree_map
from fjvc.values import SV, SumT, UF, lift, to_real, R, I

from .leaves import method, single, absr
from .masks import MV, mask_lib, r_, c_

exp, log = UF["exp"], UF["log"]
d_ = z3.Int("d")  # the generic vector index
Q = "flowjax.bijections.affine.TriangularAffine"
dim = z3.Int("dim")


def vec(f):
    return SV(f(d_), elem=True, tags={"shape": ("dim",), "vec": True})


def at(v, i):
    """entry i of a generic-element vector"""
    return z3.substitute(to_real(lift(v)), (d_, i))


class LinAlg:
    def __init__(self, it):
        self.it, self.mv, self.sol, self.n = it, {}, {}, 0

    def same_matrix(self, A, B):
        if A is B:
            return True
        a, b = z3.simplify(A.f(r_, c_)), z3.simplify(B.f(r_, c_))
        return a.eq(b)

    def matvec(self, A, x):
        if not (isinstance(A, MV) and isinstance(x, SV)):
            raise Untranslatable("matmul operands")
        xe = z3.simplify(to_real(lift(x)))
        for name, (A2, b, fn) in self.sol.items():
            if xe.eq(fn(d_)):
                if not self.same_matrix(A, A2):
                    raise Untranslatable("A @ solve(A', b) with a different matrix")
                return SV(b, elem=True, tags=dict(x.tags or {}))
        for name, (A2, x2, fn) in self.mv.items():
            if xe.eq(x2) and self.same_matrix(A, A2):
                return SV(fn(d_), elem=True, tags=dict(x.tags or {}))  # the same product (function congruence)
        self.n += 1
        fn = z3.Function(f"MATVEC_{self.n}", I, R)
        self.mv[fn.name()] = (A, xe, fn)
        return SV(fn(d_), elem=True, tags=dict(x.tags or {}))

    def solve(self, A, b, lower=False, **kw):
        it = self.it
        if not (isinstance(A, MV) and isinstance(b, SV)):
            raise Untranslatable("solve_triangular operands")
        rng = [r_ >= 0, r_ < A.rows, c_ >= 0, c_ < A.cols]
        lo = it.truth(lower) if not isinstance(lower, bool) else lower
        it.emit(f"solve_triangular/requires/{'lower' if lo else 'upper'}_triangular", "pre", z3.Implies(c_ > r_ if lo else c_ < r_, A.f(r_, c_) == 0), rng)
        it.emit("solve_triangular/requires/nonzero_diagonal", "pre", A.f(r_, r_) != 0, rng)
        be = z3.simplify(to_real(lift(b)))
        for name, (A2, x, fn) in self.mv.items():
            if be.eq(fn(d_)):
                if not self.same_matrix(A, A2):
                    raise Untranslatable("solve(A, A' @ x) with a different matrix")
                return SV(x, elem=True, tags=dict(b.tags or {}))
        self.n += 1
        fn = z3.Function(f"SOLVE_{self.n}", I, R)
        self.sol[fn.name()] = (A, be, fn)
        return SV(fn(d_), elem=True, tags=dict(b.tags or {}))


def tri_lib(it):
    mask_lib(it)
    la = LinAlg(it)
    lib = it.lib.overrides
    MV.__matmul__ = lambda A, x: MV._matvec(A, x)
    MV._matvec = staticmethod(la.matvec)
    lib["jax.scipy.linalg.solve_triangular"] = la.solve
    lib["jax.numpy.tril"] = lambda m, k=0: MV(m.rows, m.cols, lambda r, c: z3.If(c <= r + lift(k), m.f(r, c), z3.RealVal(0)))
    lib["jax.numpy.triu"] = lambda m, k=0: MV(m.rows, m.cols, lambda r, c: z3.If(c >= r + lift(k), m.f(r, c), z3.RealVal(0)))

    def diag(v, k=0):
        if isinstance(v, MV):
            return vec(lambda i: v.f(i, i))
        if isinstance(v, SV):
            return MV(dim, dim, lambda r, c: z3.If(r == c, at(v, r), z3.RealVal(0)))
        raise Untranslatable("diag operand")

    lib["jax.numpy.diag"] = diag
    lib["jax.numpy.broadcast_to"] = lambda a, shape: a
    return la


def havoc_all(tree, tag):
    cnt = [0]

    def f(x):
        if isinstance(x, MV) and x.kind == "real":
            cnt[0] += 1
            W = z3.Function(f"{tag}_M{cnt[0]}", I, I, R)
            return MV(x.rows, x.cols, lambda r, c: W(r, c))
        if isinstance(x, SV) and x.e.sort() == R:
            cnt[0] += 1
            V = z3.Function(f"{tag}_v{cnt[0]}", I, R)
            return SV(V(d_), True, x.tags)
        return x

    return tree_map(f, tree), cnt[0]


@family("triangular/TriangularAffine", ["C01", "C02", "C07", "C09", "C11", "C14"])
def triangular_affine(ctx):
    props = ["C01", "C02", "C07", "C09", "C11"]
    for lower in (True, False):
        it = ctx.new_interp()
        from .wrappers import install as winstall
        from .params11 import env11, defined_and
        winstall(it)
        env11(it)
        la = tri_lib(it)
        tag = "lower" if lower else "upper"
        A0 = z3.Function("arr", I, I, R)
        L0 = z3.Function("loc", I, R)
        arr = MV(dim, dim, lambda r, c: A0(r, c))
        arr.ndim = 2
        loc = vec(lambda i: L0(i))
        state = {}

        def isfinite(v):
            if isinstance(v, SV) and z3.simplify(v.e).eq(A0(d_, d_)):
                return SV(z3.BoolVal(True), True)  # finite constructor arguments (assumption of the constructor contract)
            return SV(defined_and(it.side, state.get("start", 0)), True)

        it.lib.overrides["jax.numpy.isfinite"] = isfinite
        it.global_overrides["flowjax.bijections.affine"] = {"arraylike_to_array": lambda a, *r, **k: a}
        cls = it.repo_class(Q)
        fq = Q + ".__init__"

        def build():
            state["start"] = len(it.side)
            return cls(loc, arr, lower=lower)

        paths = it.explore(build)
        ok = [p for p in paths if p.outcome == "return"]
        ctx.oblige(f"C11/TriangularAffine[{tag}].__init__/struct/has_success_path", len(ok) == 1, [], props, kind="struct", fn=fq)
        rp = dict(kind="triangular", lower=lower, vars={})
        rng = [dim >= 1, r_ >= 0, r_ < dim, c_ >= 0, c_ < dim, d_ >= 0, d_ < dim]
        for i, p in enumerate(paths):
            if p.outcome == "raise":
                ctx.oblige(f"C11/TriangularAffine[{tag}].__init__/post/rejects_only_nonpositive_diagonal#{i}", A0(d_, d_) <= 0, rng + p.cond, props, fn=fq, replay=rp)
        if len(ok) != 1:
            continue
        p0 = ok[0]
        o = p0.value
        ctx.oblige(f"C11/TriangularAffine[{tag}].__init__/post/accepts_only_positive_diagonal", A0(d_, d_) > 0, rng + p0.cond, props, fn=fq, replay=rp)
        unwrap = it.repo_function("flowjax.wrappers.unwrap")
        # ---- the constructed object reproduces its arguments
        pu0 = [q for q in it.explore(lambda: unwrap(o)) if q.outcome == "return"]
        if len(pu0) == 1 and isinstance(pu0[0].value.triangular, MV):
            T0 = pu0[0].value.triangular
            keep = (c_ <= r_) if lower else (c_ >= r_)
            ctx.oblige(f"C11/TriangularAffine[{tag}].__init__/post/reproduces_triangle_of_arr", T0.f(r_, c_) == z3.If(keep, A0(r_, c_), 0), rng + [z3.substitute(h, (d_, r_)) for h in p0.cond + pu0[0].cond], props, fn=fq, replay=rp,
                       rounds=3, extra_terms=[exp(A0(r_, r_)), exp(T0.f(r_, r_))], note="path conditions hold for every index d: instantiated at the row r")
        else:
            ctx.oblige(f"C11/TriangularAffine[{tag}].__init__/struct/unwrap_straight_line", False, [], props, kind="applicability", fn=fq)
        # ---- arbitrary training, then the real unwrap
        trained, nleaves = havoc_all(o, f"trained_{tag}")
        ctx.oblige(f"C09/TriangularAffine[{tag}]/struct/trainable_leaves_found", nleaves >= 3, [], props, kind="struct", fn=fq, note="loc, the raw diagonal and the raw matrix")
        pus = [q for q in it.explore(lambda: unwrap(trained)) if q.outcome == "return"]
        ctx.oblige(f"C09/TriangularAffine[{tag}]/unwrap/struct/returns", len(pus) == 1, [], props, kind="struct", fn="flowjax.wrappers.unwrap")
        if len(pus) != 1:
            continue
        u = pus[0].value
        T = u.triangular
        okm = isinstance(T, MV)
        ctx.oblige(f"C09/TriangularAffine[{tag}]/struct/unwrapped_matrix", okm, [], props, kind="applicability", fn=fq)
        if not okm:
            continue
        H = rng + pus[0].cond
        # every array that determines the behaviour is a pytree LEAF: once all leaves are replaced (training, or loading saved
        # leaves into a freshly constructed model) nothing of the constructor's own arguments is left in the maps (C14: no array
        # hidden in a static field or a closure; C12: the optimiser reaches everything that is trainable)
        mentions = [nm for nm, fsym in (("arr", A0), ("loc", L0)) if apps_of(fsym, [T.f(r_, c_), to_real(lift(u.loc))])]
        ctx.oblige(f"C14/TriangularAffine[{tag}]/post/no_constructor_array_outlives_its_leaves", not mentions, [], props + ["C14"], kind="struct", fn=fq, replay=dict(kind="c14", cls="TriangularAffine", vars={}),
                   note=f"after replacing every array leaf the unwrapped maps still mention the constructor argument(s) {mentions}" if mentions else None)
        off = (c_ > r_) if lower else (c_ < r_)
        ctx.oblige(f"C09/TriangularAffine[{tag}]/post/triangular_for_any_raw_values", z3.Implies(off, T.f(r_, c_) == 0), H, props, fn=fq, replay=rp)
        ctx.oblige(f"C11/TriangularAffine[{tag}]/post/positive_diagonal_for_any_raw_values", T.f(r_, r_) > 0, H, props, fn=fq, replay=rp, rounds=2)
        ctx.control(f"C09/TriangularAffine[{tag}]/control/other_triangle_zero", z3.Implies((c_ < r_) if lower else (c_ > r_), T.f(r_, c_) == 0), H, props, fn=fq)
        # ---- the four real methods on the unwrapped object
        X0, Y0 = z3.Function("x", I, R), z3.Function("y", I, R)
        x, y = vec(lambda i: X0(i)), vec(lambda i: Y0(i))
        locu = to_real(lift(u.loc))

        def run(meth, arg):
            ps = it.explore(lambda: method(cls, meth)(u, arg, None))
            return single(ps, ctx, f"C01/TriangularAffine[{tag}].{meth}/struct/straight_line", props, f"{Q}.{meth}")

        pt = run("transform", x)
        if pt is None:
            continue
        yv = z3.simplify(to_real(lift(pt.value)))
        # documented function: A x + b with the (unwrapped) triangular matrix
        mvs = [(n_, t) for n_, t in la.mv.items() if t[1].eq(to_real(x.e))]
        okf = len(mvs) == 1 and la.same_matrix(mvs[0][1][0], T)
        ctx.oblige(f"C07/TriangularAffine[{tag}].transform/struct/is_matvec_of_triangular", okf, [], props, kind="applicability", fn=f"{Q}.transform")
        if not okf:
            continue
        Ax = mvs[0][1][2](d_)
        ctx.oblige(f"C07/TriangularAffine[{tag}].transform/post/fwd", yv == Ax + locu, H + pt.cond, props, fn=f"{Q}.transform", replay=rp)
        ptl = run("transform_and_log_det", x)
        if ptl is not None:
            y2, ld = ptl.value
            ctx.oblige(f"C01/TriangularAffine[{tag}]/same_fwd", to_real(lift(y2)) == yv, H + ptl.cond, props, fn=f"{Q}.transform_and_log_det", replay=rp)
            oks = isinstance(ld, SumT)
            ctx.oblige(f"C02/TriangularAffine[{tag}]/ld_scalar", oks, [], props, kind="struct", fn=f"{Q}.transform_and_log_det")
            if oks:
                # Jacobian of A x + b is A; log|det A| of a triangular matrix is the sum of log|diagonal| (T3)
                ctx.oblige(f"C02/TriangularAffine[{tag}]/ldspec_fwd", ld.t == log(absr(T.f(d_, d_))), H + ptl.cond, props, fn=f"{Q}.transform_and_log_det", replay=rp)
        # inverse applied to the forward image / forward applied to the inverse image
        ycomp = SV(yv, elem=True, tags=x.tags)
        pi = run("inverse", ycomp)
        if pi is not None:
            ctx.from_path(pi, "C01", props, fn=f"{Q}.inverse", extra_hyps=H, rename=lambda s, tag=tag: s.replace("flowjax.bijections.affine.", "").replace("TriangularAffine", f"TriangularAffine[{tag}]"))
            ctx.oblige(f"C01/TriangularAffine[{tag}]/rt1", to_real(lift(pi.value)) == X0(d_), H + pi.cond, props, fn=f"{Q}.inverse", replay=rp)
        pil = run("inverse_and_log_det", ycomp)
        if pil is not None:
            xb, ldi = pil.value
            ctx.oblige(f"C01/TriangularAffine[{tag}]/same_inv", to_real(lift(xb)) == X0(d_), H + pil.cond, props, fn=f"{Q}.inverse_and_log_det", replay=rp)
            oks = isinstance(ldi, SumT)
            ctx.oblige(f"C02/TriangularAffine[{tag}]/ld_inv_scalar", oks, [], props, kind="struct", fn=f"{Q}.inverse_and_log_det")
            if oks:
                ctx.oblige(f"C02/TriangularAffine[{tag}]/ld_inv", ldi.t == -log(absr(T.f(d_, d_))), H + pil.cond, props, fn=f"{Q}.inverse_and_log_det", replay=rp)
        pi2 = run("inverse", y)
        if pi2 is not None:
            xi = SV(to_real(lift(pi2.value)), elem=True, tags=y.tags)
            pt2 = run("transform", xi)
            if pt2 is not None:
                ctx.oblige(f"C01/TriangularAffine[{tag}]/rt2", z3.simplify(to_real(lift(pt2.value))) == Y0(d_), H + pi2.cond + pt2.cond, props, fn=f"{Q}.transform", replay=rp)


@family("triangular/MultivariateNormal", ["C05", "C11"])
def multivariate_normal(ctx):
    """MultivariateNormal(loc, cov) = StandardNormal pushed through TriangularAffine(loc, cholesky(cov)); the accessors reproduce loc
    and cov.  T3 (jnp.linalg.cholesky): L is lower triangular with a strictly positive diagonal and L @ L.T == cov."""
    it = ctx.new_interp()
    from .wrappers import install as winstall
    from .params11 import env11, defined_and
    winstall(it)
    env11(it)
    la = tri_lib(it)
    props = ["C05", "C11"]
    MQ = "flowjax.distributions.MultivariateNormal"
    COV = z3.Function("covariance", I, I, R)
    LCH = z3.Function("cholesky_factor", I, I, R)
    L0 = z3.Function("loc", I, R)
    cov = MV(dim, dim, lambda r, c: COV(r, c))
    chol_calls = []

    def cholesky(m):
        chol_calls.append(m)
        return MV(dim, dim, lambda r, c: LCH(r, c))

    it.lib.overrides["jax.numpy.linalg.cholesky"] = cholesky
    state = {}

    def isfinite(v):
        if isinstance(v, SV) and z3.simplify(v.e).eq(LCH(d_, d_)):
            return SV(z3.BoolVal(True), True)
        return SV(defined_and(it.side, state.get("start", 0)), True)

    it.lib.overrides["jax.numpy.isfinite"] = isfinite
    it.global_overrides["flowjax.bijections.affine"] = {"arraylike_to_array": lambda a, *r, **k: a}
    products = []

    def matmul(A, B):
        if isinstance(A, MV) and isinstance(B, MV):
            products.append((A, B))
            return ("matrix_product", A, B)
        return la.matvec(A, B)

    MV._matvec = staticmethod(matmul)
    made = {}
    class StdNormal:
        cond_shape = None

        def __init__(self, shape=()):
            self.shape = shape
            made["base"] = ("StandardNormal", shape)

    it.global_overrides["flowjax.distributions"] = {"StandardNormal": StdNormal}
    cls = it.repo_class(MQ)
    loc = vec(lambda i: L0(i))

    def build():
        state["start"] = len(it.side)
        return cls(loc, cov)

    t3 = [z3.Implies(c_ > r_, LCH(r_, c_) == 0), LCH(r_, r_) > 0, LCH(d_, d_) > 0]  # cholesky factor: lower triangular, positive diagonal (instances at the generic indices)
    rng = [dim >= 1, r_ >= 0, r_ < dim, c_ >= 0, c_ < dim, d_ >= 0, d_ < dim]
    paths = it.explore(build)
    ok = [p for p in paths if p.outcome == "return"]
    fq = MQ + ".__init__"
    rp = dict(kind="c05", what="mvn", vars={})
    ctx.oblige("C05/MultivariateNormal.__init__/struct/has_success_path", len(ok) == 1, [], props, kind="struct", fn=fq)
    for n_, p in enumerate(paths):
        if p.outcome == "raise":
            # with a proper Cholesky factor (positive diagonal) the constructor never rejects
            ctx.oblige(f"C11/MultivariateNormal.__init__/post/never_rejects_a_cholesky_factor#{n_}", z3.BoolVal(False), rng + t3 + p.cond, props, fn=fq, replay=rp)
    if len(ok) != 1:
        return
    o, c0 = ok[0].value, ok[0].cond
    ctx.oblige("C05/MultivariateNormal.__init__/struct/cholesky_of_the_given_covariance", len(chol_calls) >= 1 and all(m_ is cov for m_ in chol_calls), [], props, kind="struct", fn=fq)
    base_ok = made.get("base", (None, None))
    ctx.oblige("C05/MultivariateNormal.__init__/struct/standard_normal_base_of_the_bijection_shape", base_ok[0] == "StandardNormal" and base_ok[1] is getattr(o.bijection, "shape", None), [], props, kind="struct", fn=fq)
    pl = it.explore(lambda: o.loc)
    if len(pl) == 1 and pl[0].outcome == "return":
        ctx.oblige("C11/MultivariateNormal.loc/post/reproduces_loc", at(pl[0].value, d_) == L0(d_), rng + c0 + pl[0].cond, props, fn=MQ + ".loc", replay=rp)
    products.clear()
    pc = it.explore(lambda: o.covariance)
    okc = len(pc) == 1 and pc[0].outcome == "return" and isinstance(pc[0].value, tuple) and pc[0].value[0] == "matrix_product"
    ctx.oblige("C11/MultivariateNormal.covariance/struct/is_a_matrix_product", bool(okc), [], props, kind="applicability", fn=MQ + ".covariance")
    if okc:
        _tag, A, B = pc[0].value
        H = rng + t3 + [z3.substitute(h, (d_, r_)) for h in c0 + pc[0].cond] + c0 + pc[0].cond
        ctx.oblige("C11/MultivariateNormal.covariance/post/left_factor_is_the_cholesky_factor", A.f(r_, c_) == LCH(r_, c_), H, props, fn=MQ + ".covariance", replay=rp,
                   rounds=3, extra_terms=[UF["exp"](LCH(r_, r_)), UF["exp"](A.f(r_, r_))], note="then A @ A.T == L @ L.T == covariance (T3 of cholesky)")
        ctx.oblige("C11/MultivariateNormal.covariance/post/right_factor_is_its_transpose", B.f(r_, c_) == A.f(c_, r_), H, props, fn=MQ + ".covariance", replay=rp)
