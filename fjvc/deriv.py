"""Symbolic differentiation of z3 real terms (for B-ldspec: the reported log-det is compared with the
derivative of the term EXTRACTED FROM THE REAL transform BODY).  If(c,a,b) differentiates branch-wise
(JAX's convention for where: derivative of the selected branch)."""
import z3

from .values import UF


def _is_uf(e, name):
    return z3.is_app(e) and e.decl().kind() == z3.Z3_OP_UNINTERPRETED and e.decl().name() == "r_" + name and e.num_args() == 1


def depends(e, x):
    seen, stack = set(), [e]
    while stack:
        t = stack.pop()
        if t.get_id() in seen:
            continue
        seen.add(t.get_id())
        if t.eq(x):
            return True
        if z3.is_app(t):
            stack.extend(t.children())
    return False


def d(e, x):
    zero, one = z3.RealVal(0), z3.RealVal(1)
    if e.eq(x):
        return one
    if not depends(e, x):
        return zero
    k = e.decl().kind()
    ch = e.children()
    if k == z3.Z3_OP_ADD:
        r = zero
        for c in ch:
            r = r + d(c, x)
        return z3.simplify(r) if False else r
    if k == z3.Z3_OP_SUB:
        r = d(ch[0], x)
        for c in ch[1:]:
            r = r - d(c, x)
        return r
    if k == z3.Z3_OP_UMINUS:
        return -d(ch[0], x)
    if k == z3.Z3_OP_MUL:
        r = zero
        for i, c in enumerate(ch):
            if not depends(c, x):
                continue
            t = d(c, x)
            for j, o in enumerate(ch):
                if j != i:
                    t = t * o
            r = r + t
        return r
    if k == z3.Z3_OP_DIV:
        a, b = ch
        if not depends(b, x):
            return d(a, x) / b
        return (d(a, x) * b - a * d(b, x)) / (b * b)
    if k == z3.Z3_OP_ITE:
        return z3.If(ch[0], d(ch[1], x), d(ch[2], x))
    if k == z3.Z3_OP_TO_REAL:
        return zero
    if k == z3.Z3_OP_SELECT:
        # array entry read at an index that is piecewise constant in x (a bin number): derivative 0 almost everywhere,
        # and JAX differentiates gathers w.r.t. the gathered values only
        return zero
    if k == z3.Z3_OP_POWER:
        a, b = ch
        if z3.is_int_value(b) or z3.is_rational_value(b):
            return b * (a ** (b - 1)) * d(a, x)
    if _is_uf(e, "exp"):
        return e * d(ch[0], x)
    if _is_uf(e, "log"):
        return d(ch[0], x) / ch[0]
    if _is_uf(e, "tanh"):
        return (1 - e * e) * d(ch[0], x)
    if _is_uf(e, "arctanh"):
        return d(ch[0], x) / (1 - ch[0] * ch[0])
    if _is_uf(e, "sqrt"):
        return d(ch[0], x) / (2 * e)
    raise NotImplementedError(f"derivative of {e.decl()}")
