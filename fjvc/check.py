"""fjvc.check — `bin/check <Cnn> [--tier quick|thorough] [--replay file]`.

Exit codes: 0 property held on everything explored (KNOWN-FINDING lines allowed);
1 violation (VIOLATION line printed); 2 undecided; 3 checker error.
"""
from __future__ import annotations

import argparse
import hashlib
import json
import os
import subprocess
import sys
import tempfile
import time

import z3

from . import core
from .core import VERIF, REPO

PY = os.path.join(VERIF, ".venv", "bin", "python")


def ensure_venv():
    if not os.path.exists(PY):
        subprocess.run([os.path.join(VERIF, "bin", "setup")], check=True, stdout=subprocess.DEVNULL)


def load_json(path, default):
    try:
        with open(path) as fh:
            return json.load(fh)
    except FileNotFoundError:
        return default


def formula_hash(ob):
    try:
        # structural hashes (printing large shared DAGs can be exponential)
        g = ob.goal.hash() if hasattr(ob.goal, "hash") else hash(str(ob.goal))
        txt = f"{g}|" + "|".join(sorted(str(h.hash()) for h in ob.hyps))
    except Exception:
        txt = repr(ob.goal)
    return hashlib.sha256(txt.encode()).hexdigest()[:16]


def dedupe(obs):
    """Same id generated on several explored paths: keep distinct formulas, suffix them."""
    out, seen, count = [], {}, {}
    for ob in obs:
        h = formula_hash(ob)
        if (ob.oid, h) in seen:
            continue
        seen[(ob.oid, h)] = True
        n = count.get(ob.oid, 0)
        count[ob.oid] = n + 1
        if n:
            ob.oid = f"{ob.oid}~{n}"
        out.append(ob)
    return out


def run_replay(ob, pid, tier):
    """Concretise the counter-model and re-run it on the real code (overlay venv, JAX)."""
    os.makedirs(os.path.join(VERIF, "replays"), exist_ok=True)
    safe = ob.oid.replace("/", "_").replace("#", "-").replace("~", "-")
    path = os.path.join(VERIF, "replays", f"{pid}-{safe}.json")
    rec = dict(property=pid, obligation=ob.oid, kind=ob.kind, function=ob.fn, backend=ob.backend, model=ob.model,
               replay=({k: v for k, v in ob.replay.items() if k not in ("vars", "funcs", "arrays")} if ob.replay else None),
               verifier_output=(ob.solver_output or "")[:4000], note=ob.note, repo=REPO, reproduced=None, observed=None)
    with open(path, "w") as fh:
        json.dump(rec, fh, indent=1, default=str)
    if ob.replay is None or ob.replay.get("kind") is None:
        return path, None, "no concretiser for this obligation"
    ensure_venv()
    try:
        p = subprocess.run([PY, os.path.join(VERIF, "runtime", "replay_real.py"), path], capture_output=True, text=True, timeout=600,
                           env=dict(os.environ, FJVC_REPO=REPO, PYTHONPATH=REPO, JAX_PLATFORMS="cpu"))
        rec = load_json(path, rec)
        if p.returncode not in (0, 1):
            rec["replay_error"] = (p.stderr or "")[-1500:]
            with open(path, "w") as fh:
                json.dump(rec, fh, indent=1, default=str)
            return path, None, "replay harness error"
        return path, rec.get("reproduced"), rec.get("observed")
    except subprocess.TimeoutExpired:
        return path, None, "replay timeout"


def assume_sites(ctxs):
    """mechanical scan of the contract modules of the families that ran: every `.assume(` (callee postconditions, definitional
    extensions of ghost functions, requires-clauses made available to the executor) is listed, none is hidden"""
    import inspect
    import re

    out, seen = [], set()
    for c in ctxs:
        for name, _props, fn in core.FAMILIES:
            if name != c.family:
                continue
            try:
                path = inspect.getsourcefile(fn)
            except TypeError:
                continue
            if path in seen:
                continue
            seen.add(path)
            with open(path) as fh:
                for ln, line in enumerate(fh, 1):
                    if re.search(r"\.assume\(|assume_note\(", line):
                        out.append(f"{os.path.relpath(path, VERIF)}:{ln}: {line.strip()[:160]}")
    return dict(count=len(out), sites=out[:60])


def write_replay_stub(ob, pid):
    os.makedirs(os.path.join(VERIF, "replays"), exist_ok=True)
    safe = ob.oid.replace("/", "_").replace("#", "-").replace("~", "-")
    path = os.path.join(VERIF, "replays", f"{pid}-{safe}.json")
    with open(path, "w") as fh:
        json.dump(dict(property=pid, obligation=ob.oid, kind=ob.kind, function=ob.fn, backend=ob.backend, model=ob.model,
                       verifier_output=(ob.solver_output or "")[:4000], repo=REPO, reproduced=None, observed="not replayed"), fh, indent=1, default=str)
    return path


def bounded_standins(pid, tier, seed):
    """L3: run-time contract checks of the real code on boundary-directed grids (bounded)."""
    script = os.path.join(VERIF, "runtime", "grids.py")
    if not os.path.exists(script):
        return dict(ran=False, reason="no L3 harness")
    ensure_venv()
    out = os.path.join(VERIF, "replays", f".l3-{pid}.json")
    os.makedirs(os.path.dirname(out), exist_ok=True)
    if os.path.exists(out):
        os.remove(out)  # never read a result left by an earlier run
    try:
        p = subprocess.run([PY, script, pid, "--tier", tier, "--seed", str(seed), "--out", out], capture_output=True, text=True, timeout=3000 if tier == "thorough" else 900,
                           env=dict(os.environ, FJVC_REPO=REPO, PYTHONPATH=REPO, JAX_PLATFORMS="cpu"))
    except subprocess.TimeoutExpired:
        return dict(ran=False, reason="L3 timeout")
    res = load_json(out, None)
    if res is None:
        return dict(ran=True, evaluations=0, distinct_nontrivial=0, rule="harness crashed", violations=[], samples=[], harness_errors=["L3 harness crashed: " + (p.stderr or "")[-800:]])
    res["ran"] = True
    return res


def main(argv=None):
    ap = argparse.ArgumentParser()
    ap.add_argument("pid")
    ap.add_argument("--tier", default=os.environ.get("VERIF_TIER", "quick"))
    ap.add_argument("--replay")
    ap.add_argument("--only", action="append")
    ap.add_argument("--update-baseline", action="store_true")
    ap.add_argument("--verbose", "-v", action="store_true")
    ap.add_argument("--no-l3", action="store_true")
    args = ap.parse_args(argv)
    pid, tier = args.pid, args.tier
    seed = int(os.environ.get("VERIF_SEED", "0"))
    t0 = time.time()
    if args.replay:
        ensure_venv()
        p = subprocess.run([PY, os.path.join(VERIF, "runtime", "replay_real.py"), args.replay], env=dict(os.environ, FJVC_REPO=REPO, PYTHONPATH=REPO, JAX_PLATFORMS="cpu"))
        rec = load_json(args.replay, {})
        if rec.get("reproduced"):
            print(f"VIOLATION property={pid} replay={args.replay}")
            return 1
        print(f"replay did not reproduce a violation: {rec.get('observed')}")
        return 0 if p.returncode == 0 else 3

    core.load_contracts()
    timeout_ms = 30000 if tier == "quick" else 120000  # generous: verdicts must not flip when all cores are busy (slowest obligation ~6 s idle)
    obs, fam_errors, ctxs = core.run_families(pid, tier, only=args.only)
    obs = dedupe(obs)
    core.discharge_all(obs, timeout_ms, jobs=int(os.environ.get("FJVC_JOBS", "0")) or None)
    xcheck = None
    if tier == "thorough":
        a_, u_, d_ = core.cross_check(obs)
        xcheck = dict(second_solver_agreed=a_, second_solver_unknown=u_, disagreements=d_)
    for ob in obs:
        if args.verbose:
            print(f"  {ob.status:14s} {ob.ms:8.1f}ms {ob.backend or '':12s} {ob.oid}")

    baseline = load_json(os.path.join(VERIF, "contracts", "baseline.json"), {})
    if args.update_baseline:
        baseline[pid] = sorted(ob.oid for ob in obs)
        with open(os.path.join(VERIF, "contracts", "baseline.json"), "w") as fh:
            json.dump(baseline, fh, indent=1, sort_keys=True)
    # the baseline guards against obligations silently disappearing (vacuous success).  Path indices (#n) and duplicate
    # counters (~n) are artefacts of how many Python-level paths the body has: a harmless restructuring of static control flow
    # renumbers them, so names are compared with those suffixes removed
    import re as _re2

    def _norm(oid):
        return _re2.sub(r"[#~]\d+|\[rank=\d+\]", "", oid)

    expected = set(baseline.get(pid, []))
    got = {ob.oid for ob in obs}
    got_norm = {_norm(o) for o in got}
    # loop-invariant / variant / intermediate-cut obligations are lemmas FOR the postconditions of their function: when the code
    # no longer has that loop (or path) but the function's postconditions are still generated, nothing has been lost
    _aux = _re2.compile(r"/(inv|dec)[^/]*#\d+(/|$)|/cut:|/cases_exhaustive|/lemma/|/control/|/cover")
    # ... and obligations that exist only on some Python-level paths of a function (a special case for dim == 2, a raise
    # branch, ...) come and go with harmless restructurings.  What must never happen silently is that a FUNCTION under contract
    # stops producing obligations at all: the guard is per function head (property/function[configuration])
    def _head(o):
        return "/".join(o.split("/")[:2])

    heads = {_head(o) for o in got}
    missing_all = sorted(o for o in expected - got if _norm(o) not in got_norm)
    missing = [o for o in missing_all if _head(o) not in heads]

    known = load_json(os.path.join(VERIF, "known_findings.json"), {"findings": [], "fixed": []})
    known_by_ob = {}
    for kf in known.get("findings", []):
        if kf.get("property") == pid:
            known_by_ob.setdefault(kf["obligation"], []).append(kf)

    violations, undecided, checker_errors, known_hits = [], [], [], []
    lines = []
    for ob in obs:
        if ob.status in ("discharged", "ok", "guard_unknown"):
            # guard_unknown: a cover/control satisfiability query the solver could not decide (quantifiers);
            # reported in the evidence, it neither passes nor fails anything
            continue
        if ob.status == "refuted":
            if ob.oid in known_by_ob:
                known_hits.append((ob, known_by_ob[ob.oid][0]))
                continue
            violations.append([ob, None, None, None])
        elif ob.status == "unknown":
            undecided.append(ob)
        elif ob.status in ("vacuous", "control_failed"):
            checker_errors.append(ob)
    # replay: at most MAX_REPLAY counter-models are concretised and run on the real code (one JAX process each); the
    # remaining refuted obligations are listed under the same VIOLATION report
    MAX_REPLAY = 3
    violations.sort(key=lambda v: (0 if v[0].kind.startswith("post") or v[0].kind.startswith("inv") else 1, v[0].oid))
    grid_cache = {}
    for v in violations[:MAX_REPLAY]:
        ob = v[0]
        gkey = (ob.replay or {}).get("kind"), (ob.replay or {}).get("cls")
        os.environ["FJVC_REPLAY_SKIP_GRID"] = "1" if gkey in grid_cache and grid_cache[gkey] is False else "0"
        v[1], v[2], v[3] = run_replay(ob, pid, tier)
        if v[2] is False:
            grid_cache[gkey] = False
    for v in violations[MAX_REPLAY:]:
        v[1], v[2], v[3] = write_replay_stub(v[0], pid), None, "not replayed (replay budget of this run used by the first violations)"
    if xcheck and xcheck["disagreements"]:
        for oid in xcheck["disagreements"]:
            checker_errors.append(core.Obligation(oid, [pid], "xcheck", [], None, note="back ends disagree on sat/unsat", status="solver_disagreement"))
    for name, kind, msg in fam_errors:
        # an exception inside a family that produced obligations when the baseline was recorded means the CODE changed into
        # something the contract's model does not cover: undecided (exit 2, L3 decides), not a checker error.  A family that
        # crashes without such a history is a bug of the machinery (exit 3).
        if kind == "error" and not missing:
            checker_errors.append(core.Obligation(f"{pid}/<family {name}>", [pid], "family", [], None, note=msg, status="family_error"))
        else:
            undecided.append(core.Obligation(f"{pid}/<family {name}>", [pid], "family", [], None, note=("the contract's model raised on this tree (family translatable at baseline): " if kind == "error" else "") + msg, status="untranslatable"))
    inapplicable = any(ob.kind == "applicability" and ob.status == "unknown" for ob in obs)
    for oid in missing:
        if not any(u.oid.startswith(f"{pid}/<family") for u in undecided) and not fam_errors and not inapplicable:
            checker_errors.append(core.Obligation(oid, [pid], "missing", [], None, note="obligation listed in contracts/baseline.json was not generated", status="missing"))
        else:
            undecided.append(core.Obligation(oid, [pid], "missing", [], None, note="not generated (family untranslatable on this tree)", status="missing"))

    # L3 bounded stand-ins / conformance (also the fallback for undecided obligations)
    if args.no_l3:
        l3 = dict(ran=False, reason="disabled")
    elif violations and any(v[2] for v in violations):
        l3 = dict(ran=False, reason="skipped: the deductive layer already reported replayed violations")
    else:
        l3 = bounded_standins(pid, tier, seed)
    l3_viol = []
    if l3.get("ran"):
        for v in l3.get("violations", []):
            key = v.get("finding_key")
            if key and any(kf.get("l3_key") == key for kf in known.get("findings", []) if kf.get("property") == pid):
                known_hits.append((None, next(kf for kf in known["findings"] if kf.get("l3_key") == key)))
                continue
            l3_viol.append(v)

    # ---------------- report
    guards_unknown = [ob.oid for ob in obs if ob.status == "guard_unknown"]
    obs_all = obs
    obs = [ob for ob in obs if ob.status != "guard_unknown"]
    n_ob = len(obs)
    n_dis = sum(1 for ob in obs if ob.status in ("discharged", "ok"))
    exit_code = 0
    for ob, kf in known_hits:
        print(f"KNOWN-FINDING: property={pid} {kf.get('what', kf.get('obligation'))}")
    for ob, path, reproduced, observed in violations[:MAX_REPLAY]:
        tail = "" if reproduced else " no-failing-input-found"
        print(f"VIOLATION property={pid} replay={path}{tail}")
        print(f"  obligation {ob.oid} ({ob.kind}) of {ob.fn} failed: {('replayed on the real code: ' + str(observed)[:300]) if reproduced else ('not reproduced: ' + str(observed)[:200])}")
        exit_code = 1
    if len(violations) > MAX_REPLAY:
        print(f"  also failed ({len(violations) - MAX_REPLAY} more obligations, replay files written): " + ", ".join(v[0].oid for v in violations[MAX_REPLAY:MAX_REPLAY + 12]) + (" ..." if len(violations) > MAX_REPLAY + 12 else ""))
    for v in l3_viol:
        print(f"VIOLATION property={pid} replay={v['replay']}")
        print(f"  bounded run-time contract check failed on the real code: {v.get('what', '')[:300]}")
        exit_code = 1
    if exit_code == 0:
        if checker_errors:
            for ob in checker_errors:
                print(f"CHECKER-ERROR obligation={ob.oid} status={ob.status} {ob.note[:300]}")
            exit_code = 3
        elif undecided:
            for ob in undecided[:40]:
                print(f"UNDECIDED obligation={ob.oid} status={ob.status} {(ob.note or ob.solver_output)[:300]}")
            # an undecided obligation is neither a proof nor a violation.  When the bounded stand-in of this property ran on the
            # real code and found nothing, the property held on everything explored: exit 0 (the evidence records
            # discharged < obligations, so the run is NOT a proof-level record).  Without the stand-in: exit 2.
            stood_in = bool(l3.get("ran")) and not l3.get("harness_errors") and int(l3.get("evaluations", 0)) > 0
            if stood_in:
                print(f"UNDECIDED-BUT-HELD property={pid}: {len(undecided)} obligation(s) undecided by the deductive layer; the bounded run-time contract grid ({l3.get('evaluations')} evaluations on the real code) found no violation")
            else:
                exit_code = 2
        if l3.get("ran") is False and l3.get("reason", "").startswith("L3 harness crashed"):
            print("CHECKER-ERROR L3:", l3["reason"][:500])
            exit_code = exit_code or 3
        if l3.get("ran") and l3.get("harness_errors"):
            print("CHECKER-ERROR L3 harness errors (not violations):", str(l3["harness_errors"])[:600])
            exit_code = exit_code or 3

    # ---------------- evidence
    used, executed, dropped, assumptions = set(), {}, set(), set()
    for c in ctxs:
        used |= c.interp.used_lib
        executed.update(c.interp.executed)
        dropped |= c.interp.dropped
        assumptions |= c.assumptions
    backends = {}
    for ob in obs:
        backends[ob.backend or "none"] = backends.get(ob.backend or "none", 0) + 1
    spec = load_json(os.path.join(VERIF, "contracts", "levels.json"), {}).get(pid, {})
    level = spec.get("level", "proof")
    samples = []
    for ob in obs[:3]:
        try:
            samples.append(dict(obligation=ob.oid, kind=ob.kind, status=ob.status, smtlib=core.smt2_text(core._formula(ob)[0])[:1200] if isinstance(ob.goal, z3.ExprRef) else str(ob.goal)))
        except Exception:
            samples.append(dict(obligation=ob.oid, kind=ob.kind, status=ob.status))
    # T1 lemma library (Lean 4 + Mathlib): listed always, re-checked by Lean in the thorough tier
    lem_file = os.path.join(VERIF, "lemmas", "FlowjaxLemmas.lean")
    lemma_names = []
    if os.path.exists(lem_file):
        import re as _re
        lemma_names = _re.findall(r"^theorem\s+(\w+)", open(lem_file).read(), _re.M)
    lemma_lib = dict(file="lemmas/FlowjaxLemmas.lean", theorems=lemma_names, rechecked_this_run=False)
    if tier == "thorough" and lemma_names and os.path.realpath(REPO) == "/repo":
        try:
            lp = subprocess.run([os.path.join(VERIF, "bin", "lemmas")], capture_output=True, text=True, timeout=1500)
            lemma_lib.update(rechecked_this_run=True, accepted=lp.returncode == 0, lean_output=(lp.stdout or "")[-300:])
            if lp.returncode != 0:
                print("CHECKER-ERROR lemma library rejected by Lean:", (lp.stdout or "")[-300:])
                exit_code = exit_code or 3
        except Exception as ex:  # noqa: BLE001
            lemma_lib.update(rechecked_this_run=False, error=str(ex)[:200])
    ev = dict(
        property_id=pid, tier=tier, seed=seed, level=level,
        coverage=dict(
            obligations=n_ob, discharged=n_dis,
            checker_cmd=f"bin/check {pid} --tier {tier}",
            trusted_base=sorted(used),
            functions_under_contract=[dict(name=k, **v) for k, v in sorted(executed.items()) if not k.startswith("<")],
            obligation_list=[dict(id=ob.oid, kind=ob.kind, expect=ob.expect, status=ob.status, backend=ob.backend, ms=round(ob.ms, 2), function=ob.fn) for ob in obs],
            backends=backends, solver_time_s=round(sum(ob.ms for ob in obs) / 1000, 3),
            cover_checks=sum(1 for ob in obs if ob.kind == "cover"), control_checks=sum(1 for ob in obs if ob.kind == "control"),
            untranslatable=[dict(family=n, reason=m[:400]) for n, k, m in fam_errors],
            missing_vs_baseline=missing, renumbered_or_path_dependent_vs_baseline=[o for o in missing_all if o not in missing][:50], guards_undetermined=guards_unknown, cross_check=xcheck, assume_sites=assume_sites(ctxs),
            proved_functions=sorted({ob.fn for ob in obs if ob.fn and ob.status in ("discharged", "ok")} - {ob.fn for ob in obs if ob.fn and ob.status not in ("discharged", "ok", "guard_unknown")}),
            bounded=l3 if l3.get("ran") else dict(ran=False, reason=l3.get("reason")),
            lemma_library=lemma_lib,
            samples=samples,
            known_findings=[kf for _ob, kf in known_hits],
            explanation=spec.get("explanation", "obligations generated from the real /repo ASTs by symbolic execution against sidecar contracts; each is discharged by an SMT solver for all inputs (reals)"),
            evaluations=int(l3.get("evaluations", 0)) if l3.get("ran") else 0,
            distinct_nontrivial=int(l3.get("distinct_nontrivial", 0)) if l3.get("ran") else 0,
            rule=l3.get("rule", "") if l3.get("ran") else "",
        ),
        assumptions=sorted(assumptions | dropped | {
            "machine floats / float arrays are treated as mathematical reals (no rounding, overflow, NaN unless modelled explicitly)",
            "the symbolic executor (fjvc) and the library model entries listed in coverage.trusted_base are trusted; T2 = uninterpreted real functions with ground axiom instances, T3 = assumed contracts of dependencies",
            "T1 mathematical facts used as contract hypotheses (determinant of triangular / permutation matrices, multiplicativity of det, log-sum-exp shift law, softmax normalisation, adjacent => global monotonicity, softplus > 0, matrix-product associativity) are proved in lemmas/FlowjaxLemmas.lean (Lean 4 + Mathlib, re-checked by bin/lemmas in the thorough tier); their instantiation at the contract's terms is by hand",
            "extraction drops: decorators (jit/filter_jit/wraps as identity), type annotations, docstrings, tqdm progress calls, f-string message text",
        }),
        wall_s=round(time.time() - t0, 2),
        violations=len(violations) + len(l3_viol),
    )
    # evidence describes /repo's working tree; a run against a scratch copy (bin/mutcheck, FJVC_REPO) must not overwrite it,
    # and neither does a partial run (--only / --no-l3)
    partial = bool(args.only) or args.no_l3
    ev_dir = os.path.join(VERIF, "evidence") if (os.path.realpath(REPO) == "/repo" and not partial) else os.path.join(tempfile.gettempdir(), "fjvc-scratch-evidence")
    os.makedirs(ev_dir, exist_ok=True)
    with open(os.path.join(ev_dir, f"{pid}.json"), "w") as fh:
        json.dump(ev, fh, indent=1, default=str)
    print(f"{pid} [{tier}] obligations={n_ob} discharged={n_dis} violations={len(violations) + len(l3_viol)} undecided={len(undecided)} checker_errors={len(checker_errors)} "
          f"known={len(known_hits)} l3={'%d evals' % l3.get('evaluations', 0) if l3.get('ran') else 'off'} wall={time.time() - t0:.1f}s exit={exit_code}")
    return exit_code


if __name__ == "__main__":
    sys.exit(main())
