"""fjvc.bta — binding-time analysis of a method body (premises of JAX's tracing guarantee, property C14).

Lattice  static < dynamic.  Dynamic: array-valued parameters (x, y, condition, key, carry ...), fields annotated with an
array / module / callable type, and anything computed from them.  Static: literals, shapes (.shape/.ndim/.size/.dtype,
len()), `is None` tests, isinstance(), fields annotated int/float/bool/str/tuple/None, names bound to static values.
Reported (each is an obligation that must come back empty):
  control    Python control flow (if / while / assert / IfExp / and / or / not / comparison chains used as bool) on a dynamic value
  hostcall   float()/int()/bool()/.item()/.tolist()/math.*/numpy.* (np.*) / range() applied to a dynamic value
  mutation   assignment to self.<attr> / global / nonlocal state inside a method
"""
from __future__ import annotations

import ast

DYN_PARAM_NAMES = {"x", "y", "z", "condition", "key", "keys", "carry", "init", "state", "array", "arr", "params", "samples", "x_i", "condition_i", "contrastive_idxs", "unwrappable"}
STATIC_ATTRS = {"shape", "ndim", "size", "dtype", "cond_shape", "cond_ndim", "__name__"}
STATIC_TYPES = ("int", "float", "bool", "str", "tuple", "None", "Literal", "slice")
DYN_TYPES = ("Array", "ArrayLike", "PRNGKeyArray", "AbstractUnwrappable", "Scalar", "PyTree")
HOST_FUNCS = {"float", "int", "bool", "complex", "range"}
HOST_METHODS = {"item", "tolist", "__bool__", "__index__", "__float__"}
HOST_MODULES = {"math", "np", "numpy"}


def ann_kind(txt):
    if txt is None:
        return None
    if any(t in txt for t in DYN_TYPES):
        return "dynamic"
    if any(t in txt for t in ("AbstractBijection", "AbstractDistribution", "Module", "Callable", "MLP", "Linear", "list", "Sequence", "Iterable", "dict")):
        return "module"
    if any(txt.startswith(t) or f"[{t}" in txt or f"| {t}" in txt or txt == t for t in STATIC_TYPES):
        return "static"
    return None


class Analyzer:
    def __init__(self, fn_node, field_kinds, is_method=True, static_params=()):
        self.fn, self.field_kinds, self.is_method = fn_node, field_kinds, is_method
        self.env = {}
        self.findings = []  # (kind, lineno, text)
        a = fn_node.args
        params = [x for x in a.posonlyargs + a.args + a.kwonlyargs]
        for i, p in enumerate(params):
            if is_method and i == 0 and p.arg == "self":
                self.env[p.arg] = "self"
                continue
            k = ann_kind(ast.unparse(p.annotation)) if p.annotation is not None else None
            if p.arg in static_params:
                k = "static"
            if k is None:
                k = "dynamic" if p.arg in DYN_PARAM_NAMES else "static"
            self.env[p.arg] = "dynamic" if k in ("dynamic", "module") else "static"
        if a.vararg:
            self.env[a.vararg.arg] = "dynamic"
        if a.kwarg:
            self.env[a.kwarg.arg] = "dynamic"

    # ---- expressions -> 'static' | 'dynamic'
    def kind(self, e):
        if e is None or isinstance(e, ast.Constant):
            return "static"
        if isinstance(e, ast.Name):
            v = self.env.get(e.id, "static")
            return "dynamic" if v in ("dynamic", "self") else "static"
        if isinstance(e, ast.Attribute):
            if e.attr in STATIC_ATTRS:
                return "static"
            if isinstance(e.value, ast.Name) and self.env.get(e.value.id) == "self":
                k = self.field_kinds.get(e.attr)
                return "dynamic" if k in ("dynamic", "module", None) and k is not None else ("static" if k == "static" else "dynamic" if k is not None else "static")
            return self.kind(e.value)
        if isinstance(e, ast.Subscript):
            return "dynamic" if "dynamic" in (self.kind(e.value), self.kind(e.slice)) else "static"
        if isinstance(e, ast.Compare):
            if all(isinstance(op, (ast.Is, ast.IsNot)) for op in e.ops):
                return "static"
            ks = [self.kind(e.left)] + [self.kind(c) for c in e.comparators]
            return "dynamic" if "dynamic" in ks else "static"
        if isinstance(e, ast.Call):
            f = e.func
            fname = f.id if isinstance(f, ast.Name) else (f.attr if isinstance(f, ast.Attribute) else None)
            args = list(e.args) + [k.value for k in e.keywords]
            arg_dyn = any([self.kind(a) == "dynamic" for a in args])
            if fname in ("isinstance", "len", "callable", "hasattr", "type", "issubclass"):
                return "static"
            if isinstance(f, ast.Name) and f.id in HOST_FUNCS and arg_dyn:
                self.findings.append(("hostcall", e.lineno, ast.unparse(e)))
            if isinstance(f, ast.Attribute):
                if f.attr in HOST_METHODS and self.kind(f.value) == "dynamic":
                    self.findings.append(("hostcall", e.lineno, ast.unparse(e)))
                root = f
                while isinstance(root, ast.Attribute):
                    root = root.value
                if isinstance(root, ast.Name) and root.id in HOST_MODULES and arg_dyn:
                    self.findings.append(("hostcall", e.lineno, ast.unparse(e)))
                if self.kind(f.value) == "dynamic":
                    return "dynamic"
            for a in args:
                self.kind(a)
            return "dynamic" if arg_dyn or (isinstance(f, ast.Name) and self.env.get(f.id) in ("dynamic",)) else "static"
        if isinstance(e, ast.IfExp):
            self.test(e.test, "IfExp")
            return "dynamic" if "dynamic" in (self.kind(e.body), self.kind(e.orelse)) else "static"
        if isinstance(e, ast.BoolOp):
            ks = [self.kind(v) for v in e.values]
            if "dynamic" in ks[:-1] or ("dynamic" in ks and False):
                for v in e.values[:-1]:
                    if self.kind(v) == "dynamic":
                        self.findings.append(("control", e.lineno, f"`{ast.unparse(e)}`: and/or short-circuits on a traced value"))
                        break
            return "dynamic" if "dynamic" in ks else "static"
        if isinstance(e, ast.UnaryOp):
            k = self.kind(e.operand)
            if isinstance(e.op, ast.Not) and k == "dynamic":
                self.findings.append(("control", e.lineno, f"`{ast.unparse(e)}`: `not` on a traced value"))
            return k
        if isinstance(e, (ast.BinOp,)):
            return "dynamic" if "dynamic" in (self.kind(e.left), self.kind(e.right)) else "static"
        if isinstance(e, (ast.Tuple, ast.List, ast.Set)):
            return "dynamic" if any([self.kind(x) == "dynamic" for x in e.elts]) else "static"
        if isinstance(e, ast.Dict):
            return "dynamic" if any([self.kind(x) == "dynamic" for x in list(e.values)]) else "static"
        if isinstance(e, ast.Starred):
            return self.kind(e.value)
        if isinstance(e, (ast.ListComp, ast.GeneratorExp, ast.SetComp, ast.DictComp)):
            saved = dict(self.env)
            dyn = False
            for g in e.generators:
                k = self.kind(g.iter)
                self.bind_iter(g.target, g.iter)
                for c in g.ifs:
                    self.test(c, "comprehension filter")
                dyn = dyn or k == "dynamic"
            r = self.kind(e.elt if not isinstance(e, ast.DictComp) else e.value)
            self.env = saved
            return "dynamic" if dyn or r == "dynamic" else "static"
        if isinstance(e, ast.Lambda):
            return "static"
        if isinstance(e, ast.JoinedStr):
            return "static"
        if isinstance(e, ast.Slice):
            return "dynamic" if any([self.kind(x) == "dynamic" for x in (e.lower, e.upper, e.step) if x is not None]) else "static"
        return "dynamic"

    def test(self, e, what):
        if self.kind(e) == "dynamic":
            self.findings.append(("control", e.lineno, f"{what} on a traced value: `{ast.unparse(e)}`"))

    def bind_iter(self, target, it):
        """bind loop targets; zip()/enumerate() bind position-wise"""
        if isinstance(it, ast.Call) and isinstance(it.func, ast.Name) and isinstance(target, (ast.Tuple, ast.List)):
            if it.func.id == "zip" and len(it.args) == len(target.elts):
                for t, a in zip(target.elts, it.args):
                    self.bind_iter(t, a) if isinstance(t, (ast.Tuple, ast.List)) else self.bind(t, self.kind(a))
                return
            if it.func.id == "enumerate" and len(target.elts) == 2:
                self.bind(target.elts[0], "static")
                self.bind_iter(target.elts[1], it.args[0]) if isinstance(target.elts[1], (ast.Tuple, ast.List)) else self.bind(target.elts[1], self.kind(it.args[0]))
                return
        if isinstance(it, ast.Call) and isinstance(it.func, ast.Attribute) and it.func.attr == "items" and isinstance(target, (ast.Tuple, ast.List)) and len(target.elts) == 2:
            self.bind(target.elts[0], "static")
            self.bind(target.elts[1], self.kind(it.func.value))
            return
        self.bind(target, self.kind(it))

    def bind(self, t, k):
        if isinstance(t, ast.Name):
            self.env[t.id] = k
        elif isinstance(t, (ast.Tuple, ast.List)):
            for x in t.elts:
                self.bind(x.value if isinstance(x, ast.Starred) else x, k)
        elif isinstance(t, ast.Attribute):
            if isinstance(t.value, ast.Name) and self.env.get(t.value.id) == "self":
                self.findings.append(("mutation", t.lineno, f"assignment to self.{t.attr}"))
        elif isinstance(t, ast.Subscript):
            pass

    # ---- statements
    def run(self):
        self.block(self.fn.body)
        return self.findings

    def block(self, body):
        for st in body:
            self.stmt(st)

    def stmt(self, st):
        if isinstance(st, ast.Assign):
            k = self.kind(st.value)
            for t in st.targets:
                self.bind(t, k)
        elif isinstance(st, ast.AnnAssign):
            if st.value is not None:
                self.bind(st.target, self.kind(st.value))
        elif isinstance(st, ast.AugAssign):
            k = self.kind(st.value)
            cur = self.kind(st.target) if not isinstance(st.target, ast.Attribute) else "static"
            self.bind(st.target, "dynamic" if "dynamic" in (k, cur) else "static")
        elif isinstance(st, ast.Expr):
            self.kind(st.value)
        elif isinstance(st, ast.Return):
            self.kind(st.value)
        elif isinstance(st, ast.If):
            self.test(st.test, "if")
            self.block(st.body)
            self.block(st.orelse)
        elif isinstance(st, ast.While):
            self.test(st.test, "while")
            self.block(st.body)
        elif isinstance(st, ast.Assert):
            self.test(st.test, "assert")
        elif isinstance(st, ast.For):
            # iterating a Python container of modules/arrays is static control flow; the loop variable carries its kind
            self.bind_iter(st.target, st.iter)
            self.block(st.body)
            self.block(st.orelse)
        elif isinstance(st, (ast.Global, ast.Nonlocal)):
            self.findings.append(("mutation", st.lineno, ast.unparse(st)))
        elif isinstance(st, ast.FunctionDef):
            sub = Analyzer(st, self.field_kinds, is_method=False)
            inherited = {k: v for k, v in self.env.items() if k not in sub.env}
            sub.env.update(inherited)
            # parameters of nested functions used as scan/vmap/while bodies carry traced values
            for p in st.args.args:
                if p.annotation is None and sub.env.get(p.arg) == "static" and p.arg not in ("_",):
                    sub.env[p.arg] = "dynamic"
            self.findings += sub.run()
            self.env[st.name] = "static"
        elif isinstance(st, ast.ClassDef):
            pass
        elif isinstance(st, (ast.Raise, ast.Pass, ast.Import, ast.ImportFrom, ast.Break, ast.Continue)):
            pass
        elif isinstance(st, ast.With):
            self.block(st.body)
        elif isinstance(st, ast.Try):
            self.block(st.body)
            for h in st.handlers:
                self.block(h.body)
            self.block(st.orelse)
            self.block(st.finalbody)
        else:
            self.findings.append(("control", getattr(st, "lineno", 0), f"unsupported statement {type(st).__name__}"))
