"""fjvc.interp — symbolic interpreter for the Python AST of the real flowjax sources.

The interpreter executes *the AST re-read from /repo on every run*.  Values are ordinary
Python values or symbolic values (fjvc.values).  Branches on symbolic booleans fork the
path (decision-vector re-execution); loops with symbolic trip count are cut at an
invariant supplied by the contract (LoopSpec).  Library calls resolve into the library
model (fjvc.lib); every library entry used is recorded (measured trusted base).
"""
from __future__ import annotations

import ast
import builtins as _py_builtins
import hashlib
import operator
import os
from dataclasses import dataclass, field as dc_field

import z3

REPO = os.environ.get("FJVC_REPO", "/repo")


# --------------------------------------------------------------------------------------
# control exceptions
class Untranslatable(Exception):
    """AST node / library entry outside the supported subset: obligations undecided."""


class PyRaise(Exception):
    """A `raise` executed by the interpreted program."""

    def __init__(self, exc, msg=None):
        super().__init__(exc)
        self.exc = exc
        self.msg = msg


class Infeasible(Exception):
    pass


class _Return(Exception):
    def __init__(self, value):
        self.value = value


class _Break(Exception):
    pass


class _Continue(Exception):
    pass


# --------------------------------------------------------------------------------------
# source table
class Source:
    """All modules of /repo/flowjax parsed once per run."""

    def __init__(self, root=None):
        self.root = root or REPO
        self.modules = {}  # dotted name -> (path, ast.Module)
        base = os.path.join(self.root, "flowjax")
        for dp, _dn, fns in os.walk(base):
            for fn in fns:
                if not fn.endswith(".py"):
                    continue
                path = os.path.join(dp, fn)
                rel = os.path.relpath(path, self.root)[:-3].replace(os.sep, ".")
                if rel.endswith(".__init__"):
                    rel = rel[: -len(".__init__")]
                with open(path) as fh:
                    src = fh.read()
                self.modules[rel] = (path, ast.parse(src))

    def module(self, name):
        if name not in self.modules:
            raise KeyError(name)
        return self.modules[name]

    @staticmethod
    def node_hash(node):
        return hashlib.sha256(ast.dump(node, include_attributes=False).encode()).hexdigest()


def find_def(tree, name):
    for n in tree.body:
        if isinstance(n, (ast.FunctionDef, ast.ClassDef)) and n.name == name:
            return n
    return None


# --------------------------------------------------------------------------------------
class Env(dict):
    """Lexical environment; lookups walk to the parent (late-binding closures)."""

    def __init__(self, parent=None, **kw):
        super().__init__(**kw)
        self.parent = parent

    def lookup(self, name):
        e = self
        while e is not None:
            if isinstance(e, ModuleEnv):
                return e.resolve(name)
            if name in e:
                return dict.__getitem__(e, name)
            e = e.parent
        raise NameError(name)


class ModuleEnv(Env):
    """Global namespace of one repo module, resolved lazily from its AST."""

    def __init__(self, interp, modname):
        super().__init__(None)
        self.interp = interp
        self.modname = modname
        self.path, self.tree = interp.source.module(modname)
        self._resolving = set()

    def resolve(self, name):
        it = self.interp
        ov = it.global_overrides.get(self.modname)
        if ov is not None and name in ov:
            return ov[name]  # callee contracts are looked up dynamically (never cached)
        if name in self:
            return dict.__getitem__(self, name)
        for n in self.tree.body:
            v = _MISSING
            if isinstance(n, ast.FunctionDef) and n.name == name:
                v = it.make_function(n, self, qual=f"{self.modname}.{name}")
            elif isinstance(n, ast.ClassDef) and n.name == name:
                v = RepoClass(it, n, self, f"{self.modname}.{name}")
            elif isinstance(n, ast.Import):
                for a in n.names:
                    bound = a.asname or a.name.split(".")[0]
                    if bound == name:
                        target = a.name if a.asname else a.name.split(".")[0]
                        v = it.import_module(target)
            elif isinstance(n, ast.ImportFrom):
                for a in n.names:
                    if (a.asname or a.name) == name:
                        v = it.import_from(n.module, a.name, n.level, self.modname)
            elif isinstance(n, ast.Assign):
                for t in n.targets:
                    if isinstance(t, ast.Name) and t.id == name:
                        v = it.eval(n.value, self)
            elif isinstance(n, ast.AnnAssign) and isinstance(n.target, ast.Name) and n.target.id == name and n.value is not None:
                v = it.eval(n.value, self)
            elif isinstance(n, ast.If):
                # `if TYPE_CHECKING:` imports
                for m in n.body:
                    if isinstance(m, ast.ImportFrom):
                        for a in m.names:
                            if (a.asname or a.name) == name:
                                v = it.import_from(m.module, a.name, m.level, self.modname)
            if v is not _MISSING:
                self[name] = v
                return v
        if name in it.builtins:
            return it.builtins[name]
        raise NameError(f"{self.modname}: {name}")


_MISSING = object()


# --------------------------------------------------------------------------------------
class Closure:
    """A function value whose body is a real AST node."""

    def __init__(self, interp, node, env, qual, defaults, kw_defaults):
        self.interp, self.node, self.env, self.qual = interp, node, env, qual
        self.defaults, self.kw_defaults = defaults, kw_defaults
        self.__name__ = getattr(node, "name", "<lambda>")
        self.is_property = False
        self.is_abstract = False

    def __call__(self, *args, **kwargs):
        return self.interp.call_closure(self, list(args), dict(kwargs))

    def bind(self, obj):
        return BoundMethod(self, obj)

    def __repr__(self):
        return f"<Closure {self.qual}>"


class BoundMethod:
    def __init__(self, fn, obj):
        self.fn, self.obj = fn, obj
        self.__name__ = fn.__name__
        self.__self__ = obj

    def __call__(self, *args, **kwargs):
        it = self.fn.interp
        hook = it.method_hook
        if hook is not None:
            r = hook(self, args, kwargs)
            if r is not _MISSING:
                return r
        return self.fn(self.obj, *args, **kwargs)

    def __repr__(self):
        return f"<bound {self.fn.qual}>"


class FieldSpec:
    """Model of eqx.field(...)."""

    def __init__(self, default=_MISSING, default_factory=None, converter=None, init=True, static=False):
        self.default, self.default_factory, self.converter, self.init, self.static = default, default_factory, converter, init, static


class RepoClass:
    """A class defined in /repo, represented by its ClassDef AST."""

    def __init__(self, interp, node, env, qual):
        self.interp, self.node, self.env, self.qual = interp, node, env, qual
        self.__name__ = node.name
        self.bases = []
        for b in node.bases:
            try:
                bv = interp.eval(b, env)
            except (Untranslatable, NameError):
                bv = None
            if isinstance(bv, RepoClass):
                self.bases.append(bv)
        self.members = {}  # name -> Closure | value
        self.fields = []  # declared dataclass fields in order: (name, default | _MISSING)
        self.classvars = set()
        cenv = Env(env)
        for st in node.body:
            if isinstance(st, ast.FunctionDef):
                f = interp.make_function(st, env, qual=f"{qual}.{st.name}", class_level=True)
                self.members[st.name] = f
            elif isinstance(st, ast.AnnAssign) and isinstance(st.target, ast.Name):
                ann = ast.unparse(st.annotation)
                name = st.target.id
                is_cv = ann.startswith("ClassVar")
                if st.value is not None:
                    val = interp.eval(st.value, cenv)
                    if is_cv:
                        self.members[name] = val
                        self.classvars.add(name)
                    else:
                        self.fields.append((name, val))
                        if not isinstance(val, FieldSpec):
                            self.members[name] = val
                else:
                    if is_cv:
                        self.classvars.add(name)
                    else:
                        self.fields.append((name, _MISSING))
                cenv[name] = self.members.get(name)
            elif isinstance(st, ast.Assign):
                val = interp.eval(st.value, cenv)
                for t in st.targets:
                    if isinstance(t, ast.Name):
                        self.members[t.id] = val
                        cenv[t.id] = val
            elif isinstance(st, (ast.Expr, ast.Pass)):
                pass
            else:
                raise Untranslatable(f"class body statement {type(st).__name__} in {qual}")

    # ---- MRO (single inheritance chains in flowjax; simple linearisation)
    def mro(self):
        out = [self]
        for b in self.bases:
            for c in b.mro():
                if c not in out:
                    out.append(c)
        return out

    def lookup(self, name):
        for c in self.mro():
            if name in c.members:
                return c.members[name]
        return _MISSING

    def init_fields(self):
        return [(n, d) for n, d in self.all_fields() if not (isinstance(d, FieldSpec) and not d.init)]

    def all_fields(self):
        seen, out = {}, []
        for c in reversed(self.mro()):
            for name, default in c.fields:
                if name in seen:
                    out[seen[name]] = (name, default)
                else:
                    seen[name] = len(out)
                    out.append((name, default))
        # a ClassVar in a subclass overrides an abstract field of a base
        cvs = set()
        for c in self.mro():
            cvs |= c.classvars
        # properties implementing abstract vars
        return [(n, d) for n, d in out if n not in cvs and not self._is_property(n)]

    def _is_property(self, name):
        m = self.lookup(name)
        return isinstance(m, Closure) and m.is_property

    def issubclass_of(self, other):
        return other in self.mro()

    @property
    def __dict__(self):  # noqa: PLW3201 - models cls.__dict__ (names defined in the class body)
        return self.members

    def __getitem__(self, item):  # Generic[T] subscription: Cls[T] is Cls for our purposes
        return self

    def __call__(self, *args, **kwargs):
        return self.interp.instantiate(self, list(args), dict(kwargs))

    def __repr__(self):
        return f"<RepoClass {self.qual}>"


class Obj:
    """Instance of a RepoClass: record of (possibly symbolic) fields."""

    def __init__(self, cls, **fields):
        object.__setattr__(self, "_cls", cls)
        object.__setattr__(self, "_fields", dict(fields))
        object.__setattr__(self, "_frozen", False)

    def __getattr__(self, name):
        f = object.__getattribute__(self, "_fields")
        if name in f:
            return f[name]
        cls = object.__getattribute__(self, "_cls")
        m = cls.lookup(name)
        if m is _MISSING:
            raise AttributeError(f"{cls.qual} object has no attribute {name}")
        if isinstance(m, Closure):
            if m.is_property:
                return m(self)
            return m.bind(self)
        return m

    def __setattr__(self, name, value):
        if object.__getattribute__(self, "_frozen"):
            cls = object.__getattribute__(self, "_cls")
            raise PyRaise("FrozenInstanceError", f"cannot assign to field {name} of {cls.qual}")
        object.__getattribute__(self, "_fields")[name] = value

    def __call__(self, *a, **k):
        cls = object.__getattribute__(self, "_cls")
        m = cls.lookup("__call__")
        if m is _MISSING:
            raise Untranslatable(f"{cls.qual} not callable")
        return m(self, *a, **k)

    def __repr__(self):
        return f"<Obj {object.__getattribute__(self, '_cls').qual}>"


def obj_class(o):
    return object.__getattribute__(o, "_cls")


def obj_fields(o):
    return object.__getattribute__(o, "_fields")


# --------------------------------------------------------------------------------------
@dataclass
class LoopSpec:
    """Contract of one cut loop.

    inv(k, env_or_state) -> z3 Bool           inductive invariant at iteration k
    havoc(k, env_or_state) -> new env/state   fresh symbolic values for what the loop modifies
    variant(k, state) -> (z3 arith, z3 bound) optional: decreases and bounded below
    """

    inv: object
    havoc: object
    variant: object = None
    name: str = "inv"
    break_inv: object = None  # for-loops: state established by a `break` at iteration k
    after_body: object = None  # ghost updates / definitional assumptions after the body ran once


@dataclass
class Emitted:
    oid: str
    kind: str
    hyps: list
    goal: object
    meta: dict = dc_field(default_factory=dict)


@dataclass
class PathResult:
    decisions: list
    cond: list
    outcome: str  # 'return' | 'raise'
    value: object
    obligations: list
    side: list  # side conditions: (kind, guard list snapshot, z3 cond that must hold, note)


class Interp:
    def __init__(self, source=None, lib=None):
        from . import lib as _lib

        self.source = source or Source()
        self.lib = lib or _lib.Library(self)
        self.module_envs = {}
        self.global_overrides = {}  # modname -> {name: value}: contracts of callees (modular verification)
        self.method_hook = None
        self.loop_specs = {}  # (qualname, ordinal str) -> LoopSpec
        self.used_lib = set()
        self.executed = {}  # qualname -> (path, lineno, end_lineno, hash)
        self.dropped = set()
        self.builtins = self._make_builtins()
        # per-path state
        self.decisions, self.pos, self.cond, self.pending = [], 0, [], []
        self.emitted, self.side = [], []
        self.fresh_counter = 0
        self.call_stack = []
        self.loop_counters = {}
        self.feas_timeout_ms = 300
        self.entail_timeout_ms = 300
        self.ctx_simplify = False
        from . import values

        values.set_current(self)

    # ------------------------------------------------------------------ modules
    def module_env(self, modname):
        if modname not in self.module_envs:
            self.module_envs[modname] = ModuleEnv(self, modname)
        return self.module_envs[modname]

    def import_module(self, dotted):
        if dotted == "flowjax" or dotted.startswith("flowjax."):
            return RepoModule(self, dotted)
        return self.lib.module(dotted)

    def import_from(self, module, name, level, current):
        if level:
            base = current.split(".")
            is_pkg = current in self.source.modules and self.source.modules[current][0].endswith("__init__.py")
            drop = level - 1 if is_pkg else level
            base = base[: len(base) - drop]
            module = ".".join(base + ([module] if module else []))
        if module == "flowjax" or module.startswith("flowjax."):
            full = f"{module}.{name}"
            if full in self.source.modules:
                return RepoModule(self, full)
            if module in self.source.modules:
                return self.module_env(module).resolve(name)
            raise Untranslatable(f"import {module}.{name}")
        return self.lib.resolve(f"{module}.{name}")

    def repo_function(self, qual):
        mod, name = qual.rsplit(".", 1)
        return self.module_env(mod).resolve(name)

    def repo_class(self, qual):
        return self.repo_function(qual)

    # ------------------------------------------------------------------ fresh symbols
    def fresh(self, prefix, sort="real"):
        self.fresh_counter += 1
        n = f"{prefix}!{self.fresh_counter}"
        return {"real": z3.Real, "int": z3.Int, "bool": z3.Bool}[sort](n)

    # ------------------------------------------------------------------ paths
    def reset_path(self, decisions):
        self.decisions, self.pos, self.cond = list(decisions), 0, []
        self.emitted, self.side = [], []
        self.fresh_counter = 0
        self.call_stack = []
        self.loop_counters = {}

    def feasible(self, extra):
        """Over-approximate path feasibility (quantified facts are dropped: dropping constraints can only keep
        more paths, whose obligations then have unsatisfiable hypotheses and are discharged trivially)."""
        s = z3.Solver()
        s.set("timeout", self.feas_timeout_ms)
        for c in self.cond:
            if not _has_quantifier(c):
                s.add(c)
        s.add(extra)
        return s.check() != z3.unsat

    def decide(self, cond):
        """Branch on a symbolic boolean (z3 BoolRef)."""
        cond = z3.simplify(cond)
        if z3.is_true(cond):
            return True
        if z3.is_false(cond):
            return False
        i = self.pos
        if i < len(self.decisions):
            d = self.decisions[i]
        else:
            can_t, can_f = self.feasible(cond), self.feasible(z3.Not(cond))
            if can_t and can_f:
                d = True
                self.pending.append(self.decisions[:i] + [False])
            elif can_t:
                d = True
            elif can_f:
                d = False
            else:
                raise Infeasible()
            self.decisions.append(d)
        self.pos += 1
        self.cond.append(cond if d else z3.Not(cond))
        return d

    def assume(self, cond):
        self.cond.append(cond)

    def entails(self, cond, timeout_ms=None):
        """path condition |= cond ?  (quantified facts dropped; `unknown` counts as no).  Used for context-aware
        simplification of where/clip/index terms: every simplification is justified by a solver-checked entailment."""
        s = z3.Solver()
        s.set("timeout", timeout_ms or self.entail_timeout_ms)
        for c in self.cond:
            if not _has_quantifier(c):
                s.add(c)
        s.add(z3.Not(cond))
        return s.check() == z3.unsat

    def known_value(self, term):
        """an equation `term == t` asserted verbatim in the path condition -> t"""
        for c in self.cond:
            if z3.is_eq(c) and c.arg(0).eq(term):
                return c.arg(1)
        return None

    def emit(self, oid, kind, goal, extra_hyps=(), **meta):
        self.emitted.append(Emitted(oid, kind, list(self.cond) + list(extra_hyps), goal, meta))

    def side_condition(self, kind, cond, note=""):
        self.side.append((kind, list(self.cond), cond, note, self.current_qual()))

    def current_qual(self):
        return self.call_stack[-1] if self.call_stack else "<top>"

    def explore(self, thunk, max_paths=256):
        """Run thunk() along every feasible path; returns list[PathResult]."""
        results = []
        self.pending = [[]]
        while self.pending:
            dec = self.pending.pop()
            self.reset_path(dec)
            try:
                v = thunk()
                out = ("return", v)
            except PyRaise as e:
                out = ("raise", e)
            except Infeasible:
                continue
            results.append(PathResult(list(self.decisions), list(self.cond), out[0], out[1], list(self.emitted), list(self.side)))
            if len(results) > max_paths:
                raise Untranslatable(f"more than {max_paths} paths")
        return results

    # ------------------------------------------------------------------ functions
    def make_function(self, node, env, qual, class_level=False):
        a = node.args
        defaults = [self.eval(d, env) for d in a.defaults]
        kw_defaults = [None if d is None else self.eval(d, env) for d in a.kw_defaults]
        f = Closure(self, node, env, qual, defaults, kw_defaults)
        for dec in getattr(node, "decorator_list", []):
            txt = ast.unparse(dec)
            if txt == "property":
                f.is_property = True
            elif txt in ("abstractmethod", "abc.abstractmethod"):
                f.is_abstract = True
            elif txt in ("staticmethod",):
                raise Untranslatable("staticmethod")
            else:
                d = self.eval(dec, env)
                g = d(f)
                if g is not f:
                    if isinstance(g, Closure):
                        g.__name__ = f.__name__
                    if class_level:
                        # decorated method: keep as plain callable member wrapper
                        f = _wrap_callable(self, g, f)
                    else:
                        return g
        return f

    def bind_args(self, fn, args, kwargs):
        a = fn.node.args
        env = Env(fn.env)
        pos = [x.arg for x in getattr(a, "posonlyargs", [])] + [x.arg for x in a.args]
        nd = len(fn.defaults)
        args = list(args)
        for i, name in enumerate(pos):
            if i < len(args):
                if name in kwargs:
                    raise PyRaise("TypeError", f"multiple values for {name}")
                env[name] = args[i]
            elif name in kwargs:
                env[name] = kwargs.pop(name)
            else:
                j = i - (len(pos) - nd)
                if j < 0:
                    raise PyRaise("TypeError", f"{fn.qual} missing argument {name}")
                env[name] = fn.defaults[j]
        extra = args[len(pos):]
        if a.vararg:
            env[a.vararg.arg] = tuple(extra)
        elif extra:
            raise PyRaise("TypeError", f"{fn.qual} takes {len(pos)} positional arguments")
        for x, d in zip(a.kwonlyargs, fn.kw_defaults):
            if x.arg in kwargs:
                env[x.arg] = kwargs.pop(x.arg)
            elif d is not None or _has_kwdefault(fn.node, x.arg):
                env[x.arg] = d
            else:
                raise PyRaise("TypeError", f"{fn.qual} missing keyword-only argument {x.arg}")
        if a.kwarg:
            env[a.kwarg.arg] = dict(kwargs)
        elif kwargs:
            raise PyRaise("TypeError", f"{fn.qual} got unexpected keyword {list(kwargs)}")
        return env

    def call_closure(self, fn, args, kwargs):
        env = self.bind_args(fn, args, kwargs)
        node = fn.node
        self.note_executed(fn)
        if isinstance(node, ast.Lambda):
            return self.eval(node.body, env)
        self.call_stack.append(fn.qual)
        is_gen = _is_generator(node)
        if is_gen:
            # a generator function is run eagerly and its yielded values are returned as a list: the same sequence of
            # values for pure bodies (laziness is not observable without side effects)
            env["$yielded"] = []
        try:
            self.exec_block(node.body, env)
        except _Return as r:
            return env["$yielded"] if is_gen else r.value
        finally:
            self.call_stack.pop()
        return env["$yielded"] if is_gen else None

    def e_Yield(self, e, env):
        env.lookup("$yielded").append(self.eval(e.value, env) if e.value is not None else None)
        return None

    def e_YieldFrom(self, e, env):
        env.lookup("$yielded").extend(list(self.iterate(self.eval(e.value, env))))
        return None

    def note_executed(self, fn):
        node = fn.node
        if fn.qual in self.executed:
            return
        env = fn.env
        while env is not None and not isinstance(env, ModuleEnv):
            env = env.parent
        path = env.path if env is not None else "?"
        self.executed[fn.qual] = dict(file=os.path.relpath(path, self.source.root) if path != "?" else "?", line=node.lineno, end_line=getattr(node, "end_lineno", node.lineno), sha256=Source.node_hash(node))

    def instantiate(self, cls, args, kwargs):
        obj = Obj(cls)
        init = cls.lookup("__init__")
        if init is not _MISSING:
            init(obj, *args, **kwargs)
        else:
            fields = cls.init_fields()
            names = [n for n, _ in fields]
            vals = {}
            for i, a in enumerate(args):
                if i >= len(names):
                    raise PyRaise("TypeError", f"{cls.qual}() too many arguments")
                vals[names[i]] = a
            for k, v in kwargs.items():
                if k not in names:
                    raise PyRaise("TypeError", f"{cls.qual}() unexpected argument {k}")
                vals[k] = v
            for n, d in fields:
                conv = None
                if isinstance(d, FieldSpec):
                    conv = d.converter
                    if n not in vals:
                        if d.default_factory is not None:
                            vals[n] = d.default_factory()
                        elif d.default is not _MISSING:
                            vals[n] = d.default
                elif n not in vals and d is not _MISSING:
                    vals[n] = d
                if n not in vals:
                    raise PyRaise("TypeError", f"{cls.qual}() missing argument {n}")
                setattr(obj, n, conv(vals[n]) if conv is not None else vals[n])
        for c in reversed(cls.mro()):
            ci = c.members.get("__check_init__")
            if ci is not None:
                ci(obj)
        object.__setattr__(obj, "_frozen", True)
        hook = self.lib.post_init_hook
        if hook is not None:
            hook(obj)
        return obj

    # ------------------------------------------------------------------ statements
    def exec_block(self, body, env):
        for st in body:
            self.exec_stmt(st, env)

    def exec_stmt(self, st, env):
        m = getattr(self, "s_" + type(st).__name__, None)
        if m is None:
            raise Untranslatable(f"statement {type(st).__name__} at line {st.lineno}")
        return m(st, env)

    def s_Expr(self, st, env):
        if isinstance(st.value, ast.Constant):
            return
        self.eval(st.value, env)

    def s_Pass(self, st, env):
        pass

    def s_Return(self, st, env):
        raise _Return(None if st.value is None else self.eval(st.value, env))

    def s_Break(self, st, env):
        raise _Break()

    def s_Continue(self, st, env):
        raise _Continue()

    def s_Assign(self, st, env):
        v = self.eval(st.value, env)
        for t in st.targets:
            self.assign(t, v, env)

    def s_AnnAssign(self, st, env):
        if st.value is not None:
            self.assign(st.target, self.eval(st.value, env), env)

    def s_AugAssign(self, st, env):
        cur = self.eval(_load(st.target), env)
        v = self.binop(st.op, cur, self.eval(st.value, env))
        self.assign(st.target, v, env)

    def assign(self, t, v, env):
        if isinstance(t, ast.Name):
            env[t.id] = v
        elif isinstance(t, (ast.Tuple, ast.List)):
            vals = list(self.iterate(v))
            star = [i for i, e in enumerate(t.elts) if isinstance(e, ast.Starred)]
            if star:
                i = star[0]
                after = len(t.elts) - i - 1
                if len(vals) < len(t.elts) - 1:
                    raise PyRaise("ValueError", "not enough values to unpack")
                for e, x in zip(t.elts[:i], vals[:i]):
                    self.assign(e, x, env)
                self.assign(t.elts[i].value, list(vals[i: len(vals) - after]), env)
                for e, x in zip(t.elts[i + 1:], vals[len(vals) - after:]):
                    self.assign(e, x, env)
            else:
                if len(vals) != len(t.elts):
                    raise PyRaise("ValueError", f"unpack: expected {len(t.elts)} values, got {len(vals)}")
                for e, x in zip(t.elts, vals):
                    self.assign(e, x, env)
        elif isinstance(t, ast.Attribute):
            setattr(self.eval(t.value, env), t.attr, v)
        elif isinstance(t, ast.Subscript):
            o = self.eval(t.value, env)
            o[self.eval_index(t.slice, env)] = v
        else:
            raise Untranslatable(f"assignment target {type(t).__name__}")

    def s_If(self, st, env):
        if self.truth(self.eval(st.test, env)):
            self.exec_block(st.body, env)
        else:
            self.exec_block(st.orelse, env)

    def s_Assert(self, st, env):
        if not self.truth(self.eval(st.test, env)):
            raise PyRaise("AssertionError")

    def s_Raise(self, st, env):
        if st.exc is None:
            raise PyRaise("reraise")
        e = st.exc
        name = ast.unparse(e.func) if isinstance(e, ast.Call) else ast.unparse(e)
        raise PyRaise(name)

    _EXC_PARENTS = {"IndexError": "LookupError", "KeyError": "LookupError", "LookupError": "Exception", "ValueError": "Exception", "TypeError": "Exception",
                    "ZeroDivisionError": "ArithmeticError", "OverflowError": "ArithmeticError", "ArithmeticError": "Exception", "NotImplementedError": "RuntimeError",
                    "RuntimeError": "Exception", "AttributeError": "Exception", "AssertionError": "Exception", "StopIteration": "Exception", "Exception": "BaseException"}

    def _exc_matches(self, raised, handler_type):
        """does `except <handler_type>` catch an exception whose class is NAMED `raised`?  (names only: the interpreted program's
        exceptions are recorded by class name; unknown library exception classes match by their last dotted component)"""
        if handler_type is None:
            return True
        names = [ast.unparse(t).split(".")[-1] for t in (handler_type.elts if isinstance(handler_type, ast.Tuple) else [handler_type])]
        r = raised.split(".")[-1].split("(")[0]
        seen = set()
        while r and r not in seen:
            if r in names:
                return True
            seen.add(r)
            r = self._EXC_PARENTS.get(r, "Exception" if r not in ("BaseException", "Exception") else ("BaseException" if r == "Exception" else None))
        return False

    def s_Try(self, st, env):
        """try / except / else / finally over the interpreted program's own exceptions (PyRaise); the interpreter's control signals
        (_Return, path forking, Untranslatable) pass through untouched"""
        try:
            try:
                self.exec_block(st.body, env)
            except PyRaise as ex:
                if ex.exc == "reraise":
                    raise
                for h in st.handlers:
                    if self._exc_matches(ex.exc, h.type):
                        if h.name:
                            env[h.name] = ex
                        try:
                            self.exec_block(h.body, env)
                        except PyRaise as ex2:
                            if ex2.exc == "reraise":
                                raise ex
                            raise
                        break
                else:
                    raise
            else:
                self.exec_block(st.orelse, env)
        finally:
            if st.finalbody:
                self.exec_block(st.finalbody, env)

    def s_FunctionDef(self, st, env):
        env[st.name] = self.make_function(st, env, qual=f"{self.current_qual()}.<locals>.{st.name}")

    def s_ClassDef(self, st, env):
        env[st.name] = self.lib.local_class(self, st, env)

    def s_Import(self, st, env):
        for a in st.names:
            bound = a.asname or a.name.split(".")[0]
            env[bound] = self.import_module(a.name if a.asname else a.name.split(".")[0])

    def s_ImportFrom(self, st, env):
        for a in st.names:
            env[a.asname or a.name] = self.import_from(st.module, a.name, st.level, self.current_qual())

    def _loop_key(self, kind):
        q = self.current_qual()
        k = self.loop_counters.get((q, kind), 0)
        self.loop_counters[(q, kind)] = k + 1
        return (q, f"{kind}#{k}")

    def s_For(self, st, env):
        it = self.eval(st.iter, env)
        key = self._loop_key("for")
        from .values import SymSeq

        if isinstance(it, SymSeq) and not it.is_concrete():
            return self.cut_for(st, env, it, key)
        for v in self.iterate(it):
            self.assign(st.target, v, env)
            try:
                self.exec_block(st.body, env)
            except _Break:
                break
            except _Continue:
                continue
        else:
            self.exec_block(st.orelse, env)

    def cut_for(self, st, env, seq, key):
        """for-loop over a symbolic-length sequence, cut at the contract's invariant.

        establish inv(0); havoc what the loop modifies; assume inv(k) and 0 <= k < n; run the real body once;
        re-establish inv(k+1)  (a `break` must establish break_inv(k) instead);
        continue after the loop from a havoc'd exit state with  (k == n and inv(n))  or  (break_inv(k), k < n)."""
        spec = self.loop_specs.get(key)
        if spec is None:
            raise Untranslatable(f"loop {key} over a symbolic-length sequence has no invariant in the contract")
        fn, tag = key
        ordn = tag.split("#")[1]
        n = seq.length
        entry = dict(env)
        self.emit(f"{fn}/{spec.name}#{ordn}/init", "inv/init", spec.inv(z3.IntVal(0), env, entry))
        k = self.fresh("k", "int")
        saved = len(self.cond)
        henv = spec.havoc(k, env)
        # soundness guard: every name the loop body (re)binds must have been havoc'd by the contract
        for name in sorted(_assigned_names(st.body)):
            if name in env and name in henv and henv[name] is env[name] and not isinstance(env[name], (int, float, str, bool, type(None))):
                raise Untranslatable(f"loop {key}: the contract's havoc does not cover `{name}`, which the loop body assigns")
        self.assume(z3.And(k >= 0, k < n))
        self.assume(spec.inv(k, henv, entry))
        self.assign(st.target, seq.at(k), henv)
        broke = False
        try:
            self.exec_block(st.body, henv)
        except _Break:
            broke = True
        except _Continue:
            pass
        if spec.after_body is not None:
            spec.after_body(k, henv, entry, broke)
        if broke:
            if spec.break_inv is None:
                raise Untranslatable(f"break in cut loop {key} without a break contract")
            self.emit(f"{fn}/{spec.name}#{ordn}/break", "inv/break", spec.break_inv(k, henv, entry))
        else:
            self.emit(f"{fn}/{spec.name}#{ordn}/step", "inv/step", spec.inv(k + 1, henv, entry))
        del self.cond[saved:]
        kx = self.fresh("kexit", "int")
        xenv = spec.havoc(kx, env)
        by_break = False
        if spec.break_inv is not None:
            by_break = self.decide(self.fresh("exit_by_break", "bool"))
        if by_break:
            self.assume(z3.And(kx >= 0, kx < n))
            self.assume(spec.break_inv(kx, xenv, entry))
        else:
            self.assume(kx == n)
            self.assume(kx >= 0)
            self.assume(spec.inv(kx, xenv, entry))
        for name in list(xenv.keys()):
            env[name] = xenv[name]
        env["__exit_k"] = kx
        env["__exit_by_break"] = by_break

    def s_While(self, st, env):
        key = self._loop_key("while")
        spec = self.loop_specs.get(key)
        if spec is None:
            # concrete unrolling (bounded by decide()/truth on concrete values)
            guard = 0
            while self.truth(self.eval(st.test, env)):
                guard += 1
                if guard > 64:
                    raise Untranslatable(f"while loop {key} unrolled more than 64 times without an invariant")
                try:
                    self.exec_block(st.body, env)
                except _Break:
                    break
                except _Continue:
                    continue
            return
        fn, tag = key
        self.emit(f"{fn}/{spec.name}{tag[5:]}/init", "inv/init", spec.inv(z3.IntVal(0), env))
        k = self.fresh("k", "int")
        saved = len(self.cond)
        henv = spec.havoc(k, env)
        self.assume(k >= 0)
        self.assume(spec.inv(k, henv))
        if self.truth(self.eval(st.test, henv)):
            before = spec.variant(k, henv) if spec.variant else None
            self.exec_block(st.body, henv)
            self.emit(f"{fn}/{spec.name}{tag[5:]}/step", "inv/step", spec.inv(k + 1, henv))
            if before is not None:
                after = spec.variant(k + 1, henv)
                self.emit(f"{fn}/dec{tag[5:]}", "dec", z3.And(after[0] < before[0], before[0] >= before[1]))
        del self.cond[saved:]
        kx = self.fresh("kexit", "int")
        xenv = spec.havoc(kx, env)
        self.assume(kx >= 0)
        self.assume(spec.inv(kx, xenv))
        for name in list(xenv.keys()):
            env[name] = xenv[name]
        if self.truth(self.eval(st.test, env)):
            raise Infeasible()

    # ------------------------------------------------------------------ expressions
    def eval(self, e, env):
        m = getattr(self, "e_" + type(e).__name__, None)
        if m is None:
            raise Untranslatable(f"expression {type(e).__name__} at line {getattr(e, 'lineno', '?')}")
        return m(e, env)

    def e_Constant(self, e, env):
        return e.value

    def e_Name(self, e, env):
        try:
            return env.lookup(e.id)
        except NameError:
            if e.id in self.builtins:
                return self.builtins[e.id]
            raise

    def e_Tuple(self, e, env):
        from .values import SymTuple

        if any(isinstance(x, ast.Starred) for x in e.elts):
            parts, symbolic = [], False
            for x in e.elts:
                if isinstance(x, ast.Starred):
                    v = self.eval(x.value, env)
                    if isinstance(v, SymTuple):
                        symbolic = True
                        parts.append(v)
                    else:
                        parts.append(tuple(self.iterate(v)))
                else:
                    parts.append((self.eval(x, env),))
            if symbolic:
                acc = SymTuple.of(())
                for p in parts:
                    acc = acc + p
                return acc
            return tuple(v for p in parts for v in p)
        return tuple(self._elts(e.elts, env))

    def e_List(self, e, env):
        return list(self._elts(e.elts, env))

    def e_Set(self, e, env):
        return set(self._elts(e.elts, env))

    def _elts(self, elts, env):
        out = []
        for x in elts:
            if isinstance(x, ast.Starred):
                v = self.eval(x.value, env)
                if hasattr(v, "as_star_args"):  # *seq of SYMBOLIC length: handed over as ONE StarArgs marker (only models accept it)
                    out.append(v.as_star_args())
                else:
                    out.extend(self.iterate(v))
            else:
                out.append(self.eval(x, env))
        return out

    def e_Dict(self, e, env):
        d = {}
        for k, v in zip(e.keys, e.values):
            if k is None:
                d.update(self.eval(v, env))
            else:
                d[self.eval(k, env)] = self.eval(v, env)
        return d

    def e_JoinedStr(self, e, env):
        return "<fstring>"

    def e_Attribute(self, e, env):
        o = self.eval(e.value, env)
        return self.getattr(o, e.attr)

    def getattr(self, o, name):
        h = self.lib.getattr_hook(o, name)
        if h is not _MISSING:
            return h
        try:
            return getattr(o, name)
        except AttributeError as ex:
            raise Untranslatable(f"attribute {name} of {type(o).__name__}: {ex}") from None

    def e_Subscript(self, e, env):
        o = self.eval(e.value, env)
        idx = self.eval_index(e.slice, env)
        h = self.lib.getitem_hook(o, idx)
        if h is not _MISSING:
            return h
        return o[idx]

    def eval_index(self, s, env):
        if isinstance(s, ast.Slice):
            return slice(*(None if x is None else self.eval(x, env) for x in (s.lower, s.upper, s.step)))
        if isinstance(s, ast.Tuple):
            return tuple(self.eval_index(x, env) for x in s.elts)
        return self.eval(s, env)

    def e_Slice(self, e, env):
        return self.eval_index(e, env)

    _BIN = {ast.Add: operator.add, ast.Sub: operator.sub, ast.Mult: operator.mul, ast.Div: operator.truediv, ast.FloorDiv: operator.floordiv,
            ast.Mod: operator.mod, ast.Pow: operator.pow, ast.MatMult: operator.matmul, ast.BitAnd: operator.and_, ast.BitOr: operator.or_,
            ast.BitXor: operator.xor, ast.LShift: operator.lshift, ast.RShift: operator.rshift}

    def binop(self, op, a, b):
        h = self.lib.binop_hook(type(op), a, b)
        if h is not _MISSING:
            return h
        return self._BIN[type(op)](a, b)

    def e_BinOp(self, e, env):
        return self.binop(e.op, self.eval(e.left, env), self.eval(e.right, env))

    def e_UnaryOp(self, e, env):
        v = self.eval(e.operand, env)
        if isinstance(e.op, ast.Not):
            from .values import SV

            if isinstance(v, SV):
                return v.logical_not()
            return not self.truth(v)
        if isinstance(e.op, ast.USub):
            return -v
        if isinstance(e.op, ast.UAdd):
            return +v
        if isinstance(e.op, ast.Invert):
            return ~v
        raise Untranslatable("unary op")

    def e_BoolOp(self, e, env):
        is_and = isinstance(e.op, ast.And)
        v = None
        for x in e.values:
            v = self.eval(x, env)
            t = self.truth(v)
            if is_and and not t:
                return v
            if not is_and and t:
                return v
        return v

    _CMP = {ast.Eq: operator.eq, ast.NotEq: operator.ne, ast.Lt: operator.lt, ast.LtE: operator.le, ast.Gt: operator.gt, ast.GtE: operator.ge}

    def e_Compare(self, e, env):
        left = self.eval(e.left, env)
        result = None
        for op, rn in zip(e.ops, e.comparators):
            right = self.eval(rn, env)
            r = self.compare(op, left, right)
            if len(e.ops) == 1:
                return r
            if not self.truth(r):
                return False
            result = r
            left = right
        return result

    def compare(self, op, a, b):
        if isinstance(op, ast.Is):
            return a is b
        if isinstance(op, ast.IsNot):
            return a is not b
        if isinstance(op, ast.In):
            return self.contains(b, a)
        if isinstance(op, ast.NotIn):
            return not self.contains(b, a)
        h = self.lib.compare_hook(type(op), a, b)
        if h is not _MISSING:
            return h
        return self._CMP[type(op)](a, b)

    def contains(self, container, x):
        if isinstance(container, (dict, set, frozenset, str)):
            return x in container
        for y in self.iterate(container):
            if y is x or self.truth(y == x):
                return True
        return False

    def e_IfExp(self, e, env):
        return self.eval(e.body, env) if self.truth(self.eval(e.test, env)) else self.eval(e.orelse, env)

    def e_Lambda(self, e, env):
        return self.make_function(e, env, qual=f"{self.current_qual()}.<lambda@{e.lineno}>")

    def e_Call(self, e, env):
        f = self.eval(e.func, env)
        args = self._elts(e.args, env)
        kwargs = {}
        for k in e.keywords:
            if k.arg is None:
                kwargs.update(self.eval(k.value, env))
            else:
                kwargs[k.arg] = self.eval(k.value, env)
        return self.apply(f, args, kwargs)

    def apply(self, f, args, kwargs):
        if not callable(f):
            raise PyRaise("TypeError", f"{f!r} is not callable")
        try:
            return f(*args, **kwargs)
        except (TypeError, ValueError, IndexError, KeyError, ZeroDivisionError) as ex:
            # a builtin / library function applied to plain concrete Python values (no symbolic operand) behaves here exactly as in
            # the real run: its exception IS the program's behaviour (e.g. prod(None), (1, 2) - (1,), 1 / 0), not a model gap
            if not isinstance(f, (Closure, BoundMethod)) and _all_concrete(list(args) + list(kwargs.values())):
                raise PyRaise(type(ex).__name__, str(ex)[:200])
            raise

    def _comp(self, gens, env, emit):
        if not gens:
            emit(env)
            return
        g = gens[0]
        from .values import SymSeq

        it = self.eval(g.iter, env)
        if isinstance(it, SymSeq) and not it.is_concrete():
            raise _SymComp(it, g)
        for v in self.iterate(it):
            e2 = Env(env)
            self.assign(g.target, v, e2)
            if all(self.truth(self.eval(c, e2)) for c in g.ifs):
                self._comp(gens[1:], e2, emit)

    def e_ListComp(self, e, env):
        out = []
        try:
            self._comp(e.generators, env, lambda e2: out.append(self.eval(e.elt, e2)))
        except _SymComp as sc:
            return self._sym_comp(e, env, sc)
        return out

    def e_GeneratorExp(self, e, env):
        try:
            return self.e_ListComp(e, env)
        except _SymComp as sc:
            return self._sym_comp(e, env, sc)

    def _sym_comp(self, e, env, sc):
        """[f(v) for v in S] over a symbolic-length sequence: pointwise-defined sequence."""
        if len(e.generators) != 1 or e.generators[0].ifs:
            raise Untranslatable("comprehension over symbolic sequence with filters / nesting")
        g = e.generators[0]
        seq = sc.seq

        def at(k):
            e2 = Env(env)
            self.assign(g.target, seq.at(k), e2)
            return self.eval(e.elt, e2)

        return seq.map(at)

    def e_SetComp(self, e, env):
        return set(self.e_ListComp(e, env))

    def e_DictComp(self, e, env):
        out = {}

        def emit(e2):
            out[self.eval(e.key, e2)] = self.eval(e.value, e2)

        self._comp(e.generators, env, emit)
        return out

    def e_Starred(self, e, env):
        raise Untranslatable("starred outside call/display")

    # ------------------------------------------------------------------ helpers
    def truth(self, v):
        from .values import SV

        if isinstance(v, SV):
            return v.truth()
        if isinstance(v, z3.BoolRef):
            return self.decide(v)
        h = self.lib.truth_hook(v)
        if h is not _MISSING:
            return h
        if hasattr(v, "sym_len") and not hasattr(v, "__len__"):
            return self.truth(v.sym_len() > 0)  # truthiness of a container of symbolic length
        return bool(v)

    def iterate(self, v):
        h = self.lib.iter_hook(v)
        if h is not _MISSING:
            return h
        return iter(v)

    # ------------------------------------------------------------------ builtins
    def _make_builtins(self):
        it = self
        from . import values as V

        def b_len(x):
            if hasattr(x, "sym_len"):
                return x.sym_len()
            return len(x)

        def b_isinstance(x, c):
            if isinstance(c, tuple):
                return any(b_isinstance(x, ci) for ci in c)
            if isinstance(c, RepoClass):
                if hasattr(x, "sym_isinstance"):
                    return x.sym_isinstance(c)
                return isinstance(x, Obj) and obj_class(x).issubclass_of(c)
            if hasattr(c, "sym_instancecheck"):
                return c.sym_instancecheck(x)
            if c in builtin_types:
                c = builtin_types[c]
            if isinstance(c, type):
                if c in (int, float, bool) and isinstance(x, V.SV):
                    return False
                return isinstance(x, c)
            raise Untranslatable(f"isinstance against {c!r}")

        def b_range(*a):
            if any(isinstance(x, V.SV) for x in a):
                if len(a) == 1:
                    r = V.SymSeq(a[0], lambda k: V.SV(k) if not isinstance(k, V.SV) else k, elem="int")
                    r.as_range = V.SymRange(a[0])
                    return r
                raise Untranslatable("symbolic range with start/step")
            return range(*a)

        def b_zip(*seqs, strict=False):
            if any(isinstance(s, V.SymSeq) and not s.is_concrete() for s in seqs):
                return V.SymSeq.zip(it, seqs, strict)
            lists = [list(it.iterate(s)) for s in seqs]
            if strict and len({len(x) for x in lists}) > 1:
                raise PyRaise("ValueError", "zip() arguments have different lengths")
            return list(zip(*lists))

        def b_reversed(s):
            if isinstance(s, V.SymSeq) and not s.is_concrete():
                return s.reversed()
            return list(reversed(list(it.iterate(s))))

        def b_enumerate(s, start=0):
            if isinstance(s, V.SymSeq) and not s.is_concrete():
                return s.enumerate()
            return list(enumerate(list(it.iterate(s)), start))

        def b_tuple(s=()):
            if isinstance(s, V.SymSeq) and not s.is_concrete():
                return s
            if hasattr(s, "as_tuple"):
                return s.as_tuple()
            return tuple(it.iterate(s))

        def b_list(s=()):
            if isinstance(s, V.SymSeq) and not s.is_concrete():
                return s
            if isinstance(s, V.SymTuple):
                return V.SymIntList(s.s)
            return list(it.iterate(s))

        def b_all(s):
            if isinstance(s, V.SymSeq) and not s.is_concrete():
                return s.forall()
            for x in it.iterate(s):
                if not it.truth(x):
                    return False
            return True

        def b_any(s):
            if isinstance(s, V.SymSeq) and not s.is_concrete():
                return s.exists()
            for x in it.iterate(s):
                if it.truth(x):
                    return True
            return False

        def b_sum(s, start=0):
            if isinstance(s, V.SymList) or (isinstance(s, V.SymSeq) and not s.is_concrete()):
                return s.sum(start)
            tot = start
            for x in it.iterate(s):
                tot = tot + x
            return tot

        def b_min(*a, **k):
            if len(a) == 1:
                if hasattr(a[0], "sym_min"):
                    return a[0].sym_min()
                a = list(it.iterate(a[0]))
                if not a:
                    raise PyRaise("ValueError", "min() of empty sequence")
            best = a[0]
            for x in a[1:]:
                if it.truth(x < best):
                    best = x
            return best

        def b_max(*a, **k):
            if len(a) == 1:
                a = list(it.iterate(a[0]))
            best = a[0]
            for x in a[1:]:
                if it.truth(x > best):
                    best = x
            return best

        def b_float(x=0.0):
            if isinstance(x, V.SV):
                return x.to_real()
            return float(x)

        def b_int(x=0):
            if isinstance(x, V.SV):
                if x.is_int():
                    return x
                raise Untranslatable("int() of symbolic real")
            return int(x)

        def b_bool(x=False):
            return it.truth(x)

        def b_round(x, nd=None):
            if isinstance(x, V.SV):
                return V.sym_round(x)
            return round(x) if nd is None else round(x, nd)

        def b_abs(x):
            return abs(x)

        def b_callable(x):
            return callable(x)

        def b_type(x):
            if isinstance(x, Obj):
                return obj_class(x)
            return type(x)

        def b_hasattr(o, n):
            try:
                it.getattr(o, n)
                return True
            except (Untranslatable, AttributeError):
                return False

        def b_getattr(o, n, *d):
            try:
                return it.getattr(o, n)
            except (Untranslatable, AttributeError):
                if d:
                    return d[0]
                raise

        def b_setattr(o, n, v):
            setattr(o, n, v)

        def b_print(*a, **k):
            return None

        def b_divmod(a, b_):
            # Python semantics: floor division and the matching remainder (z3's integer div/mod agree for a positive divisor;
            # the symbolic values are kept as SV so that // and % go through the same operators as in source code)
            return (a // b_, a % b_)

        def b_sorted(s, key=None, reverse=False):
            if isinstance(s, (list, tuple)) and all(isinstance(x, (int, float, str)) for x in s):
                return sorted(s, key=key, reverse=reverse)
            raise Untranslatable("sorted() of symbolic values")

        def b_map(f, *seqs):
            return [it.apply(f, list(a), {}) for a in zip(*[list(it.iterate(q)) for q in seqs])]

        def b_filter(f, seq):
            return [x for x in it.iterate(seq) if it.truth(it.apply(f, [x], {}) if f is not None else x)]

        def b_pow(a, b_, *m):
            return a ** b_

        builtin_types = {b_tuple: tuple, b_list: list, b_int: int, b_float: float, b_bool: bool}
        b = dict(len=b_len, isinstance=b_isinstance, range=b_range, zip=b_zip, reversed=b_reversed, enumerate=b_enumerate, tuple=b_tuple,
                 list=b_list, all=b_all, any=b_any, sum=b_sum, min=b_min, max=b_max, float=b_float, int=b_int, bool=b_bool, round=b_round,
                 abs=b_abs, callable=b_callable, type=b_type, hasattr=b_hasattr, getattr=b_getattr, setattr=b_setattr, print=b_print,
                 str=str, dict=dict, set=set, divmod=b_divmod, sorted=b_sorted, map=b_map, filter=b_filter, pow=b_pow, frozenset=frozenset, slice=slice, object=object, repr=repr, id=id,
                 ValueError="ValueError", TypeError="TypeError", NotImplementedError="NotImplementedError", AssertionError="AssertionError",
                 RuntimeError="RuntimeError", KeyError="KeyError", IndexError="IndexError", Exception="Exception",
                 True_=True, None_=None, NotImplemented=NotImplemented, Ellipsis=Ellipsis)
        return b


def _all_concrete(vals, depth=0):
    """only plain Python data (no symbolic / model objects)"""
    for v in vals:
        if v is None or isinstance(v, (bool, int, float, str, bytes, slice)):
            continue
        if isinstance(v, (tuple, list, frozenset, set)) and depth < 4:
            if not _all_concrete(list(v), depth + 1):
                return False
            continue
        if isinstance(v, dict) and depth < 4:
            if not _all_concrete(list(v.keys()) + list(v.values()), depth + 1):
                return False
            continue
        return False
    return True


def _is_generator(node):
    """does the function body (not nested functions / lambdas) contain yield?"""
    stack = list(node.body)
    while stack:
        n = stack.pop()
        if isinstance(n, (ast.Yield, ast.YieldFrom)):
            return True
        if isinstance(n, (ast.FunctionDef, ast.AsyncFunctionDef, ast.Lambda, ast.ClassDef)):
            continue
        stack.extend(ast.iter_child_nodes(n))
    return False


def _assigned_names(body):
    out = set()

    def tgt(t):
        if isinstance(t, ast.Name):
            out.add(t.id)
        elif isinstance(t, (ast.Tuple, ast.List)):
            for x in t.elts:
                tgt(x.value if isinstance(x, ast.Starred) else x)

    for node in body:
        for sub in ast.walk(node):
            if isinstance(sub, ast.Assign):
                for t in sub.targets:
                    tgt(t)
            elif isinstance(sub, (ast.AugAssign, ast.AnnAssign)):
                tgt(sub.target)
            elif isinstance(sub, ast.For):
                tgt(sub.target)
    return out


def _has_quantifier(e, _cache={}):
    i = e.get_id()
    if i in _cache:
        return _cache[i]
    seen, stack, r = set(), [e], False
    while stack:
        x = stack.pop()
        if x.get_id() in seen:
            continue
        seen.add(x.get_id())
        if z3.is_quantifier(x):
            r = True
            break
        if z3.is_app(x):
            stack.extend(x.children())
    if len(_cache) > 20000:
        _cache.clear()
    _cache[i] = r
    return r


class _SymComp(Exception):
    def __init__(self, seq, gen):
        self.seq, self.gen = seq, gen


def _has_kwdefault(node, name):
    a = node.args
    for x, d in zip(a.kwonlyargs, a.kw_defaults):
        if x.arg == name:
            return d is not None
    return False


def _load(t):
    import copy

    t2 = copy.copy(t)
    t2.ctx = ast.Load()
    return t2


def _wrap_callable(interp, g, orig):
    """A decorated method: g is the decorated callable, keep Closure-like interface."""
    c = Closure(interp, orig.node, orig.env, orig.qual, orig.defaults, orig.kw_defaults)
    c.decorated = g
    c.__name__ = orig.__name__

    def call(*a, **k):
        return g(*a, **k)

    c.__call__ = call  # not used by Python's type slot, kept for clarity
    return _DecoratedClosure(c, g)


class _DecoratedClosure(Closure):
    def __init__(self, c, g):
        self.__dict__.update(c.__dict__)
        self.g = g

    def __call__(self, *args, **kwargs):
        return self.g(*args, **kwargs)


class RepoModule:
    """`import flowjax.x as m` / `from flowjax import wrappers`."""

    def __init__(self, interp, dotted):
        self._interp, self._dotted = interp, dotted

    def __getattr__(self, name):
        it, d = self._interp, self._dotted
        full = f"{d}.{name}"
        if full in it.source.modules:
            return RepoModule(it, full)
        if d in it.source.modules:
            try:
                return it.module_env(d).resolve(name)
            except NameError:
                pass
        raise AttributeError(full)
