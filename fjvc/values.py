"""fjvc.values — symbolic value domain.

SV       a symbolic scalar (z3 real / int / bool).  With elem=True it stands for the element
         at ONE generic index of a tensor of arbitrary shape ("generic-element" tensors): an
         elementwise proof over an SV(elem) is a proof for every shape.
SumT     the reduction  Σ_i summand(i)  of a generic-element tensor (compared by congruence).
SymSeq   a Python sequence of symbolic length (length: z3 Int, at(k): element).
Transcendental functions are uninterpreted z3 functions (T2); fjvc.axioms instantiates their
ground axioms per obligation.
"""
from __future__ import annotations

import z3

_CUR = None


def set_current(interp):
    global _CUR
    _CUR = interp


def cur():
    return _CUR


R, I, B = z3.RealSort(), z3.IntSort(), z3.BoolSort()

# ---- T2 uninterpreted real functions
UF = {name: z3.Function("r_" + name, R, R) for name in ("exp", "log", "tanh", "arctanh", "sqrt")}  # r_ prefix: cvc5 reserves exp/sqrt


def lift(v):
    """Python number / SV -> z3 arith expr."""
    if isinstance(v, SV):
        return v.e
    if isinstance(v, bool):
        return z3.BoolVal(v)
    if isinstance(v, int):
        return z3.IntVal(v)
    if isinstance(v, float):
        if v != v or v in (float("inf"), float("-inf")):
            raise ValueError("non-finite constant has no real value")
        return z3.RealVal(repr(v)) if v == v else None
    if isinstance(v, z3.ExprRef):
        return v
    raise TypeError(f"cannot lift {type(v).__name__}")


def to_real(e):
    return z3.ToReal(e) if e.sort() == I else e


def _coerce(a, b):
    if a.sort() == b.sort():
        return a, b
    if a.sort() == I and b.sort() == R:
        return z3.ToReal(a), b
    if a.sort() == R and b.sort() == I:
        return a, z3.ToReal(b)
    if a.sort() == B and b.sort() != B:
        return z3.If(a, z3.IntVal(1), z3.IntVal(0)) if b.sort() == I else z3.If(a, z3.RealVal(1), z3.RealVal(0)), b
    if b.sort() == B and a.sort() != B:
        return a, (z3.If(b, z3.IntVal(1), z3.IntVal(0)) if a.sort() == I else z3.If(b, z3.RealVal(1), z3.RealVal(0)))
    raise TypeError((a.sort(), b.sort()))


class DType:
    """dtype class (integer / bool / inexact); the width is not modelled"""

    def __init__(self, kind):
        self.kind = kind

    def __eq__(self, o):
        return isinstance(o, DType) and o.kind == self.kind

    def __hash__(self):
        return hash(self.kind)

    def __repr__(self):
        return f"dtype({self.kind})"


class SV:
    """Symbolic scalar / generic tensor element."""

    def __iter__(self):
        from .interp import Untranslatable

        raise Untranslatable("iteration over a symbolic SV outside a cut loop (Python would fall back to the unbounded __getitem__ protocol)")

    __slots__ = ("e", "elem", "tags")
    __array_priority__ = 1000

    def __init__(self, e, elem=False, tags=None):
        if isinstance(e, SV):
            e, elem = e.e, elem or e.elem
        elif not isinstance(e, z3.ExprRef):
            e = lift(e)
        self.e, self.elem, self.tags = e, elem, tags

    # -- construction helpers
    def _mk(self, e, other=None):
        tags = self.tags if self.tags is not None else (other.tags if isinstance(other, SV) else None)
        return SV(e, self.elem or (isinstance(other, SV) and other.elem), tags)

    def is_int(self):
        return self.e.sort() == I

    @property
    def dtype(self):
        """JAX dtype class of the value: the z3 sort carries it (Int = integer array, Bool = bool array, Real = inexact array)"""
        return DType("int" if self.e.sort() == I else "bool" if self.e.sort() == B else "float")

    def is_bool(self):
        return self.e.sort() == B

    def to_real(self):
        return self._mk(to_real(self.e))

    # -- arithmetic
    def _bin(self, o, f, rev=False):
        if isinstance(o, SumT):
            return NotImplemented
        try:
            b = lift(o)
        except TypeError:
            return NotImplemented
        a, b = _coerce(self.e, b)
        if a.sort() == B:
            a, b = (z3.If(a, z3.IntVal(1), z3.IntVal(0)), z3.If(b, z3.IntVal(1), z3.IntVal(0)))
        return self._mk(f(b, a) if rev else f(a, b), o)

    def __add__(self, o):
        return self._bin(o, lambda a, b: a + b)

    def __radd__(self, o):
        return self._bin(o, lambda a, b: a + b, True)

    def __sub__(self, o):
        return self._bin(o, lambda a, b: a - b)

    def __rsub__(self, o):
        return self._bin(o, lambda a, b: a - b, True)

    def __mul__(self, o):
        return self._bin(o, lambda a, b: a * b)

    def __rmul__(self, o):
        return self._bin(o, lambda a, b: a * b, True)

    def _div(self, a, b):
        a, b = to_real(a), to_real(b)
        if cur() is not None:
            cur().side_condition("div", b != 0, "denominator")
        return a / b

    def __truediv__(self, o):
        return self._bin(o, self._div)

    def __rtruediv__(self, o):
        return self._bin(o, self._div, True)

    def __floordiv__(self, o):
        def f(a, b):
            if a.sort() == I and b.sort() == I:
                # Python floor division; z3 `/` on ints is Euclidean (floor for positive divisor)
                if cur() is not None:
                    cur().side_condition("floordiv", b > 0, "floor division needs a positive divisor in this encoding")
                return a / b
            raise TypeError("floor division of reals")

        return self._bin(o, f)

    def __mod__(self, o):
        def f(a, b):
            if a.sort() == I and b.sort() == I:
                if cur() is not None:
                    cur().side_condition("mod", b > 0, "modulo needs a positive divisor in this encoding")
                return a % b
            raise TypeError("mod of reals")

        return self._bin(o, f)

    def __pow__(self, o):
        if isinstance(o, int) and o >= 0:
            r = SV(1) if o == 0 else self
            for _ in range(o - 1):
                r = r * self
            return r
        if isinstance(o, int) and o < 0:
            return 1 / (self ** (-o))
        raise TypeError("symbolic exponent")

    def __neg__(self):
        return self._mk(-self.e)

    def __pos__(self):
        return self

    def __abs__(self):
        return self._mk(z3.If(self.e >= 0, self.e, -self.e))

    # -- comparisons -> SV bool
    def _cmp(self, o, f):
        try:
            b = lift(o)
        except TypeError:
            return NotImplemented
        a, b = _coerce(self.e, b)
        return self._mk(f(a, b), o)

    def __lt__(self, o):
        return self._cmp(o, lambda a, b: a < b)

    def __le__(self, o):
        return self._cmp(o, lambda a, b: a <= b)

    def __gt__(self, o):
        return self._cmp(o, lambda a, b: a > b)

    def __ge__(self, o):
        return self._cmp(o, lambda a, b: a >= b)

    def __eq__(self, o):
        if o is None:
            return False
        return self._cmp(o, lambda a, b: a == b)

    def __ne__(self, o):
        if o is None:
            return True
        return self._cmp(o, lambda a, b: a != b)

    def __hash__(self):
        return hash(self.e)

    # -- booleans
    def __and__(self, o):
        return self._mk(z3.And(self.e, lift(o)), o)

    __rand__ = __and__

    def __or__(self, o):
        return self._mk(z3.Or(self.e, lift(o)), o)

    __ror__ = __or__

    def __invert__(self):
        if self.is_bool():
            return self._mk(z3.Not(self.e))
        raise TypeError("~ on non-bool")

    def logical_not(self):
        if self.is_bool():
            return self._mk(z3.Not(self.e))
        return self._mk(self.e == 0)

    def truth(self):
        e = self.e
        if not self.is_bool():
            e = e != 0
        return cur().decide(e)

    def __bool__(self):
        return self.truth()

    def __index__(self):
        s = z3.simplify(self.e)
        if z3.is_int_value(s):
            return s.as_long()
        raise TypeError("symbolic int used as a concrete index")

    # -- tensor-ish API on generic elements / scalars
    def sum(self, axis=None, **kw):
        if self.elem:
            return SumT(to_real(self.e))
        return self

    def mean(self, *a, **k):
        from .interp import Untranslatable

        raise Untranslatable("mean of a generic-element tensor")

    def item(self):
        return self

    @property
    def shape(self):
        from .interp import Untranslatable

        if self.elem:
            if isinstance(self.tags, dict) and "shape" in self.tags:
                return self.tags["shape"]
            raise Untranslatable("shape of a generic-element tensor (contract must supply it)")
        return ()

    @property
    def ndim(self):
        return 0 if not self.elem else None

    def astype(self, *a, **k):
        return self

    def __repr__(self):
        return f"SV({self.e}{', elem' if self.elem else ''})"


def sv(x, elem=False):
    return x if isinstance(x, SV) and (x.elem or not elem) else SV(x, elem)


def ite(c, a, b):
    c = lift(c)
    a, b = _coerce(lift(a), lift(b))
    return z3.If(c, a, b)


class SumT:
    """Σ over the (symbolic) index set of a generic-element tensor."""

    def __iter__(self):
        from .interp import Untranslatable

        raise Untranslatable("iteration over a symbolic SumT outside a cut loop (Python would fall back to the unbounded __getitem__ protocol)")

    __slots__ = ("t",)

    def __init__(self, t):
        self.t = t

    def __neg__(self):
        return SumT(-self.t)

    def __add__(self, o):
        if isinstance(o, SumT):
            return SumT(self.t + o.t)
        if isinstance(o, (int, float)) and o == 0:
            return self
        return NotImplemented

    __radd__ = __add__

    def __sub__(self, o):
        if isinstance(o, SumT):
            return SumT(self.t - o.t)
        if isinstance(o, (int, float)) and o == 0:
            return self
        return NotImplemented

    def __mul__(self, o):
        if isinstance(o, (int, float)):
            return SumT(self.t * lift(float(o)))
        if isinstance(o, SV) and not o.elem:
            return SumT(self.t * to_real(o.e))
        return NotImplemented

    __rmul__ = __mul__

    def sum(self, *a, **k):
        return self

    @property
    def shape(self):
        return ()

    def __repr__(self):
        return f"SumT({self.t})"


def sym_round(x):
    """Python round(): round-half-even of a real -> int (exact encoding)."""
    e = to_real(x.e)
    f = z3.ToInt(e)  # floor
    frac = e - z3.ToReal(f)
    half = z3.RealVal("1/2")
    r = z3.If(frac < half, f, z3.If(frac > half, f + 1, z3.If(f % 2 == 0, f, f + 1)))
    return SV(r)


# --------------------------------------------------------------------------------------
class SymSeq:
    """Python sequence with symbolic length.  at(k) gives the element at z3 Int index k."""

    def __init__(self, length, at, elem="obj", concrete=None):
        self.length = lift(length) if not isinstance(length, z3.ExprRef) else length
        self._at = at
        self.elem = elem
        self.concrete = concrete

    def is_concrete(self):
        return self.concrete is not None

    def at(self, k):
        return self._at(k)

    def sym_len(self):
        return SV(self.length)

    def map(self, f):
        return SymSeq(self.length, lambda k: f(k), elem="obj")

    def reversed(self):
        n = self.length
        return SymSeq(n, lambda k: self._at(n - 1 - k), self.elem)

    def enumerate(self):
        return SymSeq(self.length, lambda k: (SV(k), self._at(k)), "tuple")

    @staticmethod
    def zip(it, seqs, strict):
        first = None
        for s in seqs:
            if isinstance(s, SymSeq):
                first = s
                break
        n = first.length
        for s in seqs:
            if isinstance(s, SymSeq):
                if s is not first:
                    if strict:
                        if not it.truth(SV(s.length == n)):
                            from .interp import PyRaise

                            raise PyRaise("ValueError", "zip() arguments have different lengths")
                    else:
                        from .interp import Untranslatable

                        raise Untranslatable("non-strict zip of symbolic sequences")
            else:
                from .interp import Untranslatable

                raise Untranslatable("zip of symbolic and concrete sequences")
        return SymSeq(n, lambda k: tuple(s.at(k) for s in seqs), "tuple")

    def __getitem__(self, i):
        if isinstance(i, slice):
            from .interp import Untranslatable

            raise Untranslatable("slice of a symbolic sequence")
        if getattr(self, "as_range", None) is not None:
            return self.as_range[i]
        if isinstance(i, int) and i < 0:
            return self._at(self.length + i)
        return self._at(lift(i))

    def forall(self):
        k = z3.Int("q!b")
        body = self._at(k)
        return SV(z3.ForAll([k], z3.Implies(z3.And(k >= 0, k < self.length), lift(body))))

    def exists(self):
        k = z3.Int("q!b")
        body = self._at(k)
        return SV(z3.Exists([k], z3.And(k >= 0, k < self.length, lift(body))))

    def sum(self, start=0):
        from .interp import Untranslatable

        raise Untranslatable("sum over a symbolic sequence needs a contract-level fold")

    def __iter__(self):
        from .interp import Untranslatable

        raise Untranslatable("iteration over a symbolic-length sequence outside a cut loop")


# --------------------------------------------------------------------------------------
class SymList:
    """A Python list of reals with symbolic length: (len: Int, arr: Array Int -> Real).  Mutable (append)."""

    def __iter__(self):
        from .interp import Untranslatable

        raise Untranslatable("iteration over a symbolic SymList outside a cut loop (Python would fall back to the unbounded __getitem__ protocol)")

    def __init__(self, n=None, arr=None, name="lst"):
        self.n = z3.IntVal(0) if n is None else n
        self.arr = z3.K(I, z3.RealVal(0)) if arr is None else arr
        self.name = name

    @staticmethod
    def of(v):
        if isinstance(v, SymList):
            return v
        if isinstance(v, list):
            s = SymList()
            for x in v:
                s.append(x)
            return s
        raise TypeError(type(v))

    def append(self, v):
        self.arr = z3.Store(self.arr, self.n, to_real(lift(v)))
        self.n = self.n + 1

    def sym_len(self):
        return SV(self.n)

    def _norm(self, b, default):
        """Python slice-bound normalisation for a list of length n (step 1)."""
        if b is None:
            return default
        e = lift(b)
        e = z3.If(e < 0, e + self.n, e)
        return z3.If(e < 0, z3.IntVal(0), z3.If(e > self.n, self.n, e))

    def __getitem__(self, i):
        if isinstance(i, slice):
            if i.step not in (None, 1):
                from .interp import Untranslatable

                raise Untranslatable("extended slice of a symbolic list")
            lo, hi = self._norm(i.start, z3.IntVal(0)), self._norm(i.stop, self.n)
            q = z3.Int("q!b")
            return SymList(z3.If(hi > lo, hi - lo, z3.IntVal(0)), z3.Lambda([q], z3.Select(self.arr, q + lo)))
        e = lift(i)
        if (isinstance(i, int) and i < 0):
            e = self.n + i
        elif isinstance(i, SV):
            e = z3.If(e < 0, e + self.n, e)
        if cur() is not None:
            cur().side_condition("index", z3.And(e >= 0, e < self.n), "list index")
        return SV(z3.Select(self.arr, e))

    def sym_min(self):
        """Python min(list): contract  result is an element and <= every element (ValueError if empty)."""
        it = cur()
        if not it.truth(SV(self.n > 0)):
            from .interp import PyRaise

            raise PyRaise("ValueError", "min() of empty sequence")
        v, j, q = it.fresh("min", "real"), it.fresh("jmin", "int"), z3.Int("q!b")
        it.assume(z3.And(j >= 0, j < self.n, v == z3.Select(self.arr, j),
                         z3.ForAll([q], z3.Implies(z3.And(q >= 0, q < self.n), v <= z3.Select(self.arr, q)))))
        return SV(v)

    def sum(self, start=0):
        it = cur()
        return SV(it.fresh("listsum", "real"))

    def argmin(self):
        """jnp.argmin contract (T3): the FIRST index of the minimum."""
        it = cur()
        j, q = it.fresh("argmin", "int"), z3.Int("q!b")
        it.side_condition("argmin_nonempty", self.n > 0, "argmin of an empty array")
        it.assume(z3.And(j >= 0, j < self.n,
                         z3.ForAll([q], z3.Implies(z3.And(q >= 0, q < self.n), z3.Select(self.arr, j) <= z3.Select(self.arr, q))),
                         z3.ForAll([q], z3.Implies(z3.And(q >= 0, q < j), z3.Select(self.arr, q) > z3.Select(self.arr, j)))))
        return SV(j)


class Opaque:
    """An opaque object of a dependency (optimizer, opt_state, static pytree ...): no property is assumed."""

    def __iter__(self):
        from .interp import Untranslatable

        raise Untranslatable("iteration over a symbolic Opaque outside a cut loop (Python would fall back to the unbounded __getitem__ protocol)")

    def __init__(self, name):
        object.__setattr__(self, "_name", name)

    def __getattr__(self, a):
        if a.startswith("__"):
            raise AttributeError(a)
        return Opaque(f"{object.__getattribute__(self, '_name')}.{a}")

    def __call__(self, *a, **k):
        return Opaque(f"{object.__getattribute__(self, '_name')}()")

    def __repr__(self):
        return f"<opaque {object.__getattribute__(self, '_name')}>"


# --------------------------------------------------------------------------------------
class SArr:
    """1-D array of reals with symbolic length n (z3 Array Int -> Real).  Integer indexing follows JAX exactly:
    negative indices wrap, out-of-range indices are clamped; every access also records the side condition
    0 <= i < n (NumPy/JAX wrap or clamp silently, which is never what a contract wants)."""

    def __iter__(self):
        from .interp import Untranslatable

        raise Untranslatable("iteration over a symbolic SArr outside a cut loop (Python would fall back to the unbounded __getitem__ protocol)")

    def __init__(self, n, arr, name="arr"):
        self.n, self.arr, self.name = n, arr, name

    def norm_index(self, e):
        w = z3.If(e < 0, e + self.n, e)
        return z3.If(w < 0, z3.IntVal(0), z3.If(w > self.n - 1, self.n - 1, w))

    def __getitem__(self, i):
        if isinstance(i, (slice, tuple)):
            from .interp import Untranslatable

            raise Untranslatable("slice of a symbolic array")
        e = z3.simplify(lift(i))
        it = cur()
        in_range = z3.And(e >= 0, e < self.n)
        if it is not None:
            it.side_condition("index", in_range, f"index into {self.name}")
            # if the path condition already entails 0 <= i < n the JAX wrap/clamp normalisation is the identity
            if it.entails(in_range):
                return SV(z3.Select(self.arr, e))
        return SV(z3.Select(self.arr, self.norm_index(e)))

    def raw(self, e):
        return z3.Select(self.arr, e)

    @property
    def size(self):
        return SV(self.n)

    @property
    def shape(self):
        return (SV(self.n),)

    def sym_len(self):
        return SV(self.n)


# --------------------------------------------------------------------------------------
IntSeq = z3.SeqSort(I)


class SymTuple:
    """A Python tuple of ints of unknown length (a shape of unknown rank): z3 Seq(Int).
    Slicing / indexing follow Python (negative indices wrap, slice bounds clamp)."""

    def __init__(self, s):
        self.s = s

    @staticmethod
    def of(v):
        if isinstance(v, SymTuple):
            return v
        if isinstance(v, SymIntList):
            return SymTuple(v.s)
        if isinstance(v, (tuple, list)):
            if not v:
                return SymTuple(z3.Empty(IntSeq))
            parts = [z3.Unit(lift(x)) for x in v]
            return SymTuple(z3.Concat(*parts) if len(parts) > 1 else parts[0])
        raise TypeError(type(v))

    def sym_len(self):
        return SV(z3.Length(self.s))

    def _bound(self, b, default):
        if b is None:
            return default
        n = z3.Length(self.s)
        e = lift(b)
        it = cur()

        def pick(c, a_, b_):
            # context-aware: resolve the Python slice normalisation when the path condition decides it
            if it is not None and it.ctx_simplify:
                if it.entails(c):
                    return a_
                if it.entails(z3.Not(c)):
                    return b_
            return z3.If(c, a_, b_)

        e = z3.simplify(pick(e < 0, e + n, e))
        return pick(e < 0, z3.IntVal(0), pick(e > n, n, e))

    def __getitem__(self, i):
        n = z3.Length(self.s)
        if isinstance(i, slice):
            if i.step not in (None, 1):
                from .interp import Untranslatable

                raise Untranslatable("extended slice of a symbolic tuple")
            lo_, hi_ = self._bound(i.start, z3.IntVal(0)), self._bound(i.stop, n)
            ln = hi_ - lo_
            it = cur()
            if not (it is not None and it.ctx_simplify and it.entails(hi_ >= lo_)):
                ln = z3.If(hi_ > lo_, hi_ - lo_, z3.IntVal(0))
            return SymTuple(z3.SubSeq(self.s, lo_, z3.simplify(ln)))
        e = lift(i)
        it = cur()
        ok = z3.And(e >= -n, e < n)
        if it is not None and not it.truth(SV(ok)):
            from .interp import PyRaise

            raise PyRaise("IndexError", "tuple index out of range")
        return SV(self.s[z3.If(e < 0, e + n, e)])

    def __add__(self, o):
        return SymTuple(z3.Concat(self.s, SymTuple.of(o).s))

    def __radd__(self, o):
        return SymTuple(z3.Concat(SymTuple.of(o).s, self.s))

    def __eq__(self, o):
        if o is None:
            return False
        return SV(self.s == SymTuple.of(o).s)

    def __ne__(self, o):
        if o is None:
            return True
        return SV(self.s != SymTuple.of(o).s)

    def __hash__(self):
        return hash(self.s)

    def __iter__(self):
        from .interp import Untranslatable

        raise Untranslatable("iteration over a tuple of symbolic length")

    def __repr__(self):
        return f"SymTuple({self.s})"


class SymIntList:
    """list(t) of a tuple of symbolic length: a MUTABLE integer sequence (insert / append), turned back by tuple(...)"""

    def __init__(self, s):
        self.s = s

    def sym_len(self):
        return SV(z3.Length(self.s))

    def as_tuple(self):
        return SymTuple(self.s)

    def append(self, v):
        self.s = z3.Concat(self.s, z3.Unit(lift(v)))

    def insert(self, i, v):
        # list.insert: negative positions count from the end, everything is clipped into [0, len]
        n = z3.Length(self.s)
        pos = SymTuple(self.s)._bound(i, n)
        self.s = z3.Concat(z3.SubSeq(self.s, z3.IntVal(0), pos), z3.Unit(lift(v)), z3.SubSeq(self.s, pos, n - pos))

    def __getitem__(self, i):
        return SymTuple(self.s)[i]

    def __iter__(self):
        from .interp import Untranslatable

        raise Untranslatable("iteration over a list of symbolic length")


class SymRange:
    """range(n) with symbolic n: only indexing (negative indices wrap, IndexError out of range) and len"""

    def __iter__(self):
        from .interp import Untranslatable

        raise Untranslatable("iteration over a symbolic SymRange outside a cut loop (Python would fall back to the unbounded __getitem__ protocol)")

    def __init__(self, n):
        self.n = lift(n)

    def sym_len(self):
        return SV(self.n)

    def __getitem__(self, i):
        e = lift(i)
        it = cur()
        if not it.truth(SV(z3.And(e >= -self.n, e < self.n))):
            from .interp import PyRaise

            raise PyRaise("IndexError", "range object index out of range")
        return SV(z3.If(e < 0, e + self.n, e))
