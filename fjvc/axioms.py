"""fjvc.axioms — ground instances of the true axioms of exp/log/tanh/arctanh/sqrt (tier T2).

The functions are uninterpreted in SMT; for each obligation we collect their applications and
add *ground* instances of true facts about the real functions (never quantified), in a fixed
number of saturation rounds.  Every instance is a theorem of real analysis, so adding them is
sound; incompleteness can only make a true obligation undecided, never a false one discharged.
"""
from __future__ import annotations

import itertools
from fractions import Fraction

import z3

from .values import UF, R

NAMES = {"exp", "log", "tanh", "arctanh", "sqrt"}
Z3NAMES = {"r_" + n: n for n in NAMES}


def _apps(exprs):
    """All applications of T2 functions in the given expressions: name -> list of (app, arg)."""
    seen, out, stack = set(), {n: [] for n in NAMES}, list(exprs)
    while stack:
        e = stack.pop()
        if e.get_id() in seen:
            continue
        seen.add(e.get_id())
        if z3.is_quantifier(e):
            stack.append(e.body())
            continue
        if z3.is_app(e):
            d = e.decl()
            if d.kind() == z3.Z3_OP_UNINTERPRETED and d.name() in Z3NAMES and e.num_args() == 1:
                out[Z3NAMES[d.name()]].append((e, e.arg(0)))
            stack.extend(e.children())
    return out


def linform(e):
    """Linear normal form: (dict atom_id -> (atom, coeff Fraction), const Fraction)."""
    e = z3.simplify(e, som=True)
    terms, const = {}, Fraction(0)

    def add(t, c):
        nonlocal const
        if c == 0:
            return
        if z3.is_rational_value(t) or z3.is_int_value(t):
            const += c * Fraction(t.numerator_as_long(), t.denominator_as_long()) if z3.is_rational_value(t) else c * t.as_long()
            return
        if z3.is_app(t):
            k = t.decl().kind()
            if k == z3.Z3_OP_ADD:
                for ch in t.children():
                    add(ch, c)
                return
            if k == z3.Z3_OP_SUB:
                ch = t.children()
                add(ch[0], c)
                for x in ch[1:]:
                    add(x, -c)
                return
            if k == z3.Z3_OP_UMINUS:
                add(t.arg(0), -c)
                return
            if k == z3.Z3_OP_TO_REAL:
                add(t.arg(0), c)
                return
            if k == z3.Z3_OP_MUL:
                ch = t.children()
                coef, rest = Fraction(1), []
                for x in ch:
                    if z3.is_rational_value(x):
                        coef *= Fraction(x.numerator_as_long(), x.denominator_as_long())
                    elif z3.is_int_value(x):
                        coef *= x.as_long()
                    else:
                        rest.append(x)
                if not rest:
                    const += c * coef
                    return
                if len(rest) == 1:
                    add(rest[0], c * coef)
                    return
                atom = rest[0]
                for x in rest[1:]:
                    atom = atom * x
                atom = z3.simplify(atom)
                i = atom.get_id()
                terms[i] = (atom, terms.get(i, (atom, Fraction(0)))[1] + c * coef)
                return
        i = t.get_id()
        terms[i] = (t, terms.get(i, (t, Fraction(0)))[1] + c)

    add(e, Fraction(1))
    terms = {i: (a, c) for i, (a, c) in terms.items() if c != 0}
    return terms, const


def _key(lf):
    terms, const = lf
    return (tuple(sorted((i, c) for i, (_a, c) in terms.items())), const)


def _lf_add(a, b, sb=1):
    terms = dict(a[0])
    for i, (atom, c) in b[0].items():
        c2 = terms.get(i, (atom, Fraction(0)))[1] + sb * c
        if c2 == 0:
            terms.pop(i, None)
        else:
            terms[i] = (atom, c2)
    return terms, a[1] + sb * b[1]


def _lf_scale(a, s):
    return {i: (atom, c * s) for i, (atom, c) in a[0].items()}, a[1] * s


def instances(exprs, rounds=2, extra_terms=(), tanh_as_exp=True, max_pairs=400):
    """Ground axiom instances for the T2 applications occurring in exprs (+ extra_terms)."""
    exp, log, tanh, arctanh, sqrt = (UF[n] for n in ("exp", "log", "tanh", "arctanh", "sqrt"))
    facts, fact_ids = [], set()
    pool = list(exprs) + list(extra_terms)

    def add(f):
        f = z3.simplify(f)
        if z3.is_true(f):
            return
        i = f.get_id()
        if i not in fact_ids:
            fact_ids.add(i)
            facts.append(f)

    done = set()
    for _round in range(rounds):
        apps = _apps(pool + facts)
        new_terms = []
        # ---- exp
        ex = {a.get_id(): (a, arg) for a, arg in apps["exp"]}
        for a, t in ex.values():
            if ("exp", a.get_id()) in done:
                continue
            done.add(("exp", a.get_id()))
            add(a > 0)
            add(log(a) == t)
            add(z3.Implies(t == 0, a == 1))
            add(z3.Implies(t > 0, a > 1))
            add(z3.Implies(t < 0, a < 1))
            add(a >= 1 + t)  # convexity: e^t >= 1 + t
        # exp of a Z-linear combination of atoms:  exp(sum c_i a_i + c0) * prod_{c<0} E(a)^|c| == prod_{c>0} E(a)^c * exp(c0),
        # with E(log u) = u (u > 0) and E(a) = exp(a) otherwise
        for a, t in list(ex.values()):
            if ("explin", a.get_id()) in done:
                continue
            done.add(("explin", a.get_id()))
            terms, const = linform(t)
            cs = [c for (_at, c) in terms.values()]
            if not terms or any(c.denominator != 1 or abs(c) > 6 for c in cs):
                continue
            if len(terms) == 1 and cs[0] == 1 and const == 0:
                continue
            lhs, rhs, guards = a, z3.RealVal(1), []
            for (atom, c) in terms.values():
                if z3.is_app(atom) and atom.decl().kind() == z3.Z3_OP_UNINTERPRETED and atom.decl().name() == "r_log" and atom.num_args() == 1:
                    E = atom.arg(0)
                    guards.append(E > 0)
                else:
                    E = exp(atom)
                for _ in range(abs(int(c))):
                    if c > 0:
                        rhs = rhs * E
                    else:
                        lhs = lhs * E
            if const != 0:
                rhs = rhs * exp(z3.RealVal(str(const)))
            add(z3.Implies(z3.And(*guards), lhs == rhs) if guards else lhs == rhs)
        lfs = {i: linform(arg) for i, (_a, arg) in ex.items()}
        bykey = {}
        for i, lf in lfs.items():
            bykey.setdefault(_key(lf), i)
        items = list(ex.items())
        npairs = 0
        for (i, (a, ta)), (j, (b, tb)) in itertools.combinations_with_replacement(items, 2):
            npairs += 1
            if npairs > max_pairs:
                break
            s = _lf_add(lfs[i], lfs[j])
            if not s[0] and s[1] == 0:
                add(a * b == 1)
            k = bykey.get(_key(s))
            if k is not None:
                add(ex[k][0] == a * b)
            d = _lf_add(lfs[i], lfs[j], -1)
            k = bykey.get(_key(d))
            if k is not None and i != j:
                add(ex[k][0] * b == a)
            d2 = _lf_add(lfs[j], lfs[i], -1)
            k = bykey.get(_key(d2))
            if k is not None and i != j:
                add(ex[k][0] * a == b)
            if i != j:
                add(z3.Implies(ta < tb, a < b))
                add(z3.Implies(tb < ta, b < a))
                add(z3.Implies(ta == tb, a == b))
        # ---- log
        lg = {a.get_id(): (a, arg) for a, arg in apps["log"]}
        for a, u in lg.values():
            if ("log", a.get_id()) in done:
                continue
            done.add(("log", a.get_id()))
            add(z3.Implies(u > 0, exp(a) == u))
            add(z3.Implies(u == 1, a == 0))
            add(z3.Implies(u > 1, a > 0))
            add(z3.Implies(z3.And(u > 0, u < 1), a < 0))
            add(z3.Implies(u > 0, a <= u - 1))
        for (i, (a, ua)), (j, (b, ub)) in itertools.combinations(list(lg.items()), 2):
            add(z3.Implies(z3.And(ua > 0, ub > 0, ua < ub), a < b))
            add(z3.Implies(z3.And(ua > 0, ub > 0, ub < ua), b < a))
            add(z3.Implies(ua == ub, a == b))
        # ---- tanh
        th = {a.get_id(): (a, arg) for a, arg in apps["tanh"]}
        tlfs = {i: linform(arg) for i, (_a, arg) in th.items()}
        tby = {}
        for i, lf in tlfs.items():
            tby.setdefault(_key(lf), i)
        for i, (a, t) in th.items():
            if ("tanh", i) in done:
                continue
            done.add(("tanh", i))
            add(z3.And(a > -1, a < 1))
            add(arctanh(a) == t)
            add(z3.Implies(t == 0, a == 0))
            add(z3.Implies(t > 0, a > 0))
            add(z3.Implies(t < 0, a < 0))
            k = tby.get(_key(_lf_scale(tlfs[i], -1)))
            if k is not None:
                add(th[k][0] == -a)
            if tanh_as_exp:
                e2 = exp(2 * t)
                add(a * (e2 + 1) == e2 - 1)
        for (i, (a, ta)), (j, (b, tb)) in itertools.combinations(list(th.items()), 2):
            add(z3.Implies(ta < tb, a < b))
            add(z3.Implies(tb < ta, b < a))
            add(z3.Implies(ta == tb, a == b))
        # ---- arctanh
        at = {a.get_id(): (a, arg) for a, arg in apps["arctanh"]}
        for i, (a, u) in at.items():
            if ("arctanh", i) in done:
                continue
            done.add(("arctanh", i))
            add(z3.Implies(z3.And(u > -1, u < 1), tanh(a) == u))
        for (i, (a, ua)), (j, (b, ub)) in itertools.combinations(list(at.items()), 2):
            ok = z3.And(ua > -1, ua < 1, ub > -1, ub < 1)
            add(z3.Implies(z3.And(ok, ua < ub), a < b))
            add(z3.Implies(z3.And(ok, ub < ua), b < a))
            add(z3.Implies(ua == ub, a == b))
        # ---- sqrt
        sq = {a.get_id(): (a, arg) for a, arg in apps["sqrt"]}
        for i, (a, u) in sq.items():
            if ("sqrt", i) in done:
                continue
            done.add(("sqrt", i))
            add(z3.Implies(u >= 0, z3.And(a * a == u, a >= 0)))
            add(z3.Implies(u > 0, a > 0))
        for (i, (a, ua)), (j, (b, ub)) in itertools.combinations(list(sq.items()), 2):
            add(z3.Implies(z3.And(ua >= 0, ub >= 0, ua < ub), a < b))
            add(z3.Implies(ua == ub, a == b))
        pool = pool + new_terms
    return facts


def uses_t2(exprs):
    a = _apps(exprs)
    return any(a[n] for n in NAMES)
