"""fjvc.lib — the library model (trusted base).  Every entry used in a run is recorded.

Tiers: T1 definitional over the reals, T2 axiomatised real functions (uninterpreted + ground
axioms, fjvc.axioms), T3 contracts assumed on dependencies.  Entries are registered under the
dotted name the real code imports (jax.numpy.where, equinox.partition, ...).
"""
from __future__ import annotations

import functools
import math

import z3

from . import values as V
from .interp import _MISSING, Obj, PyRaise, RepoClass, Untranslatable
from .values import SV, SumT, lift, to_real

ENTRIES = {}  # dotted name -> (fn, tier)


def entry(*names, tier="T1"):
    def deco(f):
        for n in names:
            ENTRIES[n] = (f, tier)
        return f

    return deco


class LibModule:
    def __init__(self, lib, dotted):
        self._lib, self._dotted = lib, dotted

    def __getattr__(self, name):
        if name.startswith("__"):
            raise AttributeError(name)
        return self._lib.resolve(f"{self._dotted}.{name}")

    def __repr__(self):
        return f"<lib {self._dotted}>"


class Unmodelled:
    """A library name with no model: using it makes the function untranslatable."""

    def __init__(self, dotted):
        self._dotted = dotted

    def __call__(self, *a, **k):
        raise Untranslatable(f"library entry {self._dotted} has no model")

    def __getattr__(self, name):
        if name.startswith("__") or name.startswith("sym_") or name in ("is_array", "is_int_array", "item"):
            raise AttributeError(name)
        return Unmodelled(f"{self._dotted}.{name}")

    def __getitem__(self, i):
        return self

    def __or__(self, o):
        return self

    __ror__ = __or__

    def __repr__(self):
        return f"<unmodelled {self._dotted}>"


ALIASES = {
    "jax.nn": "jax.nn", "jax.lax": "jax.lax", "jax.random": "jax.random", "jax.numpy.linalg": "jax.numpy.linalg",
}


class Library:
    def __init__(self, interp):
        self.interp = interp
        self.overrides = {}  # dotted -> fn (contract-supplied)
        self.post_init_hook = None
        self.hooks_getattr = []
        self.hooks_getitem = []
        self.hooks_binop = []

    # ---- resolution
    def module(self, dotted):
        return LibModule(self, dotted)

    def resolve(self, dotted):
        if dotted in self.overrides:
            return self._wrap(dotted, self.overrides[dotted], "contract")
        if dotted in ENTRIES:
            f, tier = ENTRIES[dotted]
            return self._wrap(dotted, f, tier)
        pref = dotted + "."
        if any(k.startswith(pref) for k in ENTRIES) or any(k.startswith(pref) for k in self.overrides):
            return LibModule(self, dotted)
        return Unmodelled(dotted)

    def _wrap(self, dotted, f, tier):
        if not callable(f) or isinstance(f, (type, TypeMarker)):
            self.interp.used_lib.add(f"{tier}:{dotted}")
            return f
        it = self.interp

        @functools.wraps(f)
        def w(*a, **k):
            it.used_lib.add(f"{tier}:{dotted}")
            return f(*a, **k)

        w.__lib_name__ = dotted
        return w

    # ---- hooks used by the interpreter
    def getattr_hook(self, o, name):
        for h in self.hooks_getattr:
            r = h(o, name)
            if r is not _MISSING:
                return r
        if isinstance(o, (int, float)) and not isinstance(o, bool):
            if name == "shape":
                return ()
            if name == "ndim":
                return 0
            if name == "sum":
                return lambda *a, **k: o
        if isinstance(o, tuple) and hasattr(o, "_fields_nt"):
            pass
        return _MISSING

    def getitem_hook(self, o, idx):
        for h in self.hooks_getitem:
            r = h(o, idx)
            if r is not _MISSING:
                return r
        return _MISSING

    def binop_hook(self, op, a, b):
        for h in self.hooks_binop:
            r = h(op, a, b)
            if r is not _MISSING:
                return r
        return _MISSING

    def compare_hook(self, op, a, b):
        return _MISSING

    def truth_hook(self, v):
        return _MISSING

    def iter_hook(self, v):
        if isinstance(v, Record):
            return iter(v.values())
        return _MISSING

    def local_class(self, interp, node, env):
        """Nested `class _State(NamedTuple)` -> record class."""
        bases = [interp.eval(b, env) for b in node.bases]
        if not any(b is NamedTupleMarker for b in bases):
            return RepoClass(interp, node, env, f"{interp.current_qual()}.<locals>.{node.name}")
        import ast

        fields, defaults = [], {}
        for b in node.body:
            if isinstance(b, ast.AnnAssign):
                fields.append(b.target.id)
                if b.value is not None:
                    defaults[b.target.id] = interp.eval(b.value, env)
        return RecordClass(node.name, fields, defaults)


class TypeMarker:
    """A typing-only name (jaxtyping Array, ArrayLike, Callable, ...)."""

    def __init__(self, name, check=None):
        self.name, self.check = name, check

    def __getitem__(self, i):
        return self

    def __or__(self, o):
        return self

    __ror__ = __or__

    def __call__(self, *a, **k):
        return self

    def sym_instancecheck(self, x):
        if self.check is None:
            raise Untranslatable(f"isinstance(_, {self.name})")
        return self.check(x)

    def __repr__(self):
        return f"<type {self.name}>"


class RecordClass:
    def __init__(self, name, fields, defaults):
        self.name, self.fields, self.defaults = name, fields, defaults

    def __call__(self, *args, **kw):
        v = dict(self.defaults)
        v.update(dict(zip(self.fields, args)))
        v.update(kw)
        missing = [f for f in self.fields if f not in v]
        if missing:
            raise PyRaise("TypeError", f"{self.name} missing {missing}")
        return Record(self, {f: v[f] for f in self.fields})


class Record:
    def __init__(self, cls, vals):
        object.__setattr__(self, "_cls", cls)
        object.__setattr__(self, "_vals", vals)

    def __getattr__(self, n):
        v = object.__getattribute__(self, "_vals")
        if n in v:
            return v[n]
        raise AttributeError(n)

    def values(self):
        return list(object.__getattribute__(self, "_vals").values())

    def __iter__(self):
        return iter(self.values())

    def __getitem__(self, i):
        return self.values()[i]

    def _replace(self, **kw):
        v = dict(object.__getattribute__(self, "_vals"))
        v.update(kw)
        return Record(object.__getattribute__(self, "_cls"), v)


NamedTupleMarker = TypeMarker("NamedTuple")
ENTRIES["typing.NamedTuple"] = (NamedTupleMarker, "T1")
for _n in ("typing.ClassVar", "typing.Literal", "typing.Generic", "typing.TypeVar", "typing.TYPE_CHECKING", "typing.Callable",
           "collections.abc.Callable", "collections.abc.Sequence", "collections.abc.Iterable",
           "jaxtyping.Float", "jaxtyping.Int", "jaxtyping.Real", "jaxtyping.Bool", "jaxtyping.Shaped", "jaxtyping.PRNGKeyArray",
           "jaxtyping.PyTree", "jaxtyping.Scalar", "equinox.AbstractVar", "equinox.Module", "abc.abstractmethod"):
    ENTRIES[_n] = (TypeMarker(_n) if not _n.endswith("TYPE_CHECKING") else False, "T1")


# =====================================================================================
# scalar / generic-element numerics
def _is_num(x):
    return isinstance(x, (int, float)) and not isinstance(x, bool)


def _sym(*xs):
    return any(isinstance(x, SV) for x in xs)


def _elem(*xs):
    return any(isinstance(x, SV) and x.elem for x in xs)


def _uf(name, arg, side=None):
    a = to_real(lift(arg))
    it = V.cur()
    if side is not None and it is not None:
        for kind, cond in side(a):
            it.side_condition(kind, cond, name)
    return SV(V.UF[name](a), _elem(arg), getattr(arg, "tags", None))


@entry("jax.numpy.exp", "math.exp", tier="T2")
def m_exp(x):
    if _is_num(x):
        return math.exp(x)
    if isinstance(x, SumT):
        raise Untranslatable("exp of a sum")
    return _uf("exp", x)


@entry("math.log", tier="T2")
def m_mathlog(x):
    if _is_num(x):
        return math.log(x)
    return _uf("log", x, lambda a: [("log", a > 0)])


@entry("jax.numpy.log", tier="T2")
def m_log(x):
    if _is_num(x):
        # keep log(c) symbolic so that exp(log c) = c stays available to the solver
        if x <= 0:
            raise Untranslatable("log of a non-positive constant")
        return SV(V.UF["log"](lift(float(x))))
    return _uf("log", x, lambda a: [("log", a > 0)])


@entry("jax.numpy.tanh", "math.tanh", tier="T2")
def m_tanh(x):
    if _is_num(x):
        return math.tanh(x)
    return _uf("tanh", x)


@entry("jax.numpy.arctanh", tier="T2")
def m_arctanh(x):
    if _is_num(x):
        return math.atanh(x)
    return _uf("arctanh", x, lambda a: [("arctanh", z3.And(a > -1, a < 1))])


@entry("jax.numpy.sqrt", "math.sqrt", tier="T2")
def m_sqrt(x):
    if _is_num(x):
        return math.sqrt(x)
    return _uf("sqrt", x, lambda a: [("sqrt", a >= 0)])


@entry("jax.numpy.expm1", tier="T2")
def m_expm1(x):
    if _is_num(x):
        return math.expm1(x)
    return m_exp(x) - 1


@entry("jax.numpy.log1p", tier="T2")
def m_log1p(x):
    if _is_num(x):
        return math.log1p(x)
    return m_log(1 + x)


@entry("jax.nn.softplus", tier="T2")
def m_softplus(x):
    if _is_num(x):
        return math.log1p(math.exp(x))
    # log(1+exp x): argument of log is > 0 for every real x, no side condition on the value
    a = to_real(lift(x))
    return SV(V.UF["log"](1 + V.UF["exp"](a)), _elem(x), getattr(x, "tags", None))


@entry("jax.numpy.abs", "jax.numpy.absolute")
def m_abs(x):
    return abs(x)


@entry("jax.numpy.sign")
def m_sign(x):
    if _is_num(x):
        return (x > 0) - (x < 0)
    a = lift(x)
    one, zero = (z3.IntVal(1), z3.IntVal(0)) if a.sort() == V.I else (z3.RealVal(1), z3.RealVal(0))
    return SV(z3.If(a > 0, one, z3.If(a < 0, -one, zero)), _elem(x), getattr(x, "tags", None))


@entry("jax.numpy.where")
def m_where(c, a=None, b=None, **kw):
    if a is None:
        raise Untranslatable("one-argument jnp.where")
    if isinstance(c, bool):
        return a if c else b
    if not _sym(c, a, b):
        return a if c else b
    if isinstance(c, SV):
        it = V.cur()
        if it is not None and it.ctx_simplify:
            if it.entails(lift(c)):
                return a if isinstance(a, SV) else SV(a, _elem(c, a, b))
            if it.entails(z3.Not(lift(c))):
                return b if isinstance(b, SV) else SV(b, _elem(c, a, b))
        return SV(V.ite(c, a, b), _elem(c, a, b))
    raise Untranslatable("jnp.where condition type")


@entry("jax.numpy.logical_and")
def m_land(a, b):
    if _sym(a, b):
        return SV(z3.And(lift(a), lift(b)), _elem(a, b))
    return a and b


@entry("jax.numpy.logical_or")
def m_lor(a, b):
    if _sym(a, b):
        return SV(z3.Or(lift(a), lift(b)), _elem(a, b))
    return a or b


@entry("jax.numpy.logical_not")
def m_lnot(a):
    if isinstance(a, SV):
        return a.logical_not()
    return not a


@entry("jax.numpy.clip")
def m_clip(x, lo=None, hi=None, **kw):
    lo = kw.get("min", lo) if lo is None else lo
    hi = kw.get("max", hi) if hi is None else hi
    r = x
    if lo is not None:
        r = m_maximum(r, lo)
    if hi is not None:
        r = m_minimum(r, hi)
    return r


@entry("jax.numpy.minimum")
def m_minimum(a, b):
    if _sym(a, b):
        c = sv(a) <= b
        it = V.cur()
        if it is not None and it.ctx_simplify:
            if it.entails(lift(c)):
                return sv(a)
            if it.entails(z3.Not(lift(c))):
                return sv(b)
        return SV(V.ite(c, a, b), _elem(a, b))
    return min(a, b)


@entry("jax.numpy.maximum")
def m_maximum(a, b):
    if _sym(a, b):
        c = sv(a) >= b
        it = V.cur()
        if it is not None and it.ctx_simplify:
            if it.entails(lift(c)):
                return sv(a)
            if it.entails(z3.Not(lift(c))):
                return sv(b)
        return SV(V.ite(c, a, b), _elem(a, b))
    return max(a, b)


def sv(x):
    return x if isinstance(x, SV) else SV(x)


@entry("jax.numpy.sum")
def m_sum(x, axis=None, **kw):
    if isinstance(x, (SV, SumT)):
        return x.sum()
    if _is_num(x):
        return x
    if hasattr(x, "sum"):
        return x.sum(axis=axis) if axis is not None else x.sum()
    raise Untranslatable(f"jnp.sum of {type(x).__name__}")


@entry("jax.numpy.asarray", "jax.numpy.array")
def m_asarray(x, dtype=None, **kw):
    return x


@entry("jax.numpy.zeros")
def m_zeros(shape=(), dtype=None):
    if shape == ():
        return 0.0
    raise Untranslatable("jnp.zeros of a non-scalar shape (needs a tensor-domain override)")


@entry("jax.numpy.ones")
def m_ones(shape=(), dtype=None):
    if shape == ():
        return 1.0
    raise Untranslatable("jnp.ones of a non-scalar shape (needs a tensor-domain override)")


@entry("jax.numpy.isnan")
def m_isnan(x):
    # reals have no NaN: extended values are modelled only in the C18 / log_prob epilogue contracts
    return False if not isinstance(x, SV) else SV(z3.BoolVal(False), x.elem)


@entry("jax.numpy.isfinite")
def m_isfinite(x):
    return True if not isinstance(x, SV) else SV(z3.BoolVal(True), x.elem)


@entry("jax.numpy.inf")
def _inf():
    raise Untranslatable("jnp.inf as a call")


ENTRIES["jax.numpy.inf"] = (float("inf"), "T1")
ENTRIES["jax.numpy.pi"] = (math.pi, "T1")
ENTRIES["jax.numpy.int32"] = (TypeMarker("int32"), "T1")
ENTRIES["math.prod"] = (lambda xs, start=1: functools.reduce(lambda a, b: a * b, list(xs), start), "T1")
ENTRIES["operator.ge"] = (lambda a, b: a >= b, "T1")
ENTRIES["operator.gt"] = (lambda a, b: a > b, "T1")


@entry("functools.partial")
def m_partial(f, *a, **k):
    p = functools.partial(f, *a, **k)
    return p


_NOINIT = object()


@entry("functools.reduce")
def m_reduce(f, seq, initial=_NOINIT):
    """left fold over a CONCRETE Python sequence (symbolic-length sequences guard their own __iter__)"""
    items = list(seq)
    if initial is _NOINIT:
        if not items:
            raise TypeError("reduce() of empty iterable with no initial value")
        acc, items = items[0], items[1:]
    else:
        acc = initial
    for x in items:
        acc = f(acc, x)
    return acc


@entry("functools.wraps")
def m_wraps(f):
    def deco(g):
        try:
            g.__name__ = getattr(f, "__name__", getattr(g, "__name__", "?"))
        except Exception:
            pass
        return g

    return deco


@entry("equinox.filter_jit", "jax.jit", tier="T3")
def m_jit(f=None, **kw):
    it = V.cur()
    if it is not None:
        it.dropped.add("jit decorators treated as identity (jit preserves values: assumed, see C14)")
    if f is None:
        return lambda g: g
    return f


@entry("jax.lax.stop_gradient", tier="T3")
def m_stop_gradient(x):
    return x


@entry("itertools.accumulate")
def m_accumulate(xs):
    out, tot = [], None
    for x in xs:
        tot = x if tot is None else tot + x
        out.append(tot)
    return out


@entry("inspect.signature", tier="T3")
def m_signature(f):
    raise Untranslatable("inspect.signature")


# =====================================================================================
# loops (T3: lax.while_loop == while, lax.scan == fold in index order)
@entry("jax.lax.while_loop", tier="T3")
def m_while_loop(cond_fun, body_fun, init_val):
    """Cut at the contract's invariant: establish, havoc, assume inv ∧ guard, run the body once,
    re-establish (+ variant); continue from a havoc'd exit state with inv ∧ ¬guard."""
    from .interp import Infeasible

    it = V.cur()
    key = it._loop_key("lax.while")
    spec = it.loop_specs.get(key)
    if spec is None:
        raise Untranslatable(f"lax.while_loop {key} has no invariant in the contract")
    fn, tag = key
    n = tag.split("#")[1]
    it.emit(f"{fn}/{spec.name}#{n}/init", "inv/init", spec.inv(z3.IntVal(0), init_val))
    k = it.fresh("k", "int")
    saved = len(it.cond)
    st = spec.havoc(k, init_val)
    it.assume(k >= 0)
    it.assume(spec.inv(k, st))
    g = cond_fun(st)
    it.assume(lift(g) if isinstance(g, SV) else z3.BoolVal(bool(g)))
    st2 = body_fun(st)
    it.emit(f"{fn}/{spec.name}#{n}/step", "inv/step", spec.inv(k + 1, st2))
    if spec.variant is not None:
        it.emit(f"{fn}/dec#{n}", "dec", spec.variant(k, st, st2))
    del it.cond[saved:]
    kx = it.fresh("kexit", "int")
    xs = spec.havoc(kx, init_val)
    it.assume(kx >= 0)
    it.assume(spec.inv(kx, xs))
    gx = cond_fun(xs)
    it.assume(z3.Not(lift(gx)) if isinstance(gx, SV) else z3.BoolVal(not bool(gx)))
    return xs


SS = {side: z3.Function(f"searchsorted_{side}", z3.ArraySort(V.I, V.R), V.I, V.R, V.I) for side in ("left", "right")}


@entry("jax.numpy.searchsorted", tier="T3")
def m_searchsorted(a, v, side="left", **kw):
    """T3 contract (requires a sorted): side=left: a[j-1] < v <= a[j]; side=right: a[j-1] <= v < a[j]; 0 <= j <= n.
    The result is a function of (array, length, value): two lookups of the same value give the same bin."""
    if not isinstance(a, V.SArr):
        raise Untranslatable("searchsorted on a non-symbolic array")
    it = V.cur()
    ve = to_real(lift(v))
    j = SS[side](a.arr, a.n, ve)
    lo_ok = (a.raw(j - 1) < ve) if side == "left" else (a.raw(j - 1) <= ve)
    hi_ok = (ve <= a.raw(j)) if side == "left" else (ve < a.raw(j))
    it.assume(z3.And(j >= 0, j <= a.n, z3.Implies(j > 0, lo_ok), z3.Implies(j < a.n, hi_ok)))
    if it.ctx_simplify:
        kv = it.known_value(j)
        if kv is not None:
            return SV(kv, isinstance(v, SV) and v.elem)
    return SV(j, isinstance(v, SV) and v.elem)


# =====================================================================================
# T3: textbook standard log-densities (jax.scipy.stats.*.logpdf) as uninterpreted per-element functions
LOGPDF = {fam: z3.Function(f"std_logpdf_{fam}", V.R, V.R) for fam in ("norm", "uniform", "cauchy", "laplace", "expon", "logistic")}
LOGPDF_T = z3.Function("std_logpdf_t", V.R, V.R, V.R)  # (x, df)


def _mk_logpdf(fam):
    def f(x, *a, **k):
        if a or k:
            raise Untranslatable(f"{fam}.logpdf with loc/scale arguments")
        return SV(LOGPDF[fam](to_real(lift(x))), _elem(x), getattr(x, "tags", None))
    return f


for _fam in LOGPDF:
    ENTRIES[f"jax.scipy.stats.{_fam}.logpdf"] = (_mk_logpdf(_fam), "T3")


@entry("jax.scipy.stats.t.logpdf", tier="T3")
def m_t_logpdf(x, df=None, **k):
    return SV(LOGPDF_T(to_real(lift(x)), to_real(lift(df))), _elem(x, df), getattr(x, "tags", None))


@entry("jax.numpy.shape")
def m_shape(x):
    if _is_num(x):
        return ()
    return x.shape


@entry("jax.numpy.isclose", "numpy.isclose", "math.isclose")
def m_isclose(a, b, rtol=1e-5, atol=1e-8, equal_nan=False, **kw):
    """numpy semantics over the reals: |a - b| <= atol + rtol * |b|  (NOT an equality test: nearby distinct values are `close`)"""
    x, y = to_real(lift(a)), to_real(lift(b))
    d = z3.If(x - y >= 0, x - y, y - x)
    ay = z3.If(y >= 0, y, -y)
    return SV(d <= to_real(lift(atol)) + to_real(lift(rtol)) * ay, _elem(a) or _elem(b))


@entry("jax.numpy.allclose", "numpy.allclose")
def m_allclose(a, b, rtol=1e-5, atol=1e-8, **kw):
    return m_isclose(a, b, rtol, atol)


@entry("jax.numpy.broadcast_shapes")
def m_broadcast_shapes(*shapes):
    out = ()
    for s_ in shapes:
        if s_ == ():
            continue
        if out == () or out is s_ or out == s_:
            out = s_
        else:
            raise Untranslatable("broadcast of different symbolic shapes")
    return out


def _retag(a, shape):
    """the same values seen with shape `shape` (a scalar becomes a generic-element tensor whose every element is that scalar)"""
    if isinstance(a, SV):
        if shape == ():
            return a
        return SV(a.e, True, dict(a.tags or {}, shape=shape))
    if _is_num(a) and shape != ():
        return SV(V.lift(a), True, {"shape": shape})
    return a


@entry("jax.numpy.broadcast_arrays")
def m_broadcast_arrays(*arrs):
    shapes = []
    for a in arrs:
        if isinstance(a, SV):
            shapes.append(a.shape)
        elif _is_num(a):
            shapes.append(())
        else:
            return list(arrs)  # other model values: shapes handled by their own classes
    shape = m_broadcast_shapes(*shapes)
    return [_retag(a, shape) for a in arrs]


@entry("jax.numpy.broadcast_to")
def m_broadcast_to(a, shape):
    if isinstance(a, SV) or _is_num(a):
        return _retag(a, tuple(shape) if isinstance(shape, (tuple, list)) else shape)
    return a


# =====================================================================================
# pytrees (T3: jax.tree_util / equinox structural recursion).  Nodes: Obj (all instance fields are children), tuple, list,
# dict; None is an empty node; everything else is a leaf.
class Dummy:
    """jnp.empty(shape, int): value irrelevant, only the shape is read"""

    def __init__(self, shape):
        self.shape = tuple(shape) if isinstance(shape, (tuple, list)) else (shape,)

    is_int_array = True


class Static:
    """a leaf moved to the other side of eqx.partition (None placeholder in equinox)"""


def is_array(x):
    return isinstance(x, (SV, SumT, V.SArr, Dummy)) or getattr(x, "is_array", False) is True


def is_inexact_array(x):
    if isinstance(x, Dummy) or getattr(x, "is_int_array", False):
        return False
    if isinstance(x, SV):
        return x.e.sort() == V.R
    return is_array(x)


def is_array_like(x):
    return is_array(x) or (isinstance(x, (int, float, complex, bool)))


def tree_map(f, tree, *rest, is_leaf=None):
    if rest:
        return _tree_map_n(f, (tree,) + rest, is_leaf)

    def rec(x):
        if is_leaf is not None and _truth(is_leaf(x)):
            return f(x)
        if x is None:
            return None
        if isinstance(x, Obj):
            from .interp import obj_class, obj_fields

            o = Obj(obj_class(x), **{k: rec(v) for k, v in obj_fields(x).items()})
            object.__setattr__(o, "_frozen", True)
            return o
        if isinstance(x, tuple) and not hasattr(x, "_fields"):
            return tuple(rec(v) for v in x)
        if isinstance(x, list):
            return [rec(v) for v in x]
        if isinstance(x, dict):
            return {k: rec(v) for k, v in x.items()}
        return f(x)

    return rec(tree)


def _tree_map_n(f, trees, is_leaf):
    def rec(xs):
        x = xs[0]
        if is_leaf is not None and _truth(is_leaf(x)):
            return f(*xs)
        if x is None:
            return None
        if isinstance(x, Obj):
            from .interp import obj_class, obj_fields

            return Obj(obj_class(x), **{k: rec([obj_fields(t)[k] if isinstance(t, Obj) else t for t in xs]) for k in obj_fields(x)})
        if isinstance(x, (tuple, list)):
            out = [rec([t[i] if isinstance(t, (tuple, list)) else t for t in xs]) for i in range(len(x))]
            return tuple(out) if isinstance(x, tuple) else out
        if isinstance(x, dict):
            return {k: rec([t[k] if isinstance(t, dict) else t for t in xs]) for k in x}
        return f(*xs)

    return rec(list(trees))


def _truth(v):
    it = V.cur()
    return it.truth(v) if it is not None else bool(v)


def tree_leaves(tree, is_leaf=None):
    out = []
    tree_map(lambda x: out.append(x), tree, is_leaf=is_leaf)
    return out


def tree_flatten_one_level(node):
    from .interp import obj_class, obj_fields

    if isinstance(node, Obj):
        f = obj_fields(node)
        return list(f.values()), ("obj", obj_class(node), list(f.keys()))
    if isinstance(node, (tuple, list)):
        return list(node), (type(node).__name__, None, len(node))
    raise Untranslatable("tree_flatten_one_level of a leaf")


def tree_unflatten(treedef, leaves):
    kind, cls, keys = treedef
    leaves = list(leaves)
    if kind == "obj":
        o = Obj(cls, **dict(zip(keys, leaves)))
        object.__setattr__(o, "_frozen", True)
        return o
    return tuple(leaves) if kind == "tuple" else leaves


def partition(tree, filter_spec, is_leaf=None, **kw):
    def pick(x, want):
        keep = _truth(filter_spec(x)) if callable(filter_spec) else bool(filter_spec)
        return x if keep == want else None

    return tree_map(lambda x: pick(x, True), tree, is_leaf=is_leaf), tree_map(lambda x: pick(x, False), tree, is_leaf=is_leaf)


def combine(*trees, is_leaf=None):
    def first(*xs):
        for x in xs:
            if x is not None:
                return x
        return None

    def rec(xs):
        xs = [x for x in xs]
        x = next((t for t in xs if t is not None), None)
        if x is None:
            return None
        if isinstance(x, Obj):
            from .interp import obj_class, obj_fields

            o = Obj(obj_class(x), **{k: rec([obj_fields(t)[k] if isinstance(t, Obj) else None for t in xs]) for k in obj_fields(x)})
            object.__setattr__(o, "_frozen", True)
            return o
        if isinstance(x, (tuple, list)):
            out = [rec([t[i] if isinstance(t, (tuple, list)) else None for t in xs]) for i in range(len(x))]
            return tuple(out) if isinstance(x, tuple) else out
        if isinstance(x, dict):
            return {k: rec([t[k] if isinstance(t, dict) else None for t in xs]) for k in x}
        return first(*xs)

    return rec(list(trees))


for _n, _f in (("jax.tree_util.tree_map", tree_map), ("jax.tree_util.tree_leaves", tree_leaves), ("jax.tree_util.tree_unflatten", tree_unflatten),
               ("equinox.tree_flatten_one_level", tree_flatten_one_level), ("equinox.partition", partition), ("equinox.combine", combine),
               ("equinox.is_array", is_array), ("equinox.is_inexact_array", is_inexact_array), ("equinox.is_array_like", is_array_like)):
    ENTRIES[_n] = (_f, "T3")
ENTRIES["jax.numpy.empty"] = (lambda shape=(), dtype=None: Dummy(shape), "T1")
# eqx.filter(tree, spec, inverse=...) is one half of eqx.partition
ENTRIES["equinox.filter"] = (lambda tree, filter_spec, inverse=False, replace=None, is_leaf=None, **kw: partition(tree, filter_spec, is_leaf=is_leaf)[1 if inverse else 0], "T3")
# jax.eval_shape(f, *args): the abstract evaluation of f -- every model value already carries its shape, so running f is enough
ENTRIES["jax.eval_shape"] = (lambda f, *a, **k: f(*a, **k), "T3")


@entry("equinox.filter_vmap", tier="T3")
def m_filter_vmap(f=None, **kw):
    raise Untranslatable("eqx.filter_vmap (needs a contract-level model)")


@entry("equinox.field")
def m_field(default=_MISSING, default_factory=None, converter=None, init=True, static=False, **kw):
    from .interp import FieldSpec

    return FieldSpec(default, default_factory, converter, init, static)


@entry("jax.lax.scan", tier="T3")
def m_scan(f, init, xs=None, length=None, reverse=False, **kw):
    """T3: lax.scan == fold over the leading axis in index order (reversed when reverse=True).  Cut at the contract's invariant.
    xs must provide .length (z3 Int) and .at(k); the stacked outputs are not modelled (flowjax's scans return None there)."""
    it = V.cur()
    key = it._loop_key("lax.scan")
    spec = it.loop_specs.get(key)
    if spec is None:
        raise Untranslatable(f"lax.scan {key} has no invariant in the contract")
    fn, tag = key
    nn = tag.split("#")[1]
    n = xs.length if xs is not None else lift(length)
    elem = (lambda k: xs.at(n - 1 - k if reverse else k)) if xs is not None else (lambda k: None)
    it.emit(f"{fn}/{spec.name}#{nn}/init", "inv/init", spec.inv(z3.IntVal(0), init, init))
    k = it.fresh("k", "int")
    saved = len(it.cond)
    st = spec.havoc(k, init)
    it.assume(z3.And(k >= 0, k < n))
    it.assume(spec.inv(k, st, init))
    st2, _y = f(st, elem(k))
    it.emit(f"{fn}/{spec.name}#{nn}/step", "inv/step", spec.inv(k + 1, st2, init))
    del it.cond[saved:]
    kx = it.fresh("kexit", "int")
    xs_ = spec.havoc(kx, init)
    it.assume(kx == n)
    it.assume(kx >= 0)
    it.assume(spec.inv(kx, xs_, init))
    return xs_, None


@entry("jax.lax.fori_loop", tier="T3")
def m_fori_loop(lower, upper, body_fun, init_val, **kw):
    """T3: lax.fori_loop(lo, hi, body, init) == the scan that carries (value, index): body'((v, i), _) = ((body(i, v), i + 1), None)
    run hi - lo times from (init, lo).  Desugared to m_scan, so a contract written for a scan that threads its own counter in the carry
    also covers the fori_loop spelling of the same loop (the loop key counts it as the function's next lax.scan)."""
    if kw:
        raise Untranslatable("lax.fori_loop with options")

    def step(carry, _x):
        v, i = carry
        return (body_fun(i, v), i + 1), None

    (res, _i), _ = m_scan(step, (init_val, lower), None, length=lift(upper) - lift(lower))
    return res


class MeanT:
    """the MEAN over the index set of a generic-element tensor (distinct from the reduction SumT on purpose)"""

    def __init__(self, t):
        self.t = t

    def __neg__(self):
        return MeanT(-self.t)


@entry("jax.numpy.mean")
def m_mean(x, axis=None, **kw):
    if isinstance(x, SV) and x.elem:
        return MeanT(to_real(x.e))
    if isinstance(x, SV) or _is_num(x):
        return x
    if hasattr(x, "mean"):
        return x.mean()
    raise Untranslatable(f"jnp.mean of {type(x).__name__}")
