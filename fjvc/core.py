"""fjvc.core — obligations, discharge, contract context, per-property runner, evidence."""
from __future__ import annotations

import importlib
import json
import os
import subprocess
import signal
import sys
import tempfile
import time
import traceback
from dataclasses import dataclass, field
from fractions import Fraction

import z3

from . import axioms
from .interp import Interp, Source, Untranslatable, PyRaise

VERIF = os.path.dirname(os.path.dirname(os.path.abspath(__file__)))
REPO = os.environ.get("FJVC_REPO", "/repo")


@dataclass
class Obligation:
    oid: str
    props: list
    kind: str
    hyps: list
    goal: object
    expect: str = "valid"  # valid | sat (cover) | refuted (control)
    fn: str = None
    replay: dict = None
    extra_terms: list = field(default_factory=list)
    rounds: int = 2
    note: str = ""
    cites: list = field(default_factory=list)
    tanh_as_exp: bool = True
    inst: list = field(default_factory=list)  # ground-instance generators: f(list of asserts) -> list of true facts
    sampler: object = None  # optional: f(random.Random) -> {z3 const or 'fn:<uf name>': value / callable}; used only by the sampling falsifier
    ratfun: tuple = None  # (lhs, rhs): decide lhs == rhs as a rational-function identity with the sympy back end
    # result
    status: str = None  # discharged | refuted | unknown | ok | vacuous | control_failed | untranslatable
    backend: str = None
    ms: float = 0.0
    model: dict = None
    solver_output: str = ""


def _val(v):
    if v is None:
        return None
    if z3.is_int_value(v):
        return v.as_long()
    if z3.is_rational_value(v):
        return str(Fraction(v.numerator_as_long(), v.denominator_as_long()))
    if z3.is_algebraic_value(v):
        return v.approx(20).as_decimal(20).rstrip("?")
    if z3.is_true(v):
        return True
    if z3.is_false(v):
        return False
    return str(v)


def model_values(model, exprs):
    out = {}
    for name, e in exprs.items():
        try:
            if isinstance(e, (list, tuple)):
                out[name] = [_val(model.eval(x, model_completion=True)) for x in e]
            elif isinstance(e, z3.ExprRef) and z3.is_seq(e):
                ln = model.eval(z3.Length(e), model_completion=True).as_long()
                out[name] = [_val(model.eval(e[k], model_completion=True)) for k in range(min(ln, 8))]
            elif isinstance(e, z3.ExprRef):
                out[name] = _val(model.eval(e, model_completion=True))
            else:
                out[name] = e
        except Exception as ex:  # pragma: no cover
            out[name] = f"<eval error {ex}>"
    return out


def _formula(ob):
    """Assertions whose unsatisfiability discharges the obligation (for valid / refuted kinds)."""
    asserts = list(ob.hyps)
    if ob.expect != "sat":
        asserts.append(z3.Not(ob.goal))
    for gen in ob.inst:
        asserts += list(gen(asserts))
    ax = axioms.instances(asserts, rounds=ob.rounds, extra_terms=ob.extra_terms, tanh_as_exp=ob.tanh_as_exp) if axioms.uses_t2(asserts + list(ob.extra_terms)) else []
    return asserts, ax


def smt2_text(asserts):
    s = z3.Solver()
    s.add(*asserts)
    return s.to_smt2()


def run_cvc5(text, timeout_s):
    """Second back end on the identical SMT-LIB text (z3's `unknown`s only)."""
    exe = "/usr/bin/cvc5"
    if not os.path.exists(exe):
        return "unknown", "cvc5 not installed"
    with tempfile.NamedTemporaryFile("w", suffix=".smt2", delete=False) as fh:
        # to_smt2 emits (check-sat); logic ALL
        fh.write("(set-logic ALL)\n" + text)
        path = fh.name
    try:
        p = subprocess.run([exe, "--lang=smt2", f"--tlimit={int(timeout_s * 1000)}", "--nl-ext-tplanes", path], capture_output=True, text=True, timeout=timeout_s + 5)
        out = (p.stdout or "").strip().splitlines()
        r = out[0].strip() if out else "unknown"
        return (r if r in ("sat", "unsat") else "unknown"), (p.stdout + p.stderr)[-400:]
    except Exception as ex:
        return "unknown", f"cvc5: {ex}"
    finally:
        os.unlink(path)


def discharge(ob, timeout_ms=20000, second_backend=True):
    """Discharge with escalation of the axiom-instantiation depth: few instances first (fast, stable queries);
    a non-`unsat` answer at a shallow depth is never final."""
    t0 = time.time()
    top = ob.rounds
    depths = [r for r in (1, 2) if r < top] + [top]
    if ob.expect != "valid" or isinstance(ob.goal, bool) or ob.goal is None:
        depths = [top]
    for i, r in enumerate(depths):
        ob.rounds = r
        _discharge_once(ob, timeout_ms if i == len(depths) - 1 else min(timeout_ms, 4000), second_backend and i == len(depths) - 1)
        if ob.status == "discharged":
            break
    ob.rounds = top
    if ob.status == "unknown" and ob.expect == "valid" and ob.kind != "applicability":
        try:
            cand = falsify_by_sampling(ob)
        except Exception:  # noqa: BLE001
            cand = None
        if cand is not None:
            ob.status, ob.backend = "refuted", "sampling"
            ob.solver_output = "solvers: unknown; counter-model found by evaluating the obligation at sampled points (all hypotheses hold, goal fails by > 1e-6): " + str(cand)[:1200]
            if ob.replay and "vars" in ob.replay:
                try:
                    ob.model = {name: cand.get(str(e), None) if isinstance(e, z3.ExprRef) and z3.is_const(e) else None for name, e in ob.replay["vars"].items()}
                except Exception:  # noqa: BLE001
                    ob.model = None
    validate_refutation(ob)
    ob.ms = (time.time() - t0) * 1000
    return ob


# ------------------------------------------------------------------------------------------------
# Falsification by sampling: an obligation the solvers leave `unknown` (typically non-linear real arithmetic with
# transcendental symbols) is evaluated at concrete points.  A point where every hypothesis holds and the goal fails BY A MARGIN
# is a counter-model candidate; it is reported as `refuted` only with that concrete model attached, which the replay then runs on
# the real code.  Sampling never proves anything and is never used for discharging.
class _NoEval(Exception):
    pass


def _feval(e, env):
    """memoised on the term DAG (shared subterms are evaluated once per point)"""
    memo = env.setdefault("$memo", {})
    key = e.get_id()
    if key in memo:
        return memo[key]
    if len(memo) > 200000:
        raise _NoEval("term too large")
    v = _feval0(e, env)
    memo[key] = v
    return v


def _feval0(e, env):
    """evaluate a quantifier-free real/int/bool term at a point (floats; T2 symbols by their mathematical meaning)"""
    import math
    if z3.is_quantifier(e):
        raise _NoEval("quantifier")
    k = e.decl().kind()
    ch = e.children()
    if z3.is_rational_value(e):
        return e.numerator_as_long() / e.denominator_as_long()
    if z3.is_int_value(e):
        return e.as_long()
    if z3.is_true(e):
        return True
    if z3.is_false(e):
        return False
    if k == z3.Z3_OP_SELECT:
        arr, idx = _feval(ch[0], env), _feval(ch[1], env)
        return arr(int(idx))
    if k == z3.Z3_OP_STORE:
        arr, idx, val = _feval(ch[0], env), _feval(ch[1], env), _feval(ch[2], env)
        return lambda j_, arr=arr, idx=idx, val=val: val if j_ == idx else arr(j_)
    if k == z3.Z3_OP_CONST_ARRAY:
        val = _feval(ch[0], env)
        return lambda j_, val=val: val
    if k == z3.Z3_OP_UNINTERPRETED:
        name = e.decl().name()
        if not ch:
            if e.get_id() in env:
                return env[e.get_id()]
            raise _NoEval(f"free symbol {name}")
        a = [_feval(c, env) for c in ch]
        if ("fn:" + name) in env:
            return env["fn:" + name](*a)
        fn = {"r_exp": math.exp, "r_log": lambda v: math.log(v) if v > 0 else float("nan"), "r_tanh": math.tanh, "r_arctanh": lambda v: math.atanh(v) if -1 < v < 1 else float("nan"),
              "r_sqrt": lambda v: math.sqrt(v) if v >= 0 else float("nan"),
              # T3 symbols of the standard log-densities (jax.scipy.stats.<family>.logpdf): their textbook definitions, so that a refutation of
              # "hand-written formula == library log-density" is validated with real numbers instead of being believed from a free interpretation
              "std_logpdf_norm": lambda v: -0.5 * v * v - 0.5 * math.log(2 * math.pi),
              "std_logpdf_cauchy": lambda v: -math.log(math.pi) - math.log1p(v * v),
              "std_logpdf_laplace": lambda v: -abs(v) - math.log(2.0),
              "std_logpdf_logistic": lambda v: -abs(v) - 2.0 * math.log1p(math.exp(-abs(v))),
              "std_logpdf_uniform": lambda v: 0.0 if 0.0 <= v <= 1.0 else float("-inf"),
              "std_logpdf_expon": lambda v: -v if v >= 0.0 else float("-inf")}.get(name)
        if fn is None or len(a) != 1:
            raise _NoEval(f"uninterpreted {name}")
        try:
            return fn(a[0])
        except OverflowError:
            return float("inf")
    a = [_feval(c, env) for c in ch]
    if k == z3.Z3_OP_ADD:
        return sum(a)
    if k == z3.Z3_OP_SUB:
        return a[0] - sum(a[1:])
    if k == z3.Z3_OP_UMINUS:
        return -a[0]
    if k == z3.Z3_OP_MUL:
        out = 1
        for v in a:
            out *= v
        return out
    if k == z3.Z3_OP_DIV:
        return a[0] / a[1] if a[1] != 0 else float("nan")
    if k == z3.Z3_OP_IDIV:
        return a[0] // a[1] if a[1] != 0 else float("nan")
    if k == z3.Z3_OP_MOD:
        return a[0] % a[1] if a[1] != 0 else float("nan")
    if k == z3.Z3_OP_POWER:
        return a[0] ** a[1]
    if k == z3.Z3_OP_TO_REAL:
        return float(a[0])
    if k == z3.Z3_OP_TO_INT:
        return math.floor(a[0])
    if k == z3.Z3_OP_ITE:
        return a[1] if a[0] else a[2]
    if k == z3.Z3_OP_AND:
        return all(a)
    if k == z3.Z3_OP_OR:
        return any(a)
    if k == z3.Z3_OP_NOT:
        return not a[0]
    if k == z3.Z3_OP_IMPLIES:
        return (not a[0]) or a[1]
    if k == z3.Z3_OP_EQ:
        return ("eq", a[0], a[1]) if not isinstance(a[0], bool) else a[0] == a[1]
    if k == z3.Z3_OP_DISTINCT:
        return ("ne", a[0], a[1])
    if k in (z3.Z3_OP_LE, z3.Z3_OP_LT, z3.Z3_OP_GE, z3.Z3_OP_GT):
        return ({z3.Z3_OP_LE: "le", z3.Z3_OP_LT: "lt", z3.Z3_OP_GE: "ge", z3.Z3_OP_GT: "gt"}[k], a[0], a[1])
    raise _NoEval(f"operator {e.decl().name()}")


def _truth(v, margin, want):
    """three-valued: True / False only when decided by more than `margin`; None = too close to call (or nan)"""
    import math
    if isinstance(v, bool):
        return v
    if isinstance(v, tuple):
        op, x, y = v
        if any(isinstance(t, float) and (math.isnan(t) or math.isinf(t)) for t in (x, y)):
            return None
        tol = margin * max(1.0, abs(x), abs(y))
        d = x - y
        if op == "eq":
            return True if d == 0 else (False if abs(d) > tol else None)
        if op == "ne":
            return False if d == 0 else (True if abs(d) > tol else None)
        if op in ("le", "lt"):
            return True if d < -tol else (False if d > tol else (True if (d == 0 and op == "le") else None))
        if op in ("ge", "gt"):
            return True if d > tol else (False if d < -tol else (True if (d == 0 and op == "ge") else None))
    return None


def _beval(e, env, margin):
    """boolean structure evaluated three-valued (memoised)"""
    memo = env.setdefault("$bmemo", {})
    key = (e.get_id(), margin)
    if key not in memo:
        memo[key] = _beval0(e, env, margin)
    return memo[key]


def _beval0(e, env, margin):
    k = e.decl().kind() if z3.is_app(e) else None
    if k == z3.Z3_OP_AND:
        vals = [_beval(c, env, margin) for c in e.children()]
        return False if any(v is False for v in vals) else (None if any(v is None for v in vals) else True)
    if k == z3.Z3_OP_OR:
        vals = [_beval(c, env, margin) for c in e.children()]
        return True if any(v is True for v in vals) else (None if any(v is None for v in vals) else False)
    if k == z3.Z3_OP_NOT:
        v = _beval(e.arg(0), env, margin)
        return None if v is None else (not v)
    if k == z3.Z3_OP_IMPLIES:
        a, b = _beval(e.arg(0), env, margin), _beval(e.arg(1), env, margin)
        return True if (a is False or b is True) else (False if (a is True and b is False) else None)
    if k == z3.Z3_OP_ITE and e.sort() == z3.BoolSort():
        c = _beval(e.arg(0), env, margin)
        return None if c is None else _beval(e.arg(1) if c else e.arg(2), env, margin)
    return _truth(_feval(e, env), margin, None)


def falsify_by_sampling(ob, n=400, seed=0, stats=None):
    """returns a dict model (name -> value) of a sampled counter-model candidate, or None.
    stats (optional dict) receives: evaluable (bool), hyp_sat (number of sampled points at which every hypothesis held)"""
    import random
    if stats is not None:
        stats.update(evaluable=False, hyp_sat=0)
    if not isinstance(ob.goal, z3.ExprRef) or ob.expect != "valid":
        return None
    try:
        asserts = list(ob.hyps)
        consts = consts_of(asserts + [ob.goal])
        if not consts or len(consts) > 24:
            return None
        if ob.sampler is None and any(c.sort() not in (z3.RealSort(), z3.IntSort(), z3.BoolSort()) for c in consts):
            return None
    except Exception:  # noqa: BLE001
        return None
    rnd = random.Random(seed)
    pool_r = [0.0, 1.0, -1.0, 0.5, -0.5, 2.0, -2.0, 3.0, 0.25, 1.5, -1.5, 10.0, -3.0]
    t_end = time.time() + 6.0  # hard budget per obligation
    for it_ in range(n):
        if time.time() > t_end:
            return None
        env, named = {}, {}
        given = {}
        if ob.sampler is not None:
            for key_, val_ in ob.sampler(rnd).items():
                if isinstance(key_, str):
                    env[key_] = val_
                else:
                    given[key_.get_id()] = val_
                    named[str(key_)] = val_ if not callable(val_) else [val_(q_) for q_ in range(8)]
        for c in consts:
            if c.get_id() in given:
                env[c.get_id()] = given[c.get_id()]
                continue
            if c.sort() not in (z3.RealSort(), z3.IntSort(), z3.BoolSort()):
                return None
            if c.sort() == z3.IntSort():
                v = rnd.choice([0, 1, 2, 3, 4, 5, -1]) if rnd.random() < 0.8 else rnd.randint(-3, 12)
            elif c.sort() == z3.BoolSort():
                v = rnd.random() < 0.5
            else:
                r = rnd.random()
                v = rnd.choice(pool_r) if r < 0.35 else (rnd.gauss(0, 1.5) if r < 0.8 else rnd.gauss(0, 8))
            env[c.get_id()] = v
            named[str(c)] = v
        try:
            if not all(_beval(h, env, 1e-9) is True for h in asserts):
                continue
            verdict = _beval(ob.goal, env, 1e-6)
            if stats is not None:
                stats["evaluable"] = True
                if verdict is True:
                    stats["hyp_sat"] += 1
            if verdict is False:
                return named
        except (_NoEval, ZeroDivisionError, OverflowError, ValueError, TypeError):
            if stats is not None:
                stats["evaluable"] = False
            return None
    return None


T2_SYMBOLS = ("r_exp", "r_log", "r_tanh", "r_arctanh", "r_sqrt")


def _mentions_t2(ob):
    seen, found = set(), [False]

    def walk(e):
        if found[0] or e.get_id() in seen:
            return
        seen.add(e.get_id())
        if z3.is_quantifier(e):
            walk(e.body())
            return
        if z3.is_app(e):
            if e.decl().kind() == z3.Z3_OP_UNINTERPRETED and e.decl().name() in T2_SYMBOLS:
                found[0] = True
                return
            for c in e.children():
                walk(c)

    for f in list(ob.hyps) + [ob.goal]:
        if isinstance(f, z3.ExprRef):
            walk(f)
    return found[0]


def validate_refutation(ob):
    """A `sat` answer for an obligation over UNINTERPRETED transcendental symbols (exp, log, tanh, ... with ground axiom instances
    only) is a counter-model of the axioms, not necessarily of the real functions.  The obligation is therefore evaluated with the
    real functions at sampled points: a point where every hypothesis holds and the goal fails (by a margin) confirms the refutation
    and becomes the reported counter-model; if the goal holds at every one of >= 40 sampled points that satisfy the hypotheses, the
    solver's model is spurious and the obligation is UNDECIDED (the bounded stand-in decides), never a violation."""
    if ob.status != "refuted" or ob.backend == "sampling" or ob.expect != "valid" or not isinstance(ob.goal, z3.ExprRef):
        return
    try:
        if not _mentions_t2(ob):
            return
        st = {}
        cand = falsify_by_sampling(ob, n=600, stats=st)
    except Exception:  # noqa: BLE001
        return
    if cand is not None:
        ob.backend = f"{ob.backend}+sampling"
        ob.solver_output = (ob.solver_output or "") + "\ncounter-model confirmed with the real transcendental functions at the sampled point " + str(cand)[:800]
        if ob.replay and "vars" in ob.replay:
            try:
                ob.model = {name: cand.get(str(e), None) if isinstance(e, z3.ExprRef) and z3.is_const(e) else None for name, e in ob.replay["vars"].items()}
            except Exception:  # noqa: BLE001
                pass
        return
    if st.get("evaluable") and st.get("hyp_sat", 0) >= 40:
        ob.status = "unknown"
        ob.solver_output = (f"solver answered sat, but its model interprets exp/log/tanh/... freely (only ground axiom instances are given): the goal holds with the real functions at all "
                            f"{st['hyp_sat']} sampled points that satisfy the hypotheses -> spurious counter-model, obligation undecided\n") + (ob.solver_output or "")[:1500]


_POOL_OBS = []


def _pool_worker(args):
    i, timeout_ms = args
    ob = _POOL_OBS[i]
    try:
        discharge(ob, timeout_ms)
    except Exception as ex:  # pragma: no cover
        ob.status, ob.solver_output = "unknown", f"discharge crashed: {type(ex).__name__}: {ex}"
    return i, ob.status, ob.backend, ob.ms, ob.model, ob.solver_output


def _xcheck_worker(i):
    """thorough tier: re-check a discharged / refuted SMT obligation with a second solver (cvc5 CLI, then z3 4.8.12 CLI)"""
    ob = _POOL_OBS[i]
    if not isinstance(ob.goal, z3.ExprRef) or getattr(ob, "ratfun", None) is not None or ob.status not in ("discharged", "refuted"):
        return i, None
    try:
        asserts, ax = _formula(ob)
        if any(_has_q(a) for a in asserts):
            return i, "skipped(quantified)"
        text = smt2_text(asserts + ax)
    except Exception as ex:
        return i, f"skipped({type(ex).__name__})"
    r, _out = run_cvc5(text, 10)
    if r == "unknown" and os.path.exists("/usr/bin/z3"):
        with tempfile.NamedTemporaryFile("w", suffix=".smt2", delete=False) as fh:
            fh.write(text)
            path = fh.name
        try:
            p = subprocess.run(["/usr/bin/z3", "-T:10", path], capture_output=True, text=True, timeout=15)
            first = (p.stdout or "").strip().splitlines()[:1]
            r = first[0] if first and first[0] in ("sat", "unsat") else "unknown"
            if r != "unknown":
                r = "z3-4.8.12:" + r
        except Exception:
            r = "unknown"
        finally:
            os.unlink(path)
    elif r != "unknown":
        r = "cvc5:" + r
    return i, r


def cross_check(obs, jobs=None):
    """returns (agreements, unknowns, disagreements[list of oid])"""
    import multiprocessing as mp

    global _POOL_OBS
    _POOL_OBS = obs
    agree, unk, dis = 0, 0, []
    with mp.get_context("fork").Pool(jobs or min(16, os.cpu_count() or 1)) as pool:
        for i, r in pool.imap_unordered(_xcheck_worker, range(len(obs))):
            if r is None or r.startswith("skipped"):
                continue
            ob = obs[i]
            if r == "unknown":
                unk += 1
                continue
            verdict = r.split(":")[1]
            expected = "unsat" if ob.status == "discharged" else "sat"
            if verdict == expected:
                agree += 1
                ob.backend = f"{ob.backend}+{r.split(':')[0]}"
            else:
                dis.append(ob.oid)
    return agree, unk, dis


def discharge_all(obs, timeout_ms, jobs=None):
    """Discharge in forked worker processes (one obligation per task): parallel, and each query starts from the
    same solver state, so verdicts do not depend on the order of the obligations."""
    import multiprocessing as mp

    global _POOL_OBS
    jobs = jobs or min(16, os.cpu_count() or 1)
    if jobs <= 1 or len(obs) < 4:
        for ob in obs:
            discharge(ob, timeout_ms)
        return obs
    _POOL_OBS = obs
    ctx = mp.get_context("fork")
    with ctx.Pool(jobs, maxtasksperchild=8) as pool:
        for i, status, backend, ms, model, out in pool.imap_unordered(_pool_worker, [(i, timeout_ms) for i in range(len(obs))]):
            ob = obs[i]
            ob.status, ob.backend, ob.ms, ob.model, ob.solver_output = status, backend, ms, model, out
    return obs


def z3_to_sympy(e, syms):
    """z3 real term (+,-,*,/,numerals, constants, array reads as atoms) -> sympy expression"""
    import sympy

    if z3.is_rational_value(e):
        return sympy.Rational(e.numerator_as_long(), e.denominator_as_long())
    if z3.is_int_value(e):
        return sympy.Integer(e.as_long())
    k = e.decl().kind()
    ch = e.children()
    if k == z3.Z3_OP_ADD:
        return sum((z3_to_sympy(c, syms) for c in ch), sympy.Integer(0))
    if k == z3.Z3_OP_SUB:
        r = z3_to_sympy(ch[0], syms)
        for c in ch[1:]:
            r = r - z3_to_sympy(c, syms)
        return r
    if k == z3.Z3_OP_UMINUS:
        return -z3_to_sympy(ch[0], syms)
    if k == z3.Z3_OP_MUL:
        r = sympy.Integer(1)
        for c in ch:
            r = r * z3_to_sympy(c, syms)
        return r
    if k == z3.Z3_OP_DIV:
        return z3_to_sympy(ch[0], syms) / z3_to_sympy(ch[1], syms)
    if k == z3.Z3_OP_TO_REAL:
        return z3_to_sympy(ch[0], syms)
    if k == z3.Z3_OP_POWER and z3.is_int_value(ch[1]):
        return z3_to_sympy(ch[0], syms) ** ch[1].as_long()
    if k in (z3.Z3_OP_UNINTERPRETED, z3.Z3_OP_SELECT) :
        key = e.get_id()
        if key not in syms:
            syms[key] = sympy.Symbol(f"v{len(syms)}")
        return syms[key]
    raise NotImplementedError(f"z3_to_sympy: {e.decl()}")


def rational_identity(lhs, rhs):
    """Decide lhs == rhs as an identity of rational functions (normal form: cancel(together(lhs - rhs)) == 0).
    Sound wherever all denominators are non-zero (proved by separate SMT obligations)."""
    import sympy

    syms = {}
    d = sympy.together(z3_to_sympy(lhs, syms) - z3_to_sympy(rhs, syms))
    num, _den = sympy.fraction(sympy.cancel(d))
    return sympy.expand(num) == 0


def _discharge_once(ob, timeout_ms=20000, second_backend=True):
    t0 = time.time()
    if getattr(ob, "ratfun", None) is not None:
        lhs, rhs = ob.ratfun
        try:
            ok = rational_identity(lhs, rhs)
            ob.status = "discharged" if ok else "refuted"
            ob.solver_output = "" if ok else "sympy: cancel(together(lhs - rhs)) has a non-zero numerator"
        except Exception as ex:
            ob.status, ob.solver_output = "unknown", f"sympy back end: {type(ex).__name__}: {ex}"
        ob.backend = "sympy-ratfun"
        ob.ms = (time.time() - t0) * 1000
        return ob
    if ob.expect != "valid":
        timeout_ms = min(timeout_ms, 2000)
        second_backend = False
    if isinstance(ob.goal, bool) or ob.goal is None:
        # structural fact decided directly on the AST / class table
        ok = bool(ob.goal)
        if ob.expect == "refuted":
            ob.status = "ok" if not ok else "control_failed"
        elif ob.kind == "applicability" and not ok:
            # the code no longer has the shape the contract's model covers (e.g. a method body with several Python-level paths):
            # nothing is known about the property from this family - undecided, never a violation
            ob.status, ob.solver_output = "unknown", "the contract's model does not cover this code shape: " + (ob.note or "")
        else:
            ob.status = "discharged" if ok else "refuted"
        ob.backend = "ast"
        ob.ms = (time.time() - t0) * 1000
        return ob
    try:
        asserts, ax = _formula(ob)
    except Exception as ex:
        ob.status, ob.solver_output = "unknown", f"formula construction failed: {ex}"
        return ob
    has_t2 = bool(ax)
    s = z3.Solver()
    s.set("timeout", min(timeout_ms, 3000) if has_t2 and ob.expect == "valid" else timeout_ms)
    s.add(*asserts)
    s.add(*ax)
    r = s.check()
    ob.backend = f"z3-{z3.get_version_string()}"
    if r == z3.unknown and ob.expect == "valid" and not any(_has_q(a) for a in asserts):
        # (0) non-linear terms abstracted to uninterpreted functions: EUF + linear arithmetic, `unsat` is conclusive
        try:
            t = z3.Solver()
            t.set("timeout", min(timeout_ms, 5000))
            t.add(*abstract_nonlinear(asserts + ax))
            if t.check() == z3.unsat:
                r, s = z3.unsat, t
                ob.backend = f"z3-{z3.get_version_string()}(nonlinear terms abstracted)"
        except Exception as ex:  # pragma: no cover
            ob.solver_output = f"abstraction failed: {ex}"
    if r == z3.unknown and has_t2 and not any(_has_q(a) for a in asserts):
        # Ackermann reduction of the T2 symbols (exact for ground formulas) -> pure QF_NRA -> nlsat
        try:
            # (a) plain abstraction (no consistency instances): more models, so `unsat` is conclusive
            pa = ackermannize(asserts + ax, congruence=False)
            t = z3.Tactic("qfnra-nlsat").solver()
            t.set("timeout", timeout_ms)
            t.add(*pa)
            ra = t.check()
            if ra == z3.unsat:
                r, s = ra, t
                ob.backend = f"z3-{z3.get_version_string()}(abstraction+nlsat)"
            else:
                # (b) exact Ackermann reduction
                pa = ackermannize(asserts + ax)
                t = z3.Tactic("qfnra-nlsat").solver()
                t.set("timeout", timeout_ms)
                t.add(*pa)
                r = t.check()
                if r != z3.unknown:
                    s = t
                    ob.backend = f"z3-{z3.get_version_string()}(ackermann+nlsat)"
        except Exception as ex:  # pragma: no cover
            ob.solver_output = f"ackermannization failed: {ex}"
    if r == z3.unknown and ob.expect == "valid" and not has_t2:
        try:
            t = z3.Then("simplify", "purify-arith", "solve-eqs", "smt").solver()
            t.set("timeout", timeout_ms)
            t.add(*asserts)
            t.add(*ax)
            r = t.check()
            if r != z3.unknown:
                s = t
                ob.backend += "(tactic)"
        except Exception:
            pass
    out = str(r)
    if r == z3.unknown and second_backend:
        r2, txt = run_cvc5(smt2_text(asserts + ax), timeout_ms / 1000)
        if r2 != "unknown":
            out, ob.backend = r2, "cvc5-1.0.3"
        ob.solver_output = txt
    ob.ms = (time.time() - t0) * 1000
    if ob.expect == "sat":
        ob.status = {"sat": "ok", "unsat": "vacuous"}.get(out, "guard_unknown")
    elif ob.expect == "refuted":
        ob.status = {"sat": "ok", "unsat": "control_failed"}.get(out, "guard_unknown")
    else:
        ob.status = {"unsat": "discharged", "sat": "refuted"}.get(out, "unknown")
        if out == "sat" and r == z3.sat:
            m = s.model()
            ob.solver_output = f"sat; model: {str(m)[:1500]}"
            if ob.replay and "vars" in ob.replay:
                ob.model = model_values(m, ob.replay["vars"])
                if ob.replay.get("arrays"):
                    try:
                        nval = m.eval(ob.replay["vars"]["n"], model_completion=True).as_long()
                    except Exception:
                        nval = 0
                    for aname, arr in ob.replay["arrays"].items():
                        ob.model["arr:" + aname] = [_val(m.eval(z3.Select(arr, k), model_completion=True)) for k in range(max(0, min(nval, 16)))]
                for fname, decl in (ob.replay.get("funcs") or {}).items():
                    tab = []
                    for a in apps_of(decl, asserts):
                        tab.append([_val(m.eval(x, model_completion=True)) for x in a.children()] + [_val(m.eval(a, model_completion=True))])
                    ob.model["fn:" + fname] = tab
        elif out == "sat":
            ob.solver_output = "sat (cvc5, no model extracted)"
        if out == "unknown":
            ob.solver_output = (ob.solver_output or "") + f" z3 reason: {s.reason_unknown()}"
    return ob


def _has_q(e):
    from .interp import _has_quantifier

    return _has_quantifier(e)


def ackermannize(asserts, congruence=True):
    """Replace every application of an uninterpreted T2 function by a fresh real constant and add ALL functional
    consistency instances (a1 == a2 -> c1 == c2): equisatisfiable for ground formulas."""
    from .values import UF

    names = {f.name() for f in UF.values()}
    cache, consts = {}, {}

    def rb(e):
        i = e.get_id()
        if i in cache:
            return cache[i]
        if z3.is_app(e) and e.num_args() > 0:
            ch = [rb(c) for c in e.children()]
            d = e.decl()
            if d.kind() == z3.Z3_OP_UNINTERPRETED and d.name() in names:
                key = (d.name(), ch[0].get_id())
                if key not in consts:
                    consts[key] = (z3.Real(f"{d.name()}!{len(consts)}"), ch[0])
                r = consts[key][0]
            else:
                r = d(*ch)
        else:
            r = e
        cache[i] = r
        return r

    out = [rb(a) for a in asserts]
    if not congruence:
        return out
    by_fn = {}
    for (name, _i), (c, arg) in consts.items():
        by_fn.setdefault(name, []).append((c, arg))
    import itertools

    for name, lst in by_fn.items():
        for (c1, a1), (c2, a2) in itertools.combinations(lst, 2):
            out.append(z3.Implies(a1 == a2, c1 == c2))
    return out


_UDIV = z3.Function("udiv", z3.RealSort(), z3.RealSort(), z3.RealSort())
_UMUL = z3.Function("umul", z3.RealSort(), z3.RealSort(), z3.RealSort())


def abstract_nonlinear(asserts):
    """Replace every division and every non-linear product by an uninterpreted function application (commutativity of
    the product is kept by ordering the factors).  The abstraction has MORE models, so `unsat` is conclusive; it turns
    'the code's formula equals the spec's formula by congruence' obligations into EUF + linear arithmetic."""
    cache = {}

    def is_num(e):
        return z3.is_rational_value(e) or z3.is_int_value(e)

    def rb(e):
        i = e.get_id()
        if i in cache:
            return cache[i]
        r = e
        if z3.is_quantifier(e):
            raise ValueError("quantifier")
        if z3.is_app(e) and e.num_args() > 0:
            ch = [rb(c) for c in e.children()]
            k = e.decl().kind()
            if k == z3.Z3_OP_DIV and e.sort() == z3.RealSort():
                r = ch[0] / ch[1] if is_num(ch[1]) else _UDIV(ch[0], ch[1])
            elif k == z3.Z3_OP_MUL and e.sort() == z3.RealSort():
                nums = [c for c in ch if is_num(c)]
                rest = [c for c in ch if not is_num(c)]  # factor order kept (sorting by id would break congruence)
                acc = None
                for c in rest:
                    acc = c if acc is None else _UMUL(acc, c)
                if acc is None:
                    r = e.decl()(*ch)
                else:
                    r = acc
                    for c in nums:
                        r = c * r
            else:
                r = e.decl()(*ch)
        cache[i] = r
        return r

    return [rb(a) for a in asserts]


def _has_var(e):
    seen, stack = set(), [e]
    while stack:
        t = stack.pop()
        if t.get_id() in seen:
            continue
        seen.add(t.get_id())
        if z3.is_var(t):
            return True
        if z3.is_app(t):
            stack.extend(t.children())
    return False


def apps_of(decl, exprs):
    """All GROUND applications of an uninterpreted function in exprs (deduplicated; applications that mention a
    quantifier-bound variable are not ground instances and are skipped)."""
    seen, out, stack = set(), {}, list(exprs)
    while stack:
        e = stack.pop()
        if e.get_id() in seen:
            continue
        seen.add(e.get_id())
        if z3.is_quantifier(e):
            stack.append(e.body())
            continue
        if z3.is_app(e):
            if e.decl().eq(decl) and not _has_var(e):
                out[e.get_id()] = e
            stack.extend(e.children())
    return list(out.values())


def flatten_and(e):
    if z3.is_and(e):
        out = []
        for c in e.children():
            out += flatten_and(c)
        return out
    return [e]


def split_goal(goal):
    """conjuncts of a goal, each universally quantified conjunct replaced by its body at fresh (arbitrary) constants:
    proving P(sk) for an unconstrained sk proves forall m. P(m).  Returns [(suffix, goal)]"""
    out = []
    for n_, g in enumerate(flatten_and(goal)):
        if z3.is_true(g):
            continue
        if z3.is_quantifier(g) and g.is_forall():
            sks = [z3.Const(f"sk_{g.var_name(i)}".replace("!", "_"), g.var_sort(i)) for i in range(g.num_vars())]
            g = z3.substitute_vars(g.body(), *reversed(sks))
        out.append((f"/c{n_}", g))
    if len(out) == 1:
        out = [("", out[0][1])]
    return out


def forall_instances(asserts, max_terms=8):
    """instantiate every single-variable integer forall among the assertions (top-level conjuncts) at the integer constants
    that occur free in the assertions (sound: instances of true universal facts)"""
    terms = [t for t in consts_of(asserts, z3.IntSort()) if "!b" not in str(t) and "!q" not in str(t)][:max_terms]
    out = []
    for a in asserts:
        for c in flatten_and(a):
            if z3.is_quantifier(c) and c.is_forall() and c.num_vars() == 1 and c.var_sort(0) == z3.IntSort():
                for t in terms:
                    out.append(z3.substitute_vars(c.body(), t))
                    out.append(z3.substitute_vars(c.body(), t + 1))
    return out


def consts_of(exprs, sort=None):
    seen, out, stack = set(), {}, list(exprs)
    while stack:
        e = stack.pop()
        if e.get_id() in seen:
            continue
        seen.add(e.get_id())
        if z3.is_quantifier(e):
            stack.append(e.body())
            continue
        if z3.is_const(e) and e.decl().kind() == z3.Z3_OP_UNINTERPRETED and (sort is None or e.sort() == sort):
            out[e.get_id()] = e
        elif z3.is_app(e):
            stack.extend(e.children())
    return list(out.values())


def strictly_increasing(f, extra_points=()):
    """Instance generator: pairwise strict monotonicity of the unary real function f over every
    point at which f is applied in the obligation (plus extra_points)."""
    import itertools

    def gen(asserts):
        pts = {}
        for a in apps_of(f, asserts):
            p = z3.simplify(a.arg(0))
            pts[p.get_id()] = p
        for p in extra_points:
            p = z3.simplify(p)
            pts[p.get_id()] = p
        out = []
        for a, b in itertools.combinations(list(pts.values()), 2):
            out.append(z3.Implies(a < b, f(a) < f(b)))
            out.append(z3.Implies(b < a, f(b) < f(a)))
        return out

    return gen


# --------------------------------------------------------------------------------------
class Ctx:
    """What a contract family sees."""

    def __init__(self, family, source, tier):
        self.family, self.tier = family, tier
        self.source = source
        self.interp = Interp(source)
        self.obligations = []
        self.assumptions = set()
        self.notes = []
        self.default_sampler = None  # contract-supplied point generator for the sampling falsifier (see Obligation.sampler)

    def new_interp(self):
        used, ex, dr = self.interp.used_lib, self.interp.executed, self.interp.dropped
        self.interp = Interp(self.source)
        self.interp.used_lib, self.interp.executed, self.interp.dropped = used, ex, dr
        return self.interp

    def oblige(self, oid, goal, hyps=(), props=(), kind="post", expect="valid", fn=None, replay=None, cases=None, cuts=None, **kw):
        if cuts:
            # intermediate assertions (like `assert` hints in Dafny): each cut is proved from the hypotheses and the
            # earlier cuts (optionally from a stated SUBSET of the hypotheses), then may be assumed for the goal
            acc = []
            for cut in cuts:
                cname, cform = cut[0], cut[1]
                chyps = list(cut[2]) if len(cut) > 2 and cut[2] is not None else list(hyps)
                self.oblige(f"{oid}/cut:{cname}", cform, chyps + acc, props, kind="cut", fn=fn, replay=replay, cases=None, **kw)
                acc.append(cform)
            return self.oblige(oid, goal, list(hyps) + acc, props, kind=kind, expect=expect, fn=fn, replay=replay, cases=cases, **kw)
        if cases:
            # case split (helps the nonlinear solver): one obligation per case + exhaustiveness of the cases
            self.oblige(f"{oid}/cases_exhaustive", z3.Or(*[c for _n, c in cases]), hyps, props, kind="cases", fn=fn, **kw)
            out = None
            for n, c in cases:
                out = self.oblige(f"{oid}[{n}]", goal, list(hyps) + [c], props, kind=kind, expect=expect, fn=fn, replay=replay, **kw)
            return out
        if "sampler" not in kw and self.default_sampler is not None:
            kw["sampler"] = self.default_sampler
        ob = Obligation(oid=oid, props=list(props), kind=kind, hyps=list(hyps), goal=goal, expect=expect, fn=fn, replay=replay, **kw)
        self.obligations.append(ob)
        return ob

    def cover(self, oid, hyps, props=(), fn=None, **kw):
        return self.oblige(oid, z3.BoolVal(True), hyps, props, kind="cover", expect="sat", fn=fn, **kw)

    def control(self, oid, goal, hyps=(), props=(), fn=None, **kw):
        return self.oblige(oid, goal, hyps, props, kind="control", expect="refuted", fn=fn, **kw)

    def from_path(self, path, prefix, props, fn=None, extra_hyps=(), replay=None, rename=None, **kw):
        """Turn obligations emitted by the interpreter on a path (loop cuts, call sites) into ours."""
        for em in path.obligations:
            oid = em.oid
            if rename:
                oid = rename(oid)
            self.oblige(f"{prefix}/{oid}", em.goal, list(extra_hyps) + em.hyps, props, kind=em.kind, fn=fn, replay=replay, **kw)

    def assume_note(self, text):
        self.assumptions.add(text)


FAMILIES = []  # (name, props, fn)


def family(name, props):
    def deco(f):
        FAMILIES.append((name, list(props), f))
        return f

    return deco


CONTRACT_MODULES = ["bisection", "leaves", "train", "spline", "planar", "combinators", "shapes", "distributions", "masks", "losses", "wrappers", "wrappers13", "params11", "integrate04", "purity", "structured", "datafit", "triangular", "simple", "mixture", "bnaf", "flowsfac"]


def load_contracts():
    sys.path.insert(0, VERIF)
    loaded = []
    for m in CONTRACT_MODULES:
        path = os.path.join(VERIF, "contracts", m + ".py")
        if os.path.exists(path):
            importlib.import_module(f"contracts.{m}")
            loaded.append(m)
    return loaded


def run_families(pid, tier, only=None):
    """Generate all obligations that serve property pid."""
    source = Source(REPO)
    obs, fam_errors, ctxs = [], [], []
    for name, props, fn in FAMILIES:
        if pid not in props:
            continue
        if only and name not in only:
            continue
        ctx = Ctx(name, source, tier)
        budget = int(os.environ.get("FJVC_FAMILY_BUDGET_S", "900" if tier == "quick" else "3600"))

        def _alarm(signum, frame):
            raise Untranslatable(f"symbolic execution of the family exceeded its wall-clock budget of {budget}s")

        old_handler = signal.signal(signal.SIGALRM, _alarm)
        signal.alarm(budget)
        try:
            try:
                fn(ctx)
            finally:
                signal.alarm(0)
                signal.signal(signal.SIGALRM, old_handler)
        except Untranslatable as ex:
            fam_errors.append((name, "untranslatable", str(ex)))
        except PyRaise as ex:
            fam_errors.append((name, "untranslatable", f"interpreted program raised {ex.exc} outside a contract outcome"))
        except Exception:
            fam_errors.append((name, "error", traceback.format_exc()[-1500:]))
        ctxs.append(ctx)
        for ob in ctx.obligations:
            if pid in ob.props:
                ob.family = name
                obs.append(ob)
    return obs, fam_errors, ctxs
