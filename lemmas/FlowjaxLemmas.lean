/-
  T1 facts used as hypotheses by the contracts in /verif/contracts (machine-checked here with Lean 4 + Mathlib).
  Each lemma names the contract obligation(s) that rely on it.  Checked by `bin/lemmas` (not part of the quick tier).
-/
import Mathlib

open Real BigOperators

namespace Flowjax

/-- C11: BijectionReparam(SoftPlus) / TriangularAffine diagonal / StudentT df: softplus is strictly positive. -/
theorem softplus_pos (x : ℝ) : 0 < Real.log (1 + Real.exp x) := by
  apply Real.log_pos
  have := Real.exp_pos x
  linarith

/-- C11/C05 mixture weights, C17 contrastive loss: log-sum-exp shift law
    (`logsumexp (a - c) = logsumexp a - c`, hence `logsumexp (log_softmax a) = 0`). -/
theorem logsumexp_shift {ι : Type*} (s : Finset ι) (hs : s.Nonempty) (a : ι → ℝ) (c : ℝ) :
    Real.log (∑ i ∈ s, Real.exp (a i - c)) = Real.log (∑ i ∈ s, Real.exp (a i)) - c := by
  have h1 : ∑ i ∈ s, Real.exp (a i - c) = (∑ i ∈ s, Real.exp (a i)) * Real.exp (-c) := by
    rw [Finset.sum_mul]
    apply Finset.sum_congr rfl
    intro i _
    rw [← Real.exp_add]
    ring_nf
  have hpos : 0 < ∑ i ∈ s, Real.exp (a i) := Finset.sum_pos (fun i _ => Real.exp_pos _) hs
  rw [h1, Real.log_mul hpos.ne' (Real.exp_pos _).ne', Real.log_exp]
  ring

/-- C11 mixture weights: the normalised weights sum to one. -/
theorem softmax_sum_one {ι : Type*} (s : Finset ι) (hs : s.Nonempty) (a : ι → ℝ) :
    ∑ i ∈ s, Real.exp (a i) / (∑ j ∈ s, Real.exp (a j)) = 1 := by
  have hpos : 0 < ∑ i ∈ s, Real.exp (a i) := Finset.sum_pos (fun i _ => Real.exp_pos _) hs
  rw [← Finset.sum_div]
  exact div_self hpos.ne'

/-- C11 spline knots: adjacent increase implies global strict monotonicity (cumsum of positive widths). -/
theorem knots_strictMono (f : ℕ → ℝ) (h : ∀ n, f n < f (n + 1)) : StrictMono f :=
  strictMono_nat_of_lt_succ h

/-- C02 TriangularAffine / MaskedAutoregressive / BNAF: the determinant of a lower triangular matrix is the
    product of its diagonal. -/
theorem det_lower_triangular {n : ℕ} (M : Matrix (Fin n) (Fin n) ℝ)
    (h : ∀ i j, i < j → M i j = 0) : M.det = ∏ i, M i i := by
  apply Matrix.det_of_lowerTriangular
  intro i j hij
  exact h i j hij

/-- C02 log-determinants are sums of logs of the diagonal: log |∏ d_i| = ∑ log |d_i| for non-zero d_i. -/
theorem log_abs_prod {n : ℕ} (d : Fin n → ℝ) (h : ∀ i, d i ≠ 0) :
    Real.log |∏ i, d i| = ∑ i, Real.log |d i| := by
  rw [Finset.abs_prod]
  rw [Real.log_prod]
  intro i _
  exact abs_ne_zero.mpr (h i)

/-- C02 Permute / Flip: a permutation matrix has |det| = 1 (log-det 0). -/
theorem abs_det_permutation {n : ℕ} (σ : Equiv.Perm (Fin n)) :
    |(σ.permMatrix ℝ).det| = 1 := by
  rw [Matrix.det_permutation]
  rcases Int.units_eq_one_or (Equiv.Perm.sign σ) with h | h <;> simp [h]

/-- C02 Chain / Scan / Invert: |det (A * B)| = |det A| * |det B| (log-dets add along a composition). -/
theorem abs_det_mul {n : ℕ} (A B : Matrix (Fin n) (Fin n) ℝ) :
    |(A * B).det| = |A.det| * |B.det| := by
  rw [Matrix.det_mul, abs_mul]

/-- C02 BNAF: matrix product is associative (logmatmulexp may be folded in either nesting). -/
theorem matmul_assoc {n : ℕ} (A B C : Matrix (Fin n) (Fin n) ℝ) : A * B * C = A * (B * C) :=
  Matrix.mul_assoc A B C

/-- C07/C18 tanh bounds used for the LeakyTanh inverse domain. -/
theorem tanh_abs_lt_one (x : ℝ) : |Real.tanh x| < 1 := by
  rw [abs_lt]
  exact ⟨Real.neg_one_lt_tanh x, Real.tanh_lt_one x⟩

/-- C10: bisection halves the bracket. -/
theorem bisection_halves (a b : ℝ) : (a + b) / 2 - a = (b - a) / 2 ∧ b - (a + b) / 2 = (b - a) / 2 := by
  constructor <;> ring

/-- C10: after k halvings the width is W / 2^k. -/
theorem width_after (W : ℝ) (k : ℕ) : Nat.iterate (fun w => w / 2) k W = W / 2 ^ k := by
  induction k generalizing W with
  | zero => simp
  | succ k ih =>
    rw [Function.iterate_succ, Function.comp, ih]
    field_simp
    ring

end Flowjax
